/-
  C05 — Acquisition values and success probabilities mean what they claim.
  Property theorems only (helpers live in Proofs/C05*.lean).  All statements are about the ℝ instance
  of the model `Model/C05.lean` and hold for every posterior mean / variance, incumbent, threshold,
  noise level, cost, list of failure models, batch size and list of points.

  The normal CDF `Φ` is a function parameter of the model; each theorem assumes exactly the facts about
  `Φ` it uses (none, range [0,1], monotone).  `Proofs/C05Gaussian.lean` instantiates them with
  Mathlib's Gaussian measure (stretch theorem `ei_is_expectation` at the end of this file).
-/
import Model.C05
import Proofs.C05
import Proofs.C05Gaussian
import Mathlib.Tactic.Linarith
import Mathlib.Tactic.Ring
import Mathlib.Tactic.NormNum
import Mathlib.Tactic.Positivity
import Mathlib.Tactic.FieldSimp

namespace C05

/-! ### Side lemmas on generated constants (a changed constant breaks exactly these) -/

theorem gen_cap_pos : (0 : ℝ) < cap := by rw [cap_real]; norm_num
theorem gen_defaultKappa_pos : (0 : ℝ) < defaultKappa := by rw [defaultKappa_real]; norm_num
theorem gen_minAcceptable : (minAcceptable : ℝ) = 1 / 2 := minAcceptable_real
theorem gen_quantile : Gen.compute_expected_improvement_AUGMENTED_EI_QUANTILE = 3 / 4 := by norm_num

/-! ### Expected improvement: finite, non-negative, closed form -/

/-- EI ≥ 0 for every posterior, incumbent and every Φ whatsoever (the clamp). -/
theorem ei_nonneg (Φ : ℝ → ℝ) (c best mean var : ℝ) : 0 ≤ ei Φ c best (mean, var) := by
  simp only [ei, eiNorm, core, Arith.real_sqrt]
  exact mul_nonneg (Real.sqrt_nonneg _) (le_max_left _ _)

/-- the only division of the closed form is by `sqrt var`, non-zero as soon as `var > 0`
    (the predictor floors the variance at MINIMUM_KRIGING_VARIANCE > 0) -/
theorem ei_denominator_pos (Φ : ℝ → ℝ) (c best mean var : ℝ) (h : 0 < var) :
    0 < (core Φ c best mean var).sqrtVar := by
  simp only [core, Arith.real_sqrt]
  exact Real.sqrt_pos.mpr h

theorem gen_kriging_floor_pos : (0 : Rat) < Gen.compute_gaussian_process_MINIMUM_KRIGING_VARIANCE := by
  norm_num

/-- Closed-form algebra: where the bracket is non-negative (always, for the true Φ: `bracket_nonneg`)
    the value is `(best - mean)·Φ(z) + σ·φ(z)` with `σ = sqrt var`, `z = (best - mean)/σ`. -/
theorem ei_finite_form (Φ : ℝ → ℝ) (c best mean var : ℝ) (hv : 0 < var)
    (hb : 0 ≤ zOf best mean var * Φ (zOf best mean var) + pdf c (zOf best mean var)) :
    ei Φ c best (mean, var) =
      (best - mean) * Φ (zOf best mean var) + Real.sqrt var * pdf c (zOf best mean var) := by
  have hs : 0 < Real.sqrt var := Real.sqrt_pos.mpr hv
  simp only [ei, eiNorm, core, zOf, Arith.real_sqrt] at hb ⊢
  rw [show Arith.max (0:ℝ) _ = max (0:ℝ) _ from rfl, max_eq_right hb]
  field_simp

/-- … and where the bracket is non-positive the clamp returns exactly 0. -/
theorem ei_eq_zero_of_bracket_nonpos (Φ : ℝ → ℝ) (c best mean var : ℝ)
    (hb : zOf best mean var * Φ (zOf best mean var) + pdf c (zOf best mean var) ≤ 0) :
    ei Φ c best (mean, var) = 0 := by
  simp only [ei, eiNorm, core, zOf, Arith.real_sqrt] at hb ⊢
  rw [show Arith.max (0:ℝ) _ = max (0:ℝ) _ from rfl, max_eq_left hb, mul_zero]

/-- the model's pdf is the standard normal density when `c = sqrt(2π)` -/
theorem pdf_eq_gaussian (z : ℝ) :
    pdf (Real.sqrt (2 * Real.pi)) z = ProbabilityTheory.gaussianPDFReal 0 1 z :=
  pdf_eq_gaussianPDFReal z

example : ei (fun _ : ℝ => 1 / 2) (1:ℝ) 0 ((0:ℝ), (1:ℝ)) = 1 := by
  rw [ei_finite_form _ _ _ _ _ (by norm_num)]
  · simp [zOf, pdf]
  · simp [zOf, pdf]

/-! ### Penalised forms -/

/-- AEI penalty `1 - sqrt(τ²/(v+τ²))` lies in [0,1] for every variance ≥ 0 and noise ≥ 0. -/
theorem aeiPenalty_mem_Icc (noise var : ℝ) (hn : 0 ≤ noise) (hv : 0 ≤ var) :
    0 ≤ aeiPenalty noise var ∧ aeiPenalty noise var ≤ 1 := by
  simp only [aeiPenalty, Arith.real_sqrt]
  have h1 : noise / (var + noise) ≤ 1 := div_le_one_of_le₀ (by linarith) (by linarith)
  have h2 : Real.sqrt (noise / (var + noise)) ≤ 1 := Real.sqrt_le_one.mpr h1
  have h3 : 0 ≤ Real.sqrt (noise / (var + noise)) := Real.sqrt_nonneg _
  constructor
  · show (0:ℝ) ≤ 1 - _; linarith
  · show (1:ℝ) - _ ≤ 1; linarith

/-- no observation noise: the augmented form is plain EI -/
theorem aeiPenalty_noise_zero (var : ℝ) : aeiPenalty 0 var = 1 := by
  simp only [aeiPenalty, Arith.real_sqrt]
  show (1:ℝ) - Real.sqrt ((0:ℝ) / (var + 0)) = 1
  simp

/-- AEI = EI × penalty, hence 0 ≤ AEI ≤ EI. -/
theorem aei_eq (Φ : ℝ → ℝ) (c best noise mean var : ℝ) :
    aei Φ c best noise (mean, var) = ei Φ c best (mean, var) * aeiPenalty noise var := rfl

theorem aei_mem (Φ : ℝ → ℝ) (c best noise mean var : ℝ) (hn : 0 ≤ noise) (hv : 0 ≤ var) :
    0 ≤ aei Φ c best noise (mean, var) ∧ aei Φ c best noise (mean, var) ≤ ei Φ c best (mean, var) := by
  rw [aei_eq]
  have ⟨h0, h1⟩ := aeiPenalty_mem_Icc noise var hn hv
  have he := ei_nonneg Φ c best mean var
  exact ⟨mul_nonneg he h0, by nlinarith⟩

/-- EI with failures = EI × success probability, hence in [0, EI] when the probability is in [0,1]. -/
theorem eiwf_eq (Φ : ℝ → ℝ) (c best mean var p : ℝ) :
    eiwf Φ c best (mean, var) p = ei Φ c best (mean, var) * p := rfl

theorem eiwf_mem (Φ : ℝ → ℝ) (c best mean var p : ℝ) (h0 : 0 ≤ p) (h1 : p ≤ 1) :
    0 ≤ eiwf Φ c best (mean, var) p ∧ eiwf Φ c best (mean, var) p ≤ ei Φ c best (mean, var) := by
  rw [eiwf_eq]
  have he := ei_nonneg Φ c best mean var
  exact ⟨mul_nonneg he h0, by nlinarith⟩

/-- multitask value = underlying value / task cost; never below the underlying value for costs in (0,1]. -/
theorem multitask_eq_div (v cost : ℝ) : multitask v cost = v / cost := rfl

theorem multitask_ge (v cost : ℝ) (hv : 0 ≤ v) (hc0 : 0 < cost) (hc1 : cost ≤ 1) :
    v ≤ multitask v cost := by
  rw [multitask_eq_div, le_div_iff₀ hc0]
  nlinarith

example : multitask (3:ℝ) (1/2) = 6 := by rw [multitask_eq_div]; norm_num

/-! ### Logistic success probability -/

theorem pfLogistic_real (κ t μ : ℝ) :
    pfLogistic κ t μ = 1 / (1 + Real.exp (min (κ * (μ - t)) 40)) := by
  simp only [pfLogistic, Arith.real_exp, cap_real]
  rfl

/-- strictly inside (0,1), for every κ, threshold and mean -/
theorem pfLogistic_mem_Ioo (κ t μ : ℝ) : 0 < pfLogistic κ t μ ∧ pfLogistic κ t μ < 1 := by
  rw [pfLogistic_real]
  have he := Real.exp_pos (min (κ * (μ - t)) 40)
  constructor
  · positivity
  · rw [div_lt_one (by linarith)]; linarith

/-- falls (weakly) as the predicted mean rises, for κ ≥ 0 -/
theorem pfLogistic_antitone_in_mean (κ t μ₁ μ₂ : ℝ) (hκ : 0 ≤ κ) (h : μ₁ ≤ μ₂) :
    pfLogistic κ t μ₂ ≤ pfLogistic κ t μ₁ := by
  rw [pfLogistic_real, pfLogistic_real]
  have h1 : κ * (μ₁ - t) ≤ κ * (μ₂ - t) := mul_le_mul_of_nonneg_left (by linarith) hκ
  have h2 : Real.exp (min (κ * (μ₁ - t)) 40) ≤ Real.exp (min (κ * (μ₂ - t)) 40) :=
    Real.exp_le_exp.mpr (min_le_min_right _ h1)
  have he := Real.exp_pos (min (κ * (μ₁ - t)) 40)
  exact one_div_le_one_div_of_le (by linarith) (by linarith)

/-- strictly, for κ > 0, as long as the exponent is below the cap -/
theorem pfLogistic_strictAnti_below_cap (κ t μ₁ μ₂ : ℝ) (hκ : 0 < κ) (h : μ₁ < μ₂)
    (hcap : κ * (μ₁ - t) < 40) : pfLogistic κ t μ₂ < pfLogistic κ t μ₁ := by
  rw [pfLogistic_real, pfLogistic_real]
  have h1 : κ * (μ₁ - t) < κ * (μ₂ - t) := mul_lt_mul_of_pos_left (by linarith) hκ
  have h2 : min (κ * (μ₁ - t)) 40 < min (κ * (μ₂ - t)) 40 := by
    rw [min_eq_left hcap.le]; exact lt_min h1 hcap
  have h3 := Real.exp_lt_exp.mpr h2
  have he := Real.exp_pos (min (κ * (μ₁ - t)) 40)
  exact one_div_lt_one_div_of_lt (by linarith) (by linarith)

/-- exactly ½ at the threshold, above ½ iff the mean is below the threshold (κ > 0) -/
theorem pfLogistic_at_threshold (κ t : ℝ) : pfLogistic κ t t = 1 / 2 := by
  rw [pfLogistic_real]; norm_num

theorem pfLogistic_gt_half_iff (κ t μ : ℝ) (hκ : 0 < κ) : 1 / 2 < pfLogistic κ t μ ↔ μ < t := by
  rw [pfLogistic_real]
  have he := Real.exp_pos (min (κ * (μ - t)) 40)
  rw [one_div_lt_one_div (by norm_num) (by linarith)]
  constructor
  · intro h
    have h1 : Real.exp (min (κ * (μ - t)) 40) < 1 := by linarith
    have h2 : min (κ * (μ - t)) 40 < 0 := by
      by_contra hn
      have := Real.one_le_exp (not_lt.mp hn)
      linarith
    have h3 : κ * (μ - t) < 0 := by
      rcases min_choice (κ * (μ - t)) 40 with h' | h'
      · rwa [h'] at h2
      · rw [h'] at h2; norm_num at h2
    by_contra hn
    have : 0 ≤ κ * (μ - t) := mul_nonneg hκ.le (by linarith)
    linarith
  · intro h
    have h3 : κ * (μ - t) < 0 := mul_neg_of_pos_of_neg hκ (by linarith)
    have h2 : min (κ * (μ - t)) 40 < 0 := lt_of_le_of_lt (min_le_left _ _) h3
    have := Real.exp_lt_exp.mpr h2
    rw [Real.exp_zero] at this
    linarith

/-- the slope chosen by the constructor is strictly positive for every list of observed values -/
theorem kappa_pos (vals : List ℝ) : 0 < kappa vals := by
  cases vals with
  | nil => exact gen_defaultKappa_pos
  | cons x xs =>
    simp only [kappa]
    split_ifs with hr
    · simp only [Arith.real_log, Arith.real_ofNat]
      have hl : 0 < Real.log ((9:ℕ):ℝ) := Real.log_pos (by norm_num)
      have hr' : (0:ℝ) < lmax x xs - lmin x xs := hr
      have hd : (0:ℝ) < ((1:ℕ):ℝ) / ((10:ℕ):ℝ) * (lmax x xs - lmin x xs) := by
        have : (0:ℝ) < ((1:ℕ):ℝ) / ((10:ℕ):ℝ) := by norm_num
        exact mul_pos this hr'
      exact div_pos hl hd
    · exact gen_defaultKappa_pos

/-- documented calibration of the slope: one tenth of the observed range below the threshold the
    success probability is 0.9 -/
theorem kappa_calibration (x : ℝ) (xs : List ℝ) (t : ℝ) (hr : 0 < lmax x xs - lmin x xs) :
    pfLogistic (kappa (x :: xs)) t (t - (lmax x xs - lmin x xs) / 10) = 9 / 10 := by
  rw [pfLogistic_real]
  have hk : kappa (x :: xs) = Real.log 9 / (1 / 10 * (lmax x xs - lmin x xs)) := by
    simp only [kappa]
    rw [if_pos hr]
    simp only [Arith.real_log, Arith.real_ofNat]
    norm_num
  rw [hk]
  set r := lmax x xs - lmin x xs with hrdef
  have hne : r ≠ 0 := ne_of_gt hr
  have h1 : Real.log 9 / (1 / 10 * r) * (t - r / 10 - t) = -Real.log 9 := by
    field_simp; ring
  have hl : 0 < Real.log 9 := Real.log_pos (by norm_num)
  rw [h1, min_eq_left (by linarith), Real.exp_neg, Real.exp_log (by norm_num)]
  norm_num

example : (0:ℝ) < lmax (1:ℝ) [3] - lmin (1:ℝ) [3] := by
  simp only [lmax, lmin, List.foldl]
  show (0:ℝ) < max 1 3 - min 1 3
  norm_num

/-! ### CDF success probability -/

theorem pfCdf_real (Φ : ℝ → ℝ) (c t mean var : ℝ) :
    pfCdf Φ c t (mean, var) = Φ ((t - mean) / Real.sqrt var) := rfl

theorem pfCdf_mem_Icc (Φ : ℝ → ℝ) (hΦ : ∀ z, 0 ≤ Φ z ∧ Φ z ≤ 1) (c t mean var : ℝ) :
    0 ≤ pfCdf Φ c t (mean, var) ∧ pfCdf Φ c t (mean, var) ≤ 1 := by
  rw [pfCdf_real]; exact hΦ _

/-- for every monotone Φ the success probability falls as the predicted mean rises (any variance) -/
theorem pfCdf_antitone_in_mean (Φ : ℝ → ℝ) (hΦ : Monotone Φ) (c t μ₁ μ₂ var : ℝ) (h : μ₁ ≤ μ₂) :
    pfCdf Φ c t (μ₂, var) ≤ pfCdf Φ c t (μ₁, var) := by
  rw [pfCdf_real, pfCdf_real]
  apply hΦ
  exact div_le_div_of_nonneg_right (by linarith) (Real.sqrt_nonneg var)

/-- the true normal CDF satisfies both hypotheses (so the two theorems above are not vacuous) -/
example : (∀ z, 0 ≤ stdNormalCDF z ∧ stdNormalCDF z ≤ 1) ∧ Monotone stdNormalCDF :=
  ⟨stdNormalCDF_mem_Icc, stdNormalCDF_mono⟩

/-! ### Product of success models -/

theorem pfProduct_eq_prod (ps : List ℝ) : pfProduct ps = ps.prod := pfProduct_eq_prod' ps

theorem pfProduct_mem_Icc (ps : List ℝ) (h : ∀ p ∈ ps, 0 ≤ p ∧ p ≤ 1) :
    0 ≤ pfProduct ps ∧ pfProduct ps ≤ 1 := by
  rw [pfProduct_eq_prod]
  induction ps with
  | nil => simp
  | cons p ps ih =>
    have hp := h p (List.mem_cons_self ..)
    have ih' := ih (fun q hq => h q (List.mem_cons_of_mem _ hq))
    rw [List.prod_cons]
    exact ⟨mul_nonneg hp.1 ih'.1, by nlinarith [hp.1, hp.2, ih'.1, ih'.2]⟩

/-- adding a model can only lower the probability: the product is below each factor -/
theorem pfProduct_le_factor (ps : List ℝ) (h : ∀ p ∈ ps, 0 ≤ p ∧ p ≤ 1) (p : ℝ) (hp : p ∈ ps) :
    pfProduct ps ≤ p := by
  rw [pfProduct_eq_prod]
  induction ps with
  | nil => cases hp
  | cons q qs ih =>
    have hq := h q (List.mem_cons_self ..)
    have hqs : ∀ r ∈ qs, 0 ≤ r ∧ r ≤ 1 := fun r hr => h r (List.mem_cons_of_mem _ hr)
    have hb := pfProduct_mem_Icc qs hqs
    rw [pfProduct_eq_prod] at hb
    rw [List.prod_cons]
    rcases List.mem_cons.mp hp with rfl | hp'
    · nlinarith [hq.1, hb.1, hb.2]
    · have := ih hqs hp'
      nlinarith [hq.1, hq.2, hb.1]

theorem pfProduct_singleton (p : ℝ) : pfProduct [p] = p := by
  rw [pfProduct_eq_prod]; simp

/-! ### Batched evaluation is independent of the batch size -/

/-- For EVERY batch size ≥ 1 and every list of points, evaluating a pointwise function chunk by chunk
    gives the pointwise values (induction on the list length). -/
theorem batched_eq_map {X Y : Type} (g : X → Y) (bs : Nat) (hbs : 1 ≤ bs) (xs : List X) :
    batched (List.map g) bs xs = xs.map g :=
  batched_eq_of_hom (List.map g) (fun _ _ => List.map_append) bs hbs xs

/-- `evaluate_at_point_list(points, batch_size)` for a non-empty list of points: every admissible
    `batch_size` argument (None, 0, any positive integer) yields the same, pointwise, result. -/
theorem evalAtPointList_eq_map {X Y : Type} (g : X → Y) (b : Option Nat) (xs : List X) (hne : xs ≠ []) :
    evalAtPointList (List.map g) b xs = some (xs.map g) := by
  have hpos : 0 < xs.length := List.length_pos_iff.mpr hne
  unfold evalAtPointList
  rcases b with _ | _ | b
  · simp only
    rw [if_neg (by omega), batched_eq_map g _ (by omega)]
  · simp only
    rw [if_neg (by omega), batched_eq_map g _ (by omega)]
  · simp only
    rw [if_neg (by omega), batched_eq_map g _ (by omega)]

theorem evalAtPointList_batch_independent {X Y : Type} (g : X → Y) (b₁ b₂ : Option Nat) (xs : List X)
    (hne : xs ≠ []) : evalAtPointList (List.map g) b₁ xs = evalAtPointList (List.map g) b₂ xs := by
  rw [evalAtPointList_eq_map g b₁ xs hne, evalAtPointList_eq_map g b₂ xs hne]

/-- the only rejected call: no points and no positive batch size (the code's `assert batch_size > 0`) -/
theorem evalAtPointList_none_iff {X Y : Type} (f : List X → List Y) (b : Option Nat) (xs : List X) :
    evalAtPointList f b xs = none ↔ xs = [] ∧ (b = none ∨ b = some 0) := by
  unfold evalAtPointList
  rcases b with _ | _ | b
  · simp [List.length_eq_zero_iff]
  · simp [List.length_eq_zero_iff]
  · simp

/-- the analytic acquisition functions are pointwise in (mean, var), so the clause holds for them -/
theorem ei_batch_independent (Φ : ℝ → ℝ) (c best : ℝ) (b₁ b₂ : Option Nat) (mvs : List (ℝ × ℝ))
    (hne : mvs ≠ []) :
    evalAtPointList (List.map (ei Φ c best)) b₁ mvs = evalAtPointList (List.map (ei Φ c best)) b₂ mvs :=
  evalAtPointList_batch_independent _ b₁ b₂ mvs hne

example : evalAtPointList (List.map (fun n : Nat => n + 1)) (some 2) [1, 2, 3] = some [2, 3, 4] :=
  evalAtPointList_eq_map _ _ _ (by simp)

/-! ### Incumbents -/

/-- plain EI: the incumbent index is valid, holds the minimum observed value, and is the first such -/
theorem bestObserved_is_min (vals : List ℝ) (h : vals ≠ []) :
    ∃ v, vals[bestObserved vals]? = some v ∧ (∀ y ∈ vals, v ≤ y) ∧
      ∀ j w, j < bestObserved vals → vals[j]? = some w → v < w :=
  argmin_spec vals h

/-- augmented EI: the incumbent index minimises `mean + q·sqrt(var)` over the sampled points (first
    minimiser), for every `q` (the code uses `q = norm.ppf(0.75)`) -/
theorem bestQuantile_rule (q : ℝ) (means vars : List ℝ) (hlen : means.length = vars.length)
    (hne : means ≠ []) :
    ∃ m v, means[bestQuantile q means vars]? = some m ∧ vars[bestQuantile q means vars]? = some v ∧
      ∀ j m' v', means[j]? = some m' → vars[j]? = some v' →
        m + q * Real.sqrt v ≤ m' + q * Real.sqrt v' ∧
        (j < bestQuantile q means vars → m + q * Real.sqrt v < m' + q * Real.sqrt v') := by
  have hqne : quantileValues q means vars ≠ [] := by
    intro e
    have := congrArg List.length e
    simp only [quantileValues, List.length_zipWith, List.length_nil] at this
    have : 0 < means.length := List.length_pos_iff.mpr hne
    omega
  obtain ⟨qv, hidx, hmin, hfirst⟩ := argmin_spec _ hqne
  have hget : ∀ j : Nat, (quantileValues q means vars)[j]? =
      (means[j]?).bind fun m => (vars[j]?).map fun v => m + q * Real.sqrt v := by
    intro j
    simp only [quantileValues, List.getElem?_zipWith]
    cases means[j]? <;> cases vars[j]? <;> simp
  rw [show argmin (quantileValues q means vars) = bestQuantile q means vars from rfl] at hidx hfirst
  rw [hget] at hidx
  cases hm : means[bestQuantile q means vars]? with
  | none => rw [hm] at hidx; simp at hidx
  | some m =>
    cases hv : vars[bestQuantile q means vars]? with
    | none => rw [hm, hv] at hidx; simp at hidx
    | some v =>
      rw [hm, hv] at hidx
      simp only [Option.bind_some, Option.map_some, Option.some.injEq] at hidx
      refine ⟨m, v, rfl, rfl, ?_⟩
      intro j m' v' hm' hv'
      have hj : (quantileValues q means vars)[j]? = some (m' + q * Real.sqrt v') := by
        rw [hget, hm', hv']; simp
      rw [hidx]
      exact ⟨hmin _ (List.mem_of_getElem? hj), fun hlt => hfirst j _ hlt hj⟩

/-- EI with failures, no sampled point likely to succeed: fall back to the best observed point -/
theorem bestLikelySuccess_fallback (probs vals : List ℝ) (h : ∀ p ∈ probs, p ≤ 1 / 2) :
    bestLikelySuccess probs vals = bestObserved vals := by
  have hnil : acceptableFrom 0 probs = [] := by
    apply List.eq_nil_iff_forall_not_mem.mpr
    intro j hj
    rcases (mem_acceptableFrom probs 0 j).mp hj with ⟨k, p, _, hk, hp⟩
    have := h p (List.mem_of_getElem? hk)
    linarith
  simp only [bestLikelySuccess, hnil]

/-- EI with failures, some sampled point has success probability > ½: the incumbent is such a point, its
    value is the smallest among all such points, and it is the first one with that value. -/
theorem bestLikelySuccess_rule (probs vals : List ℝ) (h : ∃ p ∈ probs, 1 / 2 < p) :
    ∃ p, probs[bestLikelySuccess probs vals]? = some p ∧ 1 / 2 < p ∧
      ∀ j pj, probs[j]? = some pj → 1 / 2 < pj →
        vals.getD (bestLikelySuccess probs vals) 0 ≤ vals.getD j 0 ∧
        (j < bestLikelySuccess probs vals →
          vals.getD (bestLikelySuccess probs vals) 0 < vals.getD j 0) := by
  obtain ⟨p0, hp0mem, hp0⟩ := h
  obtain ⟨k0, hk0⟩ := List.getElem?_of_mem hp0mem
  set acc := acceptableFrom 0 probs with hacc
  have hmem0 : k0 ∈ acc := (mem_acceptableFrom probs 0 k0).mpr ⟨k0, p0, by omega, hk0, hp0⟩
  have hne : acc ≠ [] := List.ne_nil_of_mem hmem0
  set g : Nat → ℝ := fun i => vals.getD i default with hg
  have hgne : acc.map g ≠ [] := by simpa using hne
  obtain ⟨v, hidx, hmin, hfirst⟩ := argmin_spec _ hgne
  set m := argmin (acc.map g) with hm
  have hdef : bestLikelySuccess probs vals = acc.getD m 0 := by
    simp only [bestLikelySuccess]
    cases hc : acceptableFrom 0 probs with
    | nil => exact absurd (hacc.trans hc) hne
    | cons a as => simp only [hm, hg, hacc, hc]
  rw [List.getElem?_map] at hidx
  cases hr : acc[m]? with
  | none => rw [hr] at hidx; simp at hidx
  | some r =>
    rw [hr] at hidx
    simp only [Option.map_some, Option.some.injEq] at hidx
    have hrd : acc.getD m 0 = r := by simp [List.getD, hr]
    rw [hdef, hrd]
    have hrmem : r ∈ acc := List.mem_of_getElem? hr
    rcases (mem_acceptableFrom probs 0 r).mp hrmem with ⟨k, p, hk, hpk, hp⟩
    have hkr : k = r := by omega
    subst hkr
    refine ⟨p, hpk, hp, ?_⟩
    intro j pj hj hpj
    have hjmem : j ∈ acc := (mem_acceptableFrom probs 0 j).mpr ⟨j, pj, by omega, hj, hpj⟩
    have hdflt : (default : ℝ) = 0 := rfl
    have hgj : g j = vals.getD j 0 := by simp only [hg, hdflt]
    have hgr : g k = vals.getD k 0 := by simp only [hg, hdflt]
    rw [← hgj, ← hgr, hidx]
    refine ⟨hmin _ (List.mem_map_of_mem hjmem), ?_⟩
    intro hlt
    obtain ⟨mj, hmj⟩ := List.getElem?_of_mem hjmem
    have hsorted := acceptableFrom_sorted probs 0
    rw [← hacc] at hsorted
    have hmjlt : mj < m := by
      by_contra hge
      have hge' : m ≤ mj := not_lt.mp hge
      rcases Nat.lt_or_eq_of_le hge' with hlt' | heq
      · have hml : m < acc.length := (List.getElem?_eq_some_iff.mp hr).1
        have hmjl : mj < acc.length := (List.getElem?_eq_some_iff.mp hmj).1
        have := List.pairwise_iff_getElem.mp hsorted m mj hml hmjl hlt'
        have e1 : acc[m] = k := (List.getElem?_eq_some_iff.mp hr).2
        have e2 : acc[mj] = j := (List.getElem?_eq_some_iff.mp hmj).2
        rw [e1, e2] at this
        omega
      · rw [← heq, hr] at hmj
        have : k = j := Option.some.inj hmj
        omega
    have hgmj : (acc.map g)[mj]? = some (g j) := by rw [List.getElem?_map, hmj]; rfl
    exact hfirst mj (g j) hmjlt hgmj

example : bestLikelySuccess [(1:ℝ), 0] [(5:ℝ), 3] = 0 := by
  obtain ⟨p, hp, hgt, _⟩ := bestLikelySuccess_rule [(1:ℝ), 0] [(5:ℝ), 3] ⟨1, by simp, by norm_num⟩
  generalize bestLikelySuccess [(1:ℝ), 0] [(5:ℝ), 3] = r at hp hgt ⊢
  match r, hp with
  | 0, _ => rfl
  | 1, hp => simp at hp; rw [← hp] at hgt; norm_num at hgt
  | (n + 2), hp => simp at hp

/-! ### Stretch: the closed form is the expectation it claims to be -/

/-- For `Y ~ N(μ, v)` with `v > 0`:  `E[max(b − Y, 0)] = σ·(z·Φ(z) + φ(z))`, `σ = √v`, `z = (b − μ)/σ`,
    `Φ` the standard normal CDF and `φ` the model's pdf with `c = √(2π)`. -/
theorem ei_is_expectation (b μ : ℝ) (v : NNReal) (hv : v ≠ 0) :
    ∫ y, max (b - y) 0 ∂(ProbabilityTheory.gaussianReal μ v) =
      ei stdNormalCDF (Real.sqrt (2 * Real.pi)) b (μ, (v : ℝ)) :=
  expectedImprovement_eq_ei b μ v hv

/-- With the true Φ and φ the clamp is never active: for every posterior with `v > 0` the value is
    `(b − μ)·Φ(z) + σ·φ(z)`. -/
theorem ei_closed_form_gaussian (b μ v : ℝ) (hv : 0 < v) :
    ei stdNormalCDF (Real.sqrt (2 * Real.pi)) b (μ, v) =
      (b - μ) * stdNormalCDF (zOf b μ v) + Real.sqrt v * pdf (Real.sqrt (2 * Real.pi)) (zOf b μ v) :=
  ei_finite_form _ _ _ _ _ hv (stdNormal_bracket_nonneg _)

/-- hence the bracket of the closed form is never negative for the true Φ: the clamp is inactive in
    exact arithmetic and `ei_finite_form` applies to every posterior -/
theorem bracket_nonneg (z : ℝ) :
    0 ≤ z * stdNormalCDF z + pdf (Real.sqrt (2 * Real.pi)) z :=
  stdNormal_bracket_nonneg z

end C05
