/-
  C11 — Hyperparameter fitting scores the right likelihood and returns usable values.
  Property theorems only (helpers: Proofs/C11Matrix.lean, Proofs/C11Bridge.lean, Proofs/C11Lists.lean).

  Part A  likelihood algebra over `Matrix (Fin n) (Fin n) ℝ`, every size `n` and every number `m` of mean terms
  Part B  what the driver's run-time certificates prove about the exact list model (Rat → ℝ)
  Part C  linear / log parameterisation, set∘get
  Part D  search box, packing/unpacking
  Part E  multistart selection law, per-metric loop (untouched rule, own data)
-/
import Model.C11
import Proofs.ArithReal
import Proofs.C11Matrix
import Proofs.C11Bridge
import Proofs.C11Lists
import Proofs.C11Real

open Matrix

namespace C11
open Dom

/-! ## Part A — the value of `compute_log_likelihood` -/

/-- GLS residual orthogonality `Pᵀ K⁻¹ r = 0` (normal equations), for the coefficients the code forms. -/
theorem gls_resid_orthogonal {n m : Nat} (A : Matrix (Fin n) (Fin n) ℝ) (P : Matrix (Fin n) (Fin m) ℝ)
    (y : Fin n → ℝ) (hM : IsUnit (Pᵀ * A⁻¹ * P).det) :
    Pᵀ *ᵥ (A⁻¹ *ᵥ C11M.resid A P y) = 0 :=
  C11M.resid_orthogonal A P y hM

/-- the hypothesis of `gls_resid_orthogonal` holds whenever `K` is positive definite and `P` has full column
    rank (so the fit exists and is unique) -/
theorem gls_normal_invertible {n m : Nat} {A : Matrix (Fin n) (Fin n) ℝ} (hA : A.PosDef)
    {P : Matrix (Fin n) (Fin m) ℝ} (hP : Function.Injective P.mulVec) :
    (Pᵀ * A⁻¹ * P).PosDef ∧ IsUnit (Pᵀ * A⁻¹ * P).det :=
  ⟨C11M.normal_posDef hA hP, C11M.normal_isUnit hA hP⟩

/-- the code's `K_inv_demeaned_y = K⁻¹y − K⁻¹(Pβ)` is `K⁻¹ r` -/
theorem kinv_demeaned_eq {n m : Nat} (A : Matrix (Fin n) (Fin n) ℝ) (P : Matrix (Fin n) (Fin m) ℝ)
    (y : Fin n → ℝ) :
    A⁻¹ *ᵥ y - A⁻¹ *ᵥ (P *ᵥ C11M.beta A P y) = A⁻¹ *ᵥ C11M.resid A P y :=
  C11M.kinv_resid A P y

/-- `rᵀK⁻¹r ≥ 0` for a positive definite kernel matrix, `> 0` unless `r = 0` -/
theorem quad_nonneg {n : Nat} {A : Matrix (Fin n) (Fin n) ℝ} (hA : A.PosDef) (r : Fin n → ℝ) :
    0 ≤ r ⬝ᵥ (A⁻¹ *ᵥ r) :=
  C11M.quad_nonneg hA r

theorem quad_pos {n : Nat} {A : Matrix (Fin n) (Fin n) ℝ} (hA : A.PosDef) {r : Fin n → ℝ} (hr : r ≠ 0) :
    0 < r ⬝ᵥ (A⁻¹ *ᵥ r) :=
  C11M.quad_pos hA hr

/-- the GLS-demeaned residual has the smallest quadratic form among all residuals `y − Pb` -/
theorem gls_minimises_quad {n m : Nat} {A : Matrix (Fin n) (Fin n) ℝ} (hA : A.PosDef)
    (P : Matrix (Fin n) (Fin m) ℝ) (y : Fin n → ℝ) (hM : IsUnit (Pᵀ * A⁻¹ * P).det) (b : Fin m → ℝ) :
    C11M.resid A P y ⬝ᵥ (A⁻¹ *ᵥ C11M.resid A P y) ≤ (y - P *ᵥ b) ⬝ᵥ (A⁻¹ *ᵥ (y - P *ᵥ b)) :=
  C11M.gls_minimises hA P y hM b

/-- `2·Σ log Lᵢᵢ = log det K` for the Cholesky factor the code reads the log-determinant from -/
theorem chol_logdet {n : Nat} (A L : Matrix (Fin n) (Fin n) ℝ) (hA : A = L * Lᵀ) (hL : L.IsLowerTriangular)
    (hd : ∀ i, 0 < L i i) : 2 * ∑ i, Real.log (L i i) = Real.log A.det :=
  C11M.chol_logdet A L hA hL hd

/-- **The value.**  The expression evaluated by `compute_log_likelihood` from the residual, `K⁻¹r` and the
    diagonal of the Cholesky factor is `−s·(rᵀK⁻¹r + log det K)` — no factor ½, no `n·log 2π`. -/
theorem loglik_formula {n : Nat} (A L : Matrix (Fin n) (Fin n) ℝ) (r : Fin n → ℝ) (s : ℝ)
    (hA : A = L * Lᵀ) (hL : L.IsLowerTriangular) (hd : ∀ i, 0 < L i i) :
    llCode s (List.ofFn r) (List.ofFn (A⁻¹ *ᵥ r)) (List.ofFn fun i => L i i)
      = llSpec s (r ⬝ᵥ (A⁻¹ *ᵥ r)) A.det := by
  rw [llSpec_real, ← C11M.chol_logdet A L hA hL hd]
  simp only [llCode, adot_ofFn, sum_log_ofFn]
  show (-s) * (r ⬝ᵥ (A⁻¹ *ᵥ r) + ((2 : ℕ) : ℝ) * ∑ i, Real.log (L i i)) = _
  push_cast; ring

/-- … with the residual and `K⁻¹r` the code actually uses (GLS fit, `K⁻¹y − K⁻¹Pβ`). -/
theorem loglik_value {n m : Nat} (A L : Matrix (Fin n) (Fin n) ℝ) (P : Matrix (Fin n) (Fin m) ℝ)
    (y : Fin n → ℝ) (s : ℝ) (hA : A = L * Lᵀ) (hL : L.IsLowerTriangular) (hd : ∀ i, 0 < L i i) :
    llCode s (List.ofFn (C11M.resid A P y)) (List.ofFn (A⁻¹ *ᵥ y - A⁻¹ *ᵥ (P *ᵥ C11M.beta A P y)))
        (List.ofFn fun i => L i i)
      = -(s * (C11M.resid A P y ⬝ᵥ (A⁻¹ *ᵥ C11M.resid A P y) + Real.log A.det)) := by
  rw [C11M.kinv_resid, loglik_formula A L _ s hA hL hd, llSpec_real]

/-- scaling: the value is linear in the scaling factor -/
theorem loglik_scaling (s q d : ℝ) : llSpec s q d = s * llSpec 1 q d := by
  simp only [llSpec_real]; ring

/-- a non-positive scaling factor is rejected, every positive one accepted -/
theorem scaleOK_iff (s : Rat) : scaleOK s = true ↔ 0 < s := by simp [scaleOK]

/-- nugget: when one is fitted it replaces every observation's noise variance; otherwise the noise is used -/
theorem noiseDiag_some (t : Rat) (noise : Vec) : noiseDiag (some t) noise = List.replicate noise.length t := by
  simp [noiseDiag, List.map_const']

theorem noiseDiag_none (noise : Vec) : noiseDiag none noise = noise := rfl

/-! ## Part B — what the run-time certificates of the driver prove -/

/-- `certInv` passed ⇒ the list `Ainv` denotes the inverse of the matrix `A` denotes -/
theorem certified_inverse {n : Nat} {A Ainv : Mat} (h : certInv n A Ainv = true) :
    toM n n Ainv = (toM n n A)⁻¹ ∧ IsUnit (toM n n A).det :=
  ⟨(certInv_sound h).1, (certInv_sound h).2.1⟩

/-- `certLDL` passed ⇒ the exact determinant is `∏ D`; positive `D` ⇒ `K` positive definite -/
theorem certified_det {n : Nat} {A L : Mat} {D : Vec} (h : certLDL n A L D = true) :
    (toM n n A).det = ((lprod D : ℚ) : ℝ) ∧ (allPos D = true → (toM n n A).PosDef) :=
  certLDL_sound h

/-- the exact quadratic form the driver reports is `rᵀK⁻¹r` of the GLS residual of the denoted matrices,
    the model's residual and `K⁻¹r` are the GLS ones, and the normal matrix is invertible -/
theorem certified_gls {n m : Nat} {A Ainv P Minv : Mat} {y : Vec} (hm : m ≠ 0)
    (hA : certInv n A Ainv = true) (hP : hasShape n m P = true) (hy : y.length = n)
    (hMc : certInv m (normalMat m Ainv P) Minv = true) :
    toV n (glsWith m Ainv P y Minv).resid = C11M.resid (toM n n A) (toM n m P) (toV n y) ∧
    (((glsWith m Ainv P y Minv).quad : ℚ) : ℝ)
      = C11M.resid (toM n n A) (toM n m P) (toV n y)
          ⬝ᵥ ((toM n n A)⁻¹ *ᵥ C11M.resid (toM n n A) (toM n m P) (toV n y)) ∧
    (toM n m P)ᵀ *ᵥ ((toM n n A)⁻¹ *ᵥ toV n (glsWith m Ainv P y Minv).resid) = 0 := by
  obtain ⟨_, hres, _, hq, hu⟩ := gls_sound hm hA hP hy hMc
  refine ⟨hres, hq, ?_⟩
  rw [hres]; exact C11M.resid_orthogonal _ _ _ hu

theorem certified_gls_zero_mean {n : Nat} {A Ainv : Mat} (P : Mat) {y : Vec} (hA : certInv n A Ainv = true)
    (hy : y.length = n) :
    (glsWith 0 Ainv P y []).resid = y ∧
    (((glsWith 0 Ainv P y []).quad : ℚ) : ℝ) = toV n y ⬝ᵥ ((toM n n A)⁻¹ *ᵥ toV n y) :=
  gls_zero_sound P hA hy

/-- the exact quadratic form is non-negative whenever the LDLᵀ certificate shows `K` positive definite -/
theorem certified_quad_nonneg {n m : Nat} {A Ainv P Minv L : Mat} {D : Vec} {y : Vec} (hm : m ≠ 0)
    (hA : certInv n A Ainv = true) (hP : hasShape n m P = true) (hy : y.length = n)
    (hMc : certInv m (normalMat m Ainv P) Minv = true) (hL : certLDL n A L D = true) (hD : allPos D = true) :
    0 ≤ (glsWith m Ainv P y Minv).quad := by
  have hq := (certified_gls hm hA hP hy hMc).2.1
  have hpd := (certLDL_sound hL).2 hD
  have : (0 : ℝ) ≤ (((glsWith m Ainv P y Minv).quad : ℚ) : ℝ) := by
    rw [hq]; exact C11M.quad_nonneg hpd _
  exact_mod_cast this

/-! ## Part C — linear / log parameterisation, set∘get -/

/-- `set_hyperparameters` rejects exactly the vectors of the wrong length -/
theorem setHyper_isSome {α} [Arith α] (logD auto : Bool) (dim : Nat) (x : List α) :
    (setHyper logD auto dim x).isSome = decide (x.length = dim + 1 + (if auto then 1 else 0)) := by
  unfold setHyper
  by_cases h : x.length = dim + 1 + (if auto then 1 else 0) <;> simp [h]

/-- **set then get is the identity** (both parameterisations): reading the hyperparameters after setting any
    vector `x` of the right length returns `x` (log mode: `log (exp x) = x`). -/
theorem set_get_id (logD auto : Bool) (dim : Nat) (x : List ℝ)
    (hx : x.length = dim + 1 + (if auto then 1 else 0)) :
    ∃ c t, setHyper logD auto dim x = some (c, t) ∧ (t.isSome = auto) ∧
      getHyper logD auto c (t.getD 0) = x := by
  unfold setHyper
  rw [if_neg (by simpa using hx)]
  set lin := (if logD = true then x.map Arith.exp else x) with hlin
  have hlen : lin.length = dim + 1 + (if auto then 1 else 0) := by
    rw [hlin]; split <;> simp [hx]
  have hback : (if logD = true then lin.map Arith.log else lin) = x := by
    rw [hlin]; cases logD
    · simp
    · simp only [↓reduceIte]; exact map_log_exp x
  cases auto with
  | false =>
    simp only [Bool.false_eq_true, if_false, Nat.add_zero] at hlen ⊢
    refine ⟨_, _, rfl, rfl, ?_⟩
    simp only [getHyper, Bool.false_eq_true, if_false]
    rw [List.take_of_length_le (by omega)]
    exact hback
  | true =>
    simp only [if_true] at hlen ⊢
    have hne : lin ≠ [] := by intro e; simp [e] at hlen
    obtain ⟨t, ht⟩ : ∃ t, lin.getLast? = some t := by
      cases hl : lin.getLast? with
      | none => exact absurd (List.getLast?_eq_none_iff.mp hl) hne
      | some t => exact ⟨t, rfl⟩
    refine ⟨_, _, rfl, by simp [ht], ?_⟩
    simp only [getHyper, if_true, ht, Option.getD_some]
    rw [take_append_getLast? lin (dim + 1) hlen t ht]
    exact hback

/-- **get then set is the identity**: for positive covariance hyperparameters `c` (and nugget `t`), setting
    what `get_hyperparameters` returned restores them (log mode: `exp (log h) = h` for `h > 0`). -/
theorem get_set_id (logD auto : Bool) (dim : Nat) (c : List ℝ) (t : ℝ) (hc : c.length = dim + 1)
    (hpos : ∀ a ∈ c, 0 < a) (ht : 0 < t) :
    setHyper logD auto dim (getHyper logD auto c t) = some (c, if auto then some t else none) := by
  unfold setHyper getHyper
  set h := (if auto = true then c ++ [t] else c) with hh
  have hhpos : ∀ a ∈ h, 0 < a := by
    rw [hh]; intro a ha
    split at ha
    · rcases List.mem_append.mp ha with ha | ha
      · exact hpos a ha
      · simp at ha; rw [ha]; exact ht
    · exact hpos a ha
  have hlen : h.length = dim + 1 + (if auto then 1 else 0) := by
    rw [hh]; cases auto <;> simp [hc]
  have hlin : (if logD = true then (if logD = true then h.map Arith.log else h).map Arith.exp
      else (if logD = true then h.map Arith.log else h)) = h := by
    cases logD
    · simp
    · simp only [↓reduceIte]; exact map_exp_log h hhpos
  have hlen2 : (if logD = true then h.map Arith.log else h).length = dim + 1 + (if auto then 1 else 0) := by
    split <;> simp [hlen]
  rw [if_neg (by simpa using hlen2)]
  simp only [hlin]
  rw [hh]
  cases auto with
  | false => simp [hc]
  | true => simp [hc]

/-- **the two parameterisations score the same function**: the objective in the log parameterisation at
    `log h` equals the objective in the linear parameterisation at `h` (all `h > 0`), and for *every* real
    vector `a` the log-mode objective at `a` is the linear-mode objective at `exp a`. -/
theorem loglik_linear_eq_log {β} (F : List ℝ → Option ℝ → β) (auto : Bool) (dim : Nat) (h : List ℝ)
    (hp : ∀ a ∈ h, 0 < a) :
    evalAt F true auto dim (h.map Arith.log) = evalAt F false auto dim h := by
  unfold evalAt setHyper
  simp only [List.length_map, if_true, Bool.false_eq_true, if_false, map_exp_log h hp]

theorem loglik_log_at (β) (F : List ℝ → Option ℝ → β) (auto : Bool) (dim : Nat) (a : List ℝ) :
    evalAt F true auto dim a = evalAt F false auto dim (a.map Arith.exp) := by
  unfold evalAt setHyper
  simp only [List.length_map, if_true, Bool.false_eq_true, if_false]

/-! ## Part D — the search box and the packing of the result -/

/-- side lemmas on constants: a changed constant breaks exactly these -/
theorem gen_minVar : minVar = 1 / 10000000000 := by norm_num [minVar]
theorem gen_taskLo : 0 < taskLo ∧ taskLo < catHi := ⟨taskLo_pos, taskLo_lt_catHi⟩
theorem gen_gridLoF : 0 < gridLoF ∧ gridLoF < 1 := ⟨gridLoF_pos, gridLoF_lt_one⟩
theorem gen_defaultTik : 0 < defaultTik := defaultTik_pos
theorem gen_minSuccesses (k : Nat) : minSuccesses k = 0 := minSuccesses_zero k

/-- **Every row of the search box is a usable interval `0 < lo < hi`**, for every well-formed domain (grids
    ascending, as the function silently assumes), every data set (also empty / constant), with and without
    nugget and task rows, and every discrete lower limit in (0, 1). -/
theorem hyperBox_wf (cs : List Component) (vals : List Rat) (auto : Bool) (dll : Rat) (tasks : Bool)
    (hcs : cs.all Component.wf = true) (hs : gridsSorted cs = true) (hd0 : 0 < dll) (hd1 : dll < 1) :
    boxWF (hyperBox cs vals auto dll tasks) = true := by
  have hv := sampleVar_pos vals
  unfold hyperBox
  simp only [boxWF_append, Bool.and_eq_true]
  refine ⟨⟨⟨?_, lsRows_wf dll hd0 hd1 cs hcs hs⟩, ?_⟩, ?_⟩
  · simp only [boxWF, List.all_cons, List.all_nil, Bool.and_true, Bool.and_eq_true, decide_eq_true_eq,
      alphaLoF, alphaHiF]
    constructor <;> nlinarith
  · cases tasks
    · simp [boxWF]
    · simp only [if_true, boxWF, List.all_cons, List.all_nil, Bool.and_true, Bool.and_eq_true,
        decide_eq_true_eq]
      exact ⟨taskLo_pos, taskLo_lt_catHi⟩
  · cases auto
    · simp [boxWF]
    · simp only [if_true, boxWF, List.all_cons, List.all_nil, Bool.and_true, Bool.and_eq_true,
        decide_eq_true_eq, tikLoF, tikHiF]
      constructor <;> nlinarith

/-- one row for α, one per one-hot coordinate (per numeric parameter, per category), one for the task length
    iff multitask, one for the nugget iff it is fitted -/
theorem hyperBox_length (cs : List Component) (vals : List Rat) (auto : Bool) (dll : Rat) (tasks : Bool) :
    (hyperBox cs vals auto dll tasks).length = vecLen cs tasks auto := by
  unfold hyperBox vecLen
  cases tasks <;> cases auto <;> simp [lsRows_length] <;> omega

/-- **unpack ∘ pack = id** on well-shaped records (one length scale per one-hot coordinate of every parameter) -/
theorem unpack_pack (cs : List Component) (h : Hyper) (hs : h.ls.map List.length = cs.map Component.width) :
    unpack cs h.task.isSome h.tik.isSome (pack cs h) = h := by
  have hlen := lsToOneHot_length cs h.ls hs
  have hrt := C09.ls_roundtrip_aux cs (h.ls.map fun l => l.map some) (lsShapeOK_of_lengths cs h.ls hs)
  have hmm : (List.map (fun l => List.map (fun o => o.getD 0) l) (List.map (fun l => List.map some l) h.ls)) = h.ls := by
    simp [List.map_map, Function.comp_def]
  rw [hmm] at hrt
  simp only [C09.lsToCategorical] at hrt
  obtain ⟨alpha, ls, task, tik⟩ := h
  simp only at hlen hrt hs
  cases task with
  | none =>
    cases tik with
    | none =>
      simp only [unpack, pack, optList, List.append_nil, Option.isSome_none, Bool.false_eq_true, if_false,
        List.headD_cons, List.tail_cons, C09.lsToCategorical, hrt]
    | some t =>
      simp only [unpack, pack, optList, List.append_nil, Option.isSome_none, Option.isSome_some,
        Bool.false_eq_true, if_false, if_true, List.headD_cons, List.tail_cons, C09.lsToCategorical,
        List.dropLast_concat, getLast?_append_singleton, hrt]
  | some τ =>
    cases tik with
    | none =>
      simp only [unpack, pack, optList, List.append_nil, Option.isSome_none, Option.isSome_some,
        Bool.false_eq_true, if_false, if_true, List.headD_cons, List.tail_cons, C09.lsToCategorical,
        getLast?_append_singleton, blocks_append_extra cs _ [τ] hlen, hrt]
    | some t =>
      simp only [unpack, pack, optList, Option.isSome_some, if_true, List.headD_cons, List.tail_cons,
        C09.lsToCategorical]
      rw [List.dropLast_concat, getLast?_append_singleton, getLast?_append_singleton,
        blocks_append_extra cs _ [τ] hlen, hrt]

/-- **Structure of every returned record**: for any optimiser vector of the right length the unpacked record
    has one length scale per numeric parameter and one per category, a task length iff multitask and a
    nugget iff one was supplied. -/
theorem unpack_structure (cs : List Component) (tasks auto : Bool) (v : List Rat)
    (hv : v.length = vecLen cs tasks auto) :
    structureOK cs tasks auto (unpack cs tasks auto v) = true := by
  obtain ⟨a, rest, rfl⟩ : ∃ a rest, v = a :: rest := by
    cases v with
    | nil => simp [vecLen] at hv; omega
    | cons a rest => exact ⟨a, rest, rfl⟩
  have hr : rest.length = totalWidth cs + (if tasks then 1 else 0) + (if auto then 1 else 0) := by
    simp only [vecLen, List.length_cons] at hv; omega
  simp only [structureOK, unpack, List.tail_cons, Bool.and_eq_true, beq_iff_eq]
  set rest' := (if auto = true then rest.dropLast else rest) with hrest'
  have hr' : rest'.length = totalWidth cs + (if tasks then 1 else 0) := by
    rw [hrest']; cases auto <;> simp [hr]
  refine ⟨⟨decide_eq_true ?_, ?_⟩, ?_⟩
  · exact blocks_lengths cs rest' (by omega)
  · cases tasks with
    | false => simp
    | true =>
      simp only [if_true] at hr' ⊢
      have : rest' ≠ [] := by intro e; simp [e] at hr'
      cases hl : rest'.getLast? with
      | none => exact absurd (List.getLast?_eq_none_iff.mp hl) this
      | some _ => rfl
  · cases auto with
    | false => simp
    | true =>
      simp only [if_true] at hr ⊢
      have : rest ≠ [] := by intro e; simp [e] at hr
      cases hl : rest.getLast? with
      | none => exact absurd (List.getLast?_eq_none_iff.mp hl) this
      | some _ => rfl

/-- the vector handed to the optimiser as first start has the length of the box -/
theorem pack_length (cs : List Component) (h : Hyper) (hs : h.ls.map List.length = cs.map Component.width) :
    (pack cs h).length = vecLen cs h.task.isSome h.tik.isSome := by
  have hlen := lsToOneHot_length cs h.ls hs
  obtain ⟨alpha, ls, task, tik⟩ := h
  cases task <;> cases tik <;> simp [pack, vecLen, optList, hlen] <;> omega

/-! ## Part E — which point the multistart returns; which records the endpoint may change -/

/-- **Multistart selection law**, for every sequence of inner-optimiser outcomes (end points, success flags,
    objective values, raised errors are arbitrary): the returned point is the end point of a run that did
    not raise, reported success and passed the in-domain test — or it is the first start. -/
theorem multistart_box_or_start (acc : List Rat → Bool) (numMulti numSel : Nat) (runs : List Run)
    (p : List Rat) (h : multistart acc numMulti numSel runs = some p) :
    (∃ r ∈ runs, goodEnd acc r = true ∧ p = r.stop) ∨ (∃ r t, runs = r :: t ∧ p = r.start) := by
  cases runs with
  | nil => simp [multistart, msLoop] at h
  | cons r t =>
    have := msLoop_inv acc numMulti numSel r.start (r :: t) [] msInit (Or.inl rfl)
      (fun _ => ⟨r, t, rfl, rfl⟩) p h
    rcases this with e | ⟨r', hr', hg, e⟩
    · exact Or.inr ⟨r, t, rfl, e⟩
    · exact Or.inl ⟨r', by simpa using hr', hg, e⟩

/-- for the hyperparameter box: the returned vector lies in the box or equals the supplied start -/
theorem multistart_in_box_or_start (box : List (Rat × Rat)) (numMulti numSel : Nat) (runs : List Run)
    (p : List Rat) (h : multistart (inBoxB box) numMulti numSel runs = some p) :
    inBoxB box p = true ∨ ∃ r t, runs = r :: t ∧ p = r.start := by
  rcases multistart_box_or_start _ _ _ _ _ h with ⟨r, _, hg, e⟩ | h'
  · left
    simp only [goodEnd, Bool.and_eq_true] at hg
    rw [e]; exact hg.2
  · exact Or.inr h'

/-- coordinate-wise form used by the endpoint oracle: every returned coordinate lies in its row of the box or
    equals the corresponding coordinate of the supplied start -/
theorem multistart_coordinatewise (box : List (Rat × Rat)) (numMulti numSel : Nat) (r : Run) (t : List Run)
    (hlen : r.start.length = box.length) (p : List Rat)
    (h : multistart (inBoxB box) numMulti numSel (r :: t) = some p) :
    boxOrStart box r.start p = true := by
  rcases multistart_in_box_or_start _ _ _ _ _ h with hb | ⟨r', t', e, hp⟩
  · exact boxOrStart_of_inBox box r.start p hlen hb
  · simp only [List.cons.injEq] at e
    rw [hp, ← e.1]; exact boxOrStart_self box r.start hlen

/-- with the library's constants (no minimum number of successes) the multistart always returns a point as
    soon as there are more starts than `num_multistarts` — never the `RuntimeError` branch -/
theorem multistart_returns (acc : List Rat → Bool) (numMulti numSel : Nat) (hn : numMulti ≠ 0)
    (runs : List Run) (hlen : numMulti + 1 ≤ runs.length) :
    (multistart acc numMulti numSel runs).isSome = true := by
  cases runs with
  | nil => simp at hlen
  | cons r rs =>
    simp only [multistart, msLoop]
    have hne := msStep_best_ne_none acc numMulti numSel msInit r
    have hn1 := msStep_n acc numMulti numSel msInit r
    generalize hst : msStep acc numMulti numSel msInit r = st at hne hn1
    obtain ⟨s', brk⟩ := st
    simp only [] at hne hn1 ⊢
    by_cases hbk : brk = true
    · rw [if_pos hbk]
      cases hs' : s'.best with
      | none => exact absurd hs' hne
      | some _ => rfl
    · rw [if_neg hbk]
      simp only [List.length_cons] at hlen
      have hrs : rs ≠ [] := by intro e; subst e; simp at hlen; omega
      exact msLoop_returns acc numMulti numSel hn rs s' hne hrs (by simp [msInit] at hn1; omega)

/-- `should_skip_hyperopt`: skip iff `max − min ≤ MINIMUM_VALUE_VAR` (= 1e-10) -/
theorem shouldSkip_iff (x : Rat) (xs : List Rat) :
    shouldSkip (x :: xs) = true ↔ xs.foldl max x - xs.foldl min x ≤ 1 / 10000000000 := by
  simp [shouldSkip, minVar]

/-- a constant-valued metric is always skipped -/
theorem shouldSkip_constant (x : Rat) (xs : List Rat) (h : ∀ v ∈ xs, v = x) : shouldSkip (x :: xs) = true := by
  rw [shouldSkip_iff]
  have hmax : xs.foldl max x = x := by
    rcases Proofs.foldl_max_mem xs x with e | e
    · exact e
    · exact h _ e
  have hmin : xs.foldl min x = x := by
    rcases Proofs.foldl_min_mem xs x with e | e
    · exact e
    · exact h _ e
  rw [hmax, hmin]; norm_num

/-- **Untouched rule.**  Whatever the optimiser does (`fit` arbitrary), the record of metric `i` is returned
    exactly as supplied when every job that targets `i` is skipped … -/
theorem untouched_rule {H} (orig : List H) (fit : Job → H → H) (js : List Job) (i : Nat)
    (h : ∀ j ∈ js, j.index = i → shouldSkip j.values = true) :
    (view orig fit js)[i]? = orig[i]? :=
  viewUpdate_untouched orig fit i js orig h

/-- … in particular stored metrics (neither optimised nor constraint) are never touched … -/
theorem stored_untouched {H} (orig : List H) (fit : Job → H → H) (optIdx conIdx : List Nat)
    (pts scaled svars : List (List Rat)) (fails : List Bool) (i : Nat) (hi : i ∉ optIdx ++ conIdx) :
    (view orig fit (jobs optIdx conIdx pts scaled svars fails))[i]? = orig[i]? := by
  apply untouched_rule
  intro j hj hji
  simp only [jobs, List.mem_map] at hj
  obtain ⟨k, hk, rfl⟩ := hj
  exact absurd (hji ▸ hk) hi

/-- … and the response has one record per supplied record. -/
theorem view_length {H} (orig : List H) (fit : Job → H → H) (js : List Job) :
    (view orig fit js).length = orig.length :=
  viewUpdate_length orig fit js orig

/-- **Own data.**  Every fitting job targets an optimised or constraint metric and is given that metric's own
    scaled column, variances and the points, all restricted to the successful observations. -/
theorem jobs_own_data (optIdx conIdx : List Nat) (pts scaled svars : List (List Rat)) (fails : List Bool)
    (j : Job) (hj : j ∈ jobs optIdx conIdx pts scaled svars fails) :
    j.index ∈ optIdx ++ conIdx ∧ j.values = successes (scaled.getD j.index []) fails ∧
    j.vars = successes (svars.getD j.index []) fails ∧ j.points = successes pts fails := by
  simp only [jobs, List.mem_map] at hj
  obtain ⟨k, hk, rfl⟩ := hj
  exact ⟨hk, rfl, rfl, rfl⟩

/-- no failed observation enters a fit -/
theorem successes_spec {α} (v : List α) (f : List Bool) (h : v.length = f.length) :
    successes v f = ((v.zip f).filter fun p => !p.2).map Prod.fst :=
  successes_eq_filter v f h

/-- **Usable result.**  If the fit of a metric returns the vector `p` chosen by the multistart over the
    model's box, then `p` lies in the box — hence is strictly positive in every coordinate and unpacks to
    a record of the supplied structure — or `p` is the supplied start. -/
theorem fit_result_usable (cs : List Component) (vals : List Rat) (auto tasks : Bool) (dll : Rat)
    (hcs : cs.all Component.wf = true) (hs : gridsSorted cs = true) (hd0 : 0 < dll) (hd1 : dll < 1)
    (numMulti numSel : Nat) (runs : List Run) (p : List Rat)
    (h : multistart (inBoxB (hyperBox cs vals auto dll tasks)) numMulti numSel runs = some p) :
    (inBoxB (hyperBox cs vals auto dll tasks) p = true ∧ (∀ v ∈ p, 0 < v) ∧
      structureOK cs tasks auto (unpack cs tasks auto p) = true) ∨
    (∃ r t, runs = r :: t ∧ p = r.start) := by
  rcases multistart_in_box_or_start _ _ _ _ _ h with hb | hs'
  · left
    have hw := hyperBox_wf cs vals auto dll tasks hcs hs hd0 hd1
    obtain ⟨hl, hp⟩ := inBox_pos _ _ hw hb
    exact ⟨hb, hp, unpack_structure cs tasks auto p (by rw [hl, hyperBox_length])⟩
  · exact Or.inr hs'

/-! ## Non-vacuity: the hypotheses above are satisfiable -/

def exComps : List Component :=
  [.double 0 2, .int (-1) 3, .cat [1, 2, 5], .grid [1/2, 1, 4]]

example : exComps.all Component.wf = true ∧ gridsSorted exComps = true := by decide +kernel
example : boxWF (hyperBox exComps [1/10, -1/10, 0] true (7/50) true) = true := by decide +kernel
example : (hyperBox exComps [] false (7/50) false).length = 7 := by decide +kernel
example : shouldSkip [1, 1, 1] = true ∧ shouldSkip [0, 1/10] = false := by decide +kernel

def exHyper : Hyper := { alpha := 1/20, ls := [[1], [2], [3, 4, 5], [6]], task := some (1/2), tik := none }
example : exHyper.ls.map List.length = exComps.map Component.width := by decide +kernel
example : unpack exComps true false (pack exComps exHyper) = exHyper := by decide +kernel

/-- the first run fails and a later one succeeds inside the box: the later end point is returned;
    if every run fails the supplied start comes back -/
def exBox : List (Rat × Rat) := [(1, 2), (1, 2)]
def exRuns : List Run :=
  [{ start := [5, 5], stop := [3, 3], raised := false, fn := .fin 1, success := true },
   { start := [1, 1], stop := [3/2, 3/2], raised := false, fn := .fin 2, success := true },
   { start := [1, 2], stop := [1, 2], raised := true, fn := .nan, success := false }]
example : multistart (inBoxB exBox) 2 1 exRuns = some [3/2, 3/2] := by decide +kernel
example : multistart (inBoxB exBox) 1 1 (exRuns.take 1 ++ exRuns.drop 2) = some [5, 5] := by decide +kernel
example : certInv 2 [[2, 1], [1, 2]] [[2/3, -1/3], [-1/3, 2/3]] = true := by decide +kernel
example : (ldl 2 [[2, 1], [1, 2]]).map (fun r => certLDL 2 [[2, 1], [1, 2]] r.1 r.2 && allPos r.2) = some true := by
  decide +kernel

end C11
