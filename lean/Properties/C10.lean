/-
  C10 — Distinct and random sampling: no repeats, full support, priors honoured.
  Property theorems only (helpers live in Proofs/C10*.lean).  All statements are about the exact model
  `Model/C10.lean` of libsigopt/compute/domain.py and hold for every domain, every history, every
  requested count, every tolerance / duplicate probability and every outcome of the random draws
  (the oracle `ω`).

  Hypotheses that appear:
    `WF dom`                    what `_verify_domain_components` enforces (lo < hi, ≥ 2 distinct elements);
    `isDiscrete dom = true`     the distinct sampler only enumerates discrete domains;
    `∀ r ∈ hist, wellTypedRow`  history rows have the domain's dimension and integral int coordinates
                                (the code raises IndexError otherwise: rejected input);
    `onShortcut … = false`      the sampler is not on a with-replacement branch
                                (`shortcut_iff` says exactly when that is).
-/
import Model.C10
import Proofs.C10Radix
import Proofs.C10Domain
import Proofs.C10Distinct
import Proofs.C10Unique
import Proofs.C10Sample
import Proofs.C10Legal
import Mathlib.Data.List.Dedup
import Mathlib.Data.Finset.Card
import Mathlib.Analysis.SpecialFunctions.Sqrt
import Mathlib.Tactic.Linarith
import Mathlib.Tactic.Positivity
import Mathlib.Tactic.FieldSimp

namespace C10

/-! ### Side lemma on the generated constant -/

theorem gen_maxSearch : maxSearch = 100000 := by decide

/-! ### Mixed-radix numbering: a bijection between `[0, N)` and the admissible configurations -/

/-- the loop of `map_discrete_point_to_index` computes the Horner form -/
theorem idx_encode_loop (des : List (List Rat)) (row : Row) : encodeIdx des row = encodeRec des row :=
  encodeIdx_eq des row

/-- index → configuration → index is the identity below the number of configurations -/
theorem idx_roundtrip_index {dom : Domain} (hwf : WF dom) {i : Nat} (hi : i < numConfigs (desOf dom)) :
    encodeIdx (desOf dom) (decodeIdx (desOf dom) i) = i := by
  rw [encodeIdx_eq]; exact encode_decode (des_nodup hwf) hi

/-- configuration → index → configuration is the identity on admissible configurations -/
theorem idx_roundtrip_point {dom : Domain} (hd : isDiscrete dom = true) {row : Row}
    (hr : admissibleRow dom row = true) :
    decodeIdx (desOf dom) (encodeIdx (desOf dom) row) = row := by
  rw [encodeIdx_eq]; exact decode_encode (by rw [← admissibleRow_eq_rowIn hd]; exact hr)

/-- every index decodes to an admissible configuration -/
theorem idx_decode_admissible {dom : Domain} (hwf : WF dom) (hd : isDiscrete dom = true) (i : Nat) :
    admissibleRow dom (decodeIdx (desOf dom) i) = true := by
  rw [admissibleRow_eq_rowIn hd]; exact decode_rowIn (des_ne_nil hwf hd) i

/-- every admissible configuration has an index below the number of configurations -/
theorem idx_encode_lt {dom : Domain} (hd : isDiscrete dom = true) {row : Row}
    (hr : admissibleRow dom row = true) : encodeIdx (desOf dom) row < numConfigs (desOf dom) := by
  rw [encodeIdx_eq]; exact encode_lt (by rw [← admissibleRow_eq_rowIn hd]; exact hr)

example : WF [.int 0 1, .cat [3, 5]] ∧ isDiscrete [.int 0 1, .cat [3, 5]] = true ∧
    numConfigs (desOf [.int 0 1, .cat [3, 5]]) = 4 ∧
    decodeIdx (desOf [.int 0 1, .cat [3, 5]]) 3 = [1, 5] := by
  refine ⟨?_, by decide, by decide, by decide⟩
  intro c hc
  simp only [List.mem_cons, List.not_mem_nil, or_false] at hc
  rcases hc with rfl | rfl
  · show (0 : Int) < 1; decide
  · exact ⟨by decide, by decide⟩

/-! ### What the sampler counts as observed -/

/-- `observed` is exactly the set of distinct admissible history rows -/
theorem observed_spec {dom : Domain} {hist : List Row} (hI : ∀ r ∈ hist, wellTypedRow dom r = true) :
    (observed dom hist).Nodup ∧
      ∀ r, r ∈ observed dom hist ↔ r ∈ hist ∧ admissibleRow dom r = true :=
  ⟨observed_nodup dom hist, fun _ => mem_observed hI⟩

/-- … so its length is the number of distinct in-domain history rows -/
theorem observed_card {dom : Domain} {hist : List Row} (hI : ∀ r ∈ hist, wellTypedRow dom r = true) :
    (observed dom hist).length = ((hist.filter fun r => admissibleRow dom r).toFinset).card := by
  rw [List.card_toFinset]
  apply List.Perm.length_eq
  rw [List.perm_ext_iff_of_nodup (observed_nodup dom hist) (List.nodup_dedup _)]
  intro r
  rw [mem_observed hI, List.mem_dedup, List.mem_filter]

/-- when exactly the sampler is on a with-replacement branch: very large domain, or the
    `duplicate_prob` shortcut (F6) -/
theorem shortcut_iff {dom : Domain} (hwf : WF dom) (hd : isDiscrete dom = true) (hne : dom ≠ [])
    (hist : List Row) (k : Nat) (dupProb : Rat) :
    onShortcut dom hist k dupProb = true ↔
      maxSearch ≤ numConfigs (desOf dom) ∨
      (k + (observed dom hist).length ≤ numConfigs (desOf dom) ∧
        ((k + (observed dom hist).length : Nat) : Rat) ≤ dupProb * (numConfigs (desOf dom) : Rat)) := by
  have hnone := cappedProd_none_iff (des_ne_nil hwf hd) 1
  have hdes : desOf dom ≠ [] := by simpa [desOf] using hne
  simp only [Nat.one_mul, ne_eq, hdes, not_false_eq_true, true_and] at hnone
  unfold onShortcut
  generalize hbr : branchOf dom hist k dupProb = br
  cases br with
  | tooLarge =>
    simp only [true_iff]
    left; exact hnone.mp (analyze_tooLarge_iff.mp hbr)
  | shortcut N =>
    obtain ⟨hN, h1, h2⟩ := analyze_shortcut hbr
    have hN' : N = numConfigs (desOf dom) := by simpa using cappedProd_some hN
    subst hN'
    simp only [true_iff]
    exact Or.inr ⟨h1, h2⟩
  | enumerate N =>
    obtain ⟨hN, h1, h2⟩ := analyze_enumerate hbr
    have hN' : N = numConfigs (desOf dom) := by simpa using cappedProd_some hN
    subst hN'
    simp only [Bool.false_eq_true, false_iff, not_or, not_and]
    refine ⟨?_, fun _ => h2⟩
    intro hge
    have := hnone.mpr hge
    rw [this] at hN; cases hN
  | error N =>
    obtain ⟨hN, h1⟩ := analyze_error hbr
    have hN' : N = numConfigs (desOf dom) := by simpa using cappedProd_some hN
    subst hN'
    simp only [Bool.false_eq_true, false_iff, not_or, not_and]
    refine ⟨?_, fun h => absurd h (by omega)⟩
    intro hge
    have := hnone.mpr hge
    rw [this] at hN; cases hN

/-! ### The enumerating branch of `generate_distinct_random_points` -/

/-- the number of returned points is `min k (N − number of distinct in-domain history rows)` -/
theorem distinct_len {dom : Domain} {hist : List Row} {k : Nat} {dupProb : Rat}
    (hd : isDiscrete dom = true) (hI : ∀ r ∈ hist, wellTypedRow dom r = true)
    (hb : onShortcut dom hist k dupProb = false) (ω : Oracle) :
    (distinct dom false hist k dupProb ω).length = min k (unobserved dom hist) := by
  obtain ⟨idxs, he, _, _, hl⟩ := distinct_enum hd hI hb ω
  rw [he, List.length_map, hl]

/-- the returned points are pairwise distinct -/
theorem distinct_nodup {dom : Domain} {hist : List Row} {k : Nat} {dupProb : Rat} (hwf : WF dom)
    (hd : isDiscrete dom = true) (hI : ∀ r ∈ hist, wellTypedRow dom r = true)
    (hb : onShortcut dom hist k dupProb = false) (ω : Oracle) :
    (distinct dom false hist k dupProb ω).Nodup := by
  obtain ⟨idxs, he, hn, hm, _⟩ := distinct_enum hd hI hb ω
  rw [he]
  refine List.Nodup.map_on ?_ hn
  intro x hx y hy hxy
  have hx' := (mem_availIdx.mp (hm x hx)).1
  have hy' := (mem_availIdx.mp (hm y hy)).1
  rw [← encode_decode (des_nodup hwf) hx', ← encode_decode (des_nodup hwf) hy', hxy]

/-- every returned point lies in the domain -/
theorem distinct_admissible {dom : Domain} {hist : List Row} {k : Nat} {dupProb : Rat} (hwf : WF dom)
    (hd : isDiscrete dom = true) (hI : ∀ r ∈ hist, wellTypedRow dom r = true)
    (hb : onShortcut dom hist k dupProb = false) (ω : Oracle) :
    ∀ p ∈ distinct dom false hist k dupProb ω, admissibleRow dom p = true := by
  obtain ⟨idxs, he, _, _, _⟩ := distinct_enum hd hI hb ω
  intro p hp
  rw [he] at hp
  obtain ⟨i, _, rfl⟩ := List.mem_map.mp hp
  exact idx_decode_admissible hwf hd i

/-- no returned point equals a history row -/
theorem distinct_not_in_history {dom : Domain} {hist : List Row} {k : Nat} {dupProb : Rat}
    (hwf : WF dom) (hd : isDiscrete dom = true) (hI : ∀ r ∈ hist, wellTypedRow dom r = true)
    (hb : onShortcut dom hist k dupProb = false) (ω : Oracle) :
    ∀ p ∈ distinct dom false hist k dupProb ω, p ∉ hist := by
  obtain ⟨idxs, he, _, hm, _⟩ := distinct_enum hd hI hb ω
  intro p hp hph
  rw [he] at hp
  obtain ⟨i, hi, rfl⟩ := List.mem_map.mp hp
  obtain ⟨hiN, hnot⟩ := mem_availIdx.mp (hm i hi)
  apply hnot
  have hobs : decodeIdx (desOf dom) i ∈ observed dom hist :=
    (mem_observed hI).mpr ⟨hph, idx_decode_admissible hwf hd i⟩
  have := List.mem_map_of_mem (f := encodeIdx (desOf dom)) hobs
  rwa [idx_roundtrip_index hwf hiN] at this

/-- when the request exhausts the domain, every unobserved configuration is returned -/
theorem distinct_exhausts {dom : Domain} {hist : List Row} {k : Nat} {dupProb : Rat}
    (hd : isDiscrete dom = true) (hI : ∀ r ∈ hist, wellTypedRow dom r = true)
    (hb : onShortcut dom hist k dupProb = false) (hk : unobserved dom hist ≤ k) (ω : Oracle)
    {p : Row} (hp : admissibleRow dom p = true) (hph : p ∉ hist) :
    p ∈ distinct dom false hist k dupProb ω := by
  obtain ⟨idxs, he, hn, hm, hl⟩ := distinct_enum hd hI hb ω
  have hav := avail_length hd hI
  -- idxs is a duplicate-free sublist of avail of the same length, hence a permutation of it
  have hsub : idxs ⊆ availIdx (desOf dom) (numConfigs (desOf dom)) (observed dom hist) := hm
  have hperm : idxs.Perm (availIdx (desOf dom) (numConfigs (desOf dom)) (observed dom hist)) := by
    have hsp := List.subperm_of_subset hn hsub
    refine hsp.perm_of_length_le ?_
    rw [hav, hl]; omega
  have hi : encodeIdx (desOf dom) p ∈ availIdx (desOf dom) (numConfigs (desOf dom)) (observed dom hist) := by
    refine mem_availIdx.mpr ⟨idx_encode_lt hd hp, ?_⟩
    intro hmem
    obtain ⟨r, hr, hre⟩ := List.mem_map.mp hmem
    have hr' := (mem_observed hI).mp hr
    have : r = p := encode_inj_on (by rw [← admissibleRow_eq_rowIn hd]; exact hr'.2)
      (by rw [← admissibleRow_eq_rowIn hd]; exact hp) hre
    exact hph (this ▸ hr'.1)
  rw [he]
  have := List.mem_map_of_mem (f := decodeIdx (desOf dom)) (hperm.mem_iff.mpr hi)
  rwa [idx_roundtrip_point hd hp] at this

/-- out-of-domain history rows have no influence at all -/
theorem distinct_ignores_outside_rows (dom : Domain) (c : Bool) (hist : List Row) (k : Nat)
    (dupProb : Rat) (ω : Oracle) :
    distinct dom c hist k dupProb ω =
      distinct dom c (hist.filter fun r => keepRow dom r) k dupProb ω := by
  have h : observed dom (hist.filter fun r => keepRow dom r) = observed dom hist := by
    simp [observed, removeOutside, List.filter_filter]
  simp only [distinct, branchOf, h]

/-- the same with the checker's own notion of "in the domain" (well-typed history) -/
theorem distinct_ignores_inadmissible_rows {dom : Domain} {hist : List Row} (c : Bool) (k : Nat)
    (dupProb : Rat) (ω : Oracle) (hI : ∀ r ∈ hist, wellTypedRow dom r = true) :
    distinct dom c hist k dupProb ω =
      distinct dom c (hist.filter fun r => admissibleRow dom r) k dupProb ω := by
  have h : (hist.filter fun r => keepRow dom r) = hist.filter fun r => admissibleRow dom r :=
    List.filter_congr fun r hr => keepRow_eq_admissibleRow (hI r hr)
  rw [distinct_ignores_outside_rows dom c hist, h]

/-- only the *set* of in-domain history rows matters: repeats and order are irrelevant -/
theorem distinct_ignores_repeats {dom : Domain} {hist hist' : List Row} (c : Bool) (k : Nat)
    (dupProb : Rat) (ω : Oracle)
    (hset : ∀ r, keepRow dom r = true → (r ∈ hist ↔ r ∈ hist')) :
    distinct dom c hist k dupProb ω = distinct dom c hist' k dupProb ω := by
  have hmem : ∀ r, r ∈ observed dom hist ↔ r ∈ observed dom hist' := by
    intro r
    simp only [observed, mem_dedup, removeOutside, List.mem_filter]
    constructor
    · rintro ⟨h1, h2⟩; exact ⟨(hset r h2).mp h1, h2⟩
    · rintro ⟨h1, h2⟩; exact ⟨(hset r h2).mpr h1, h2⟩
  have hlen : (observed dom hist).length = (observed dom hist').length := by
    apply List.Perm.length_eq
    rw [List.perm_ext_iff_of_nodup (observed_nodup _ _) (observed_nodup _ _)]
    exact hmem
  have hav : ∀ N, availIdx (desOf dom) N (observed dom hist) = availIdx (desOf dom) N (observed dom hist') := by
    intro N
    unfold availIdx availOf
    apply List.filter_congr
    intro i _
    congr 1
    rw [Bool.eq_iff_iff, List.contains_iff_mem, List.contains_iff_mem, List.mem_map, List.mem_map]
    constructor
    · rintro ⟨r, hr, he⟩; exact ⟨r, (hmem r).mp hr, he⟩
    · rintro ⟨r, hr, he⟩; exact ⟨r, (hmem r).mpr hr, he⟩
  simp only [distinct, branchOf, enumBranch, enumIdx, hlen, hav]

/-- non-vacuity: the F5 replay (4 configurations, five copies of one observed row) is on the
    enumerating branch, where the theorems promise min(k, 3) fresh points -/
example : onShortcut [.int 0 1, .cat [3, 5]] [[0, 3], [0, 3], [0, 3], [0, 3], [0, 3]] 2 (1 / 1000) = false ∧
    unobserved [.int 0 1, .cat [3, 5]] [[0, 3], [0, 3], [0, 3], [0, 3], [0, 3]] = 3 := by
  constructor <;> decide +kernel

/-! ### The with-replacement branches: only size and admissibility are promised (F6) -/

/-- on a with-replacement branch (and on any non-discrete unconstrained domain) exactly `k` points
    come back -/
theorem distinct_len_plain {dom : Domain} {hist : List Row} {k : Nat} {dupProb : Rat}
    (h : isDiscrete dom = false ∨ onShortcut dom hist k dupProb = true) (ω : Oracle) :
    (distinct dom false hist k dupProb ω).length = k := by
  by_cases hk0 : k = 0
  · simp [distinct, hk0]
  unfold distinct
  simp only [hk0, if_false]
  by_cases hd : isDiscrete dom = true
  · have hs : onShortcut dom hist k dupProb = true := by
      rcases h with h | h
      · rw [hd] at h; cases h
      · exact h
    simp only [hd, Bool.not_true, Bool.or_false, Bool.false_eq_true, if_false]
    unfold onShortcut at hs
    generalize branchOf dom hist k dupProb = br at hs ⊢
    cases br <;> simp_all [quasiRandom, plainSample_length]
  · simp [hd, quasiRandom, plainSample_length]

/-- … and on a discrete domain they are admissible, whatever the draws -/
theorem distinct_admissible_shortcut {dom : Domain} {hist : List Row} {k : Nat} {dupProb : Rat}
    (hwf : WF dom) (hd : isDiscrete dom = true) (hs : onShortcut dom hist k dupProb = true)
    (ω : Oracle) : ∀ p ∈ distinct dom false hist k dupProb ω, admissibleRow dom p = true := by
  by_cases hk0 : k = 0
  · simp [distinct, hk0]
  have hplain : distinct dom false hist k dupProb ω = plainSample dom k ω.plain := by
    unfold distinct
    simp only [hk0, if_false, hd, Bool.not_true, Bool.or_false, Bool.false_eq_true]
    unfold onShortcut at hs
    generalize branchOf dom hist k dupProb = br at hs ⊢
    cases br <;> simp_all [quasiRandom]
  rw [hplain]
  intro p hp
  simp only [plainSample, List.mem_map, List.mem_range] at hp
  obtain ⟨i, _, rfl⟩ := hp
  exact sampleRow_admissible_discrete hwf hd _

/-! ### Duplicate detection: `find_indexes_of_unique_points` / `identify_unique_points` -/

/-- the squared comparison of the model is the library's `distance > tolerance * sqrt(n_dim)` with
    `distance = sqrt(Σ Δᵢ²/Vᵢ)` (scipy `seuclidean`) -/
theorem far_sqrt_form (V : List Rat) (tol : Rat) {n : Nat} (hn : 0 < n) (p q : Row) :
    far V tol n p q = true ↔
      Real.sqrt ((sqDist V p q : Rat) : ℝ) > (tol : ℝ) * Real.sqrt (n : ℝ) := by
  have hnR : (0 : ℝ) < (n : ℝ) := by exact_mod_cast hn
  simp only [far, Bool.or_eq_true, decide_eq_true_eq]
  by_cases ht : tol < 0
  · have htR : (tol : ℝ) < 0 := by exact_mod_cast ht
    have h1 : (tol : ℝ) * Real.sqrt (n : ℝ) < 0 := mul_neg_of_neg_of_pos htR (Real.sqrt_pos.mpr hnR)
    have h2 := Real.sqrt_nonneg ((sqDist V p q : Rat) : ℝ)
    exact ⟨fun _ => by linarith, fun _ => Or.inl ht⟩
  · have ht' : (0 : Rat) ≤ tol := not_lt.mp ht
    have htR : (0 : ℝ) ≤ (tol : ℝ) := by exact_mod_cast ht'
    have hsq : (tol : ℝ) * Real.sqrt (n : ℝ) = Real.sqrt ((tol : ℝ) * (tol : ℝ) * (n : ℝ)) := by
      rw [Real.sqrt_mul (mul_nonneg htR htR), Real.sqrt_mul_self htR]
    have key := Real.sqrt_lt_sqrt_iff (x := (tol : ℝ) * (tol : ℝ) * (n : ℝ))
      (y := ((sqDist V p q : Rat) : ℝ)) (by positivity)
    rw [hsq]
    constructor
    · rintro (h | h)
      · exact absurd h ht
      · have : ((tol * tol * (n : Rat) : Rat) : ℝ) < ((sqDist V p q : Rat) : ℝ) := by exact_mod_cast h
        exact key.mpr (by simpa using this)
    · intro h
      right
      have h' := key.mp h
      have : ((tol * tol * (n : Rat) : Rat) : ℝ) < ((sqDist V p q : Rat) : ℝ) := by simpa using h'
      exact_mod_cast this

/-- within a batch, member `j` is kept ⇔ it is farther than the tolerance from every EARLIER member
    (kept or not); later members and the member itself are never compared -/
theorem uniqueMask_law_self (dom : Domain) (pts : List Row) (tol : Rat) (j : Nat) :
    (uniqueMask dom pts none tol)[j]? =
      pts[j]?.map fun p => (pts.take j).all fun q => farIn dom tol q p := by
  simp only [uniqueMask, selfMask_get, List.getElem?_map, Option.map_map, ← List.map_take,
    List.all_map]
  rfl

/-- against compare points, member `j` is kept ⇔ it is farther than the tolerance from every one -/
theorem uniqueMask_law_cmp (dom : Domain) (pts cmp : List Row) (tol : Rat) (j : Nat) :
    (uniqueMask dom pts (some cmp) tol)[j]? =
      pts[j]?.map fun p => cmp.all fun q => farIn dom tol q p := by
  simp only [uniqueMask, cmpMask, List.getElem?_map, Option.map_map, List.all_map]
  rfl

theorem uniqueMask_length (dom : Domain) (pts : List Row) (cmp : Option (List Row)) (tol : Rat) :
    (uniqueMask dom pts cmp tol).length = pts.length := by
  cases cmp <;> simp [uniqueMask, selfMask, selfMaskAux_length, cmpMask]

/-- `identify_unique_points` returns a sub-sequence of its input (order kept, nothing invented) -/
theorem identifyUnique_sublist (dom : Domain) (pts : List Row) (cmp : Option (List Row)) (tol : Rat) :
    (identifyUnique dom pts cmp tol).Sublist pts := applyMask_sublist _ _

/-- membership form of the two laws -/
theorem mem_identifyUnique_self {dom : Domain} {pts : List Row} {tol : Rat} {p : Row} :
    p ∈ identifyUnique dom pts none tol ↔
      ∃ j : Nat, pts[j]? = some p ∧ ((pts.take j).all fun q => farIn dom tol q p) = true := by
  simp only [identifyUnique, mem_applyMask, uniqueMask_law_self]
  constructor
  · rintro ⟨j, h1, h2⟩; rw [h1] at h2; exact ⟨j, h1, by simpa using h2⟩
  · rintro ⟨j, h1, h2⟩; exact ⟨j, h1, by rw [h1]; simpa using h2⟩

theorem mem_identifyUnique_cmp {dom : Domain} {pts cmp : List Row} {tol : Rat} {p : Row} :
    p ∈ identifyUnique dom pts (some cmp) tol ↔
      p ∈ pts ∧ (cmp.all fun q => farIn dom tol q p) = true := by
  have h : uniqueMask dom pts (some cmp) tol = pts.map fun p => cmp.all fun q => farIn dom tol q p := by
    simp only [uniqueMask, cmpMask, List.map_map, List.all_map]; rfl
  rw [identifyUnique, h, applyMask_map, List.mem_filter]

/-- non-vacuity / F7 replay: 16 doubles on [0,1], points 0⃗, 1⃗, e₁ and tolerance 1/2; the first two
    points are not within tolerance of anything and must be kept (the unrepaired code kept none) -/
example :
    let dom : Domain := List.replicate 16 (.dbl 0 1)
    let z : Row := List.replicate 16 0
    let o : Row := List.replicate 16 1
    let e : Row := 1 :: List.replicate 15 0
    uniqueMask dom [z, o, e] none (1 / 2) = [true, true, false] := by
  decide +kernel

/-! ### `replace_duplicate_points` -/

/-- who survives: exactly the batch members far from every earlier member and from every history row -/
theorem mem_keptOf {dom : Domain} {pts hist : List Row} {tol : Rat} {p : Row} :
    p ∈ keptOf dom pts hist tol ↔
      (∃ j : Nat, pts[j]? = some p ∧ ((pts.take j).all fun q => farIn dom tol q p) = true) ∧
        (hist.all fun q => farIn dom tol q p) = true := by
  rw [keptOf, mem_identifyUnique_cmp, mem_identifyUnique_self]

/-- the batch keeps its non-duplicates: a member farther than the tolerance from all earlier members
    and from the whole history is in the result, in the prefix that precedes the refill -/
theorem replace_keeps_nonduplicates {dom : Domain} {c : Bool} {pts hist : List Row} {tol dupProb : Rat}
    (ω : Oracle) {j : Nat} {p : Row} (hj : pts[j]? = some p)
    (hearlier : ∀ q ∈ pts.take j, farIn dom tol q p = true)
    (hhist : ∀ q ∈ hist, farIn dom tol q p = true) :
    p ∈ (replaceDuplicates dom c pts hist tol dupProb ω).take (keptOf dom pts hist tol).length := by
  simp only [replaceDuplicates, List.take_left']
  exact mem_keptOf.mpr ⟨⟨j, hj, List.all_eq_true.mpr hearlier⟩, List.all_eq_true.mpr hhist⟩

/-- duplicates are dropped: whatever survives is a batch member farther than the tolerance from
    every earlier batch member and from every history row -/
theorem replace_drops_duplicates {dom : Domain} {pts hist : List Row} {tol : Rat} {p : Row}
    (hp : p ∈ keptOf dom pts hist tol) :
    (∃ j : Nat, pts[j]? = some p ∧ ∀ q ∈ pts.take j, farIn dom tol q p = true) ∧
      ∀ q ∈ hist, farIn dom tol q p = true := by
  obtain ⟨⟨j, h1, h2⟩, h3⟩ := mem_keptOf.mp hp
  exact ⟨⟨j, h1, List.all_eq_true.mp h2⟩, List.all_eq_true.mp h3⟩

/-- the survivors keep their batch order -/
theorem replace_kept_sublist (dom : Domain) (pts hist : List Row) (tol : Rat) :
    (keptOf dom pts hist tol).Sublist pts :=
  (identifyUnique_sublist _ _ _ _).trans (identifyUnique_sublist _ _ _ _)

/-- the batch size is kept whenever enough unobserved configurations exist (enumerating branch), and
    always on continuous/mixed domains and on the with-replacement branches -/
theorem replace_len {dom : Domain} {pts hist : List Row} {tol dupProb : Rat} (ω : Oracle)
    (h : isDiscrete dom = false ∨
      onShortcut dom hist (pts.length - (keptOf dom pts hist tol).length) dupProb = true ∨
      (isDiscrete dom = true ∧ (∀ r ∈ hist, wellTypedRow dom r = true) ∧
        pts.length - (keptOf dom pts hist tol).length ≤ unobserved dom hist)) :
    (replaceDuplicates dom false pts hist tol dupProb ω).length = pts.length := by
  have hle : (keptOf dom pts hist tol).length ≤ pts.length := (replace_kept_sublist ..).length_le
  simp only [replaceDuplicates, List.length_append]
  have hk : (distinct dom false hist (pts.length - (keptOf dom pts hist tol).length) dupProb ω).length
      = pts.length - (keptOf dom pts hist tol).length := by
    rcases h with h | h | ⟨hd, hI, hu⟩
    · exact distinct_len_plain (Or.inl h) ω
    · exact distinct_len_plain (Or.inr h) ω
    · by_cases hs : onShortcut dom hist (pts.length - (keptOf dom pts hist tol).length) dupProb = true
      · exact distinct_len_plain (Or.inr hs) ω
      · rw [distinct_len hd hI (by simpa using hs) ω]; omega
  omega

/-- the refill of the enumerating branch is fresh: admissible, pairwise distinct, never a history row -/
theorem replace_refill_fresh {dom : Domain} {pts hist : List Row} {tol dupProb : Rat} (hwf : WF dom)
    (hd : isDiscrete dom = true) (hI : ∀ r ∈ hist, wellTypedRow dom r = true)
    (hb : onShortcut dom hist (pts.length - (keptOf dom pts hist tol).length) dupProb = false)
    (ω : Oracle) :
    let refill := (replaceDuplicates dom false pts hist tol dupProb ω).drop (keptOf dom pts hist tol).length
    refill.Nodup ∧ (∀ p ∈ refill, admissibleRow dom p = true ∧ p ∉ hist) ∧
      refill.length = min (pts.length - (keptOf dom pts hist tol).length) (unobserved dom hist) := by
  simp only [replaceDuplicates, List.drop_left']
  exact ⟨distinct_nodup hwf hd hI hb ω,
    fun p hp => ⟨distinct_admissible hwf hd hI hb ω p hp, distinct_not_in_history hwf hd hI hb ω p hp⟩,
    distinct_len hd hI hb ω⟩

/-- non-vacuity: batch [(0,3),(0,3),(1,5)] against a history of four copies of (0,3) and one
    out-of-domain row: only (1,5) survives, two fresh points are added, the batch size 3 is kept -/
example :
    let dom : Domain := [.int 0 1, .cat [3, 5]]
    let pts : List Row := [[0, 3], [0, 3], [1, 5]]
    let hist : List Row := [[0, 3], [0, 3], [0, 3], [0, 3], [7, 3]]
    keptOf dom pts hist (1 / 100) = [[1, 5]] ∧
      onShortcut dom hist (pts.length - (keptOf dom pts hist (1 / 100)).length) (1 / 1000) = false ∧
      (replaceDuplicates dom false pts hist (1 / 100) (1 / 1000) ⟨[], [], [], []⟩).length = 3 := by
  refine ⟨by decide +kernel, by decide +kernel, by decide +kernel⟩

/-! ### Plain random sampling of an unconstrained mixed domain -/

/-- every draw gives an admissible value (ints integral and within both bounds, categories and grid
    values members of their lists, doubles within bounds) -/
theorem sample_admissible {dom : Domain} (hwf : WF dom) (k : Nat) {draws : List (List Draw)}
    (h : ∀ ds ∈ draws, ∀ d ∈ ds, d.ok) :
    (plainSample dom k draws).length = k ∧ ∀ p ∈ plainSample dom k draws, admissibleRow dom p = true :=
  ⟨plainSample_length dom k draws, plainSample_admissible hwf k h⟩

/-- every int value of `[lo, hi]`, both bounds included, is reached -/
theorem sample_support_int {lo hi : Int} {z : Int} (h1 : lo ≤ z) (h2 : z ≤ hi) :
    ∃ d : Draw, sample1d (.int lo hi) d = (z : Rat) := by
  refine ⟨⟨(z - lo).toNat, 0⟩, ?_⟩
  simp only [sample1d]
  rw [Nat.mod_eq_of_lt (by omega)]
  congr 1; omega

/-- every category is reached -/
theorem sample_support_cat {es : List Int} {e : Int} (h : e ∈ es) :
    ∃ d : Draw, sample1d (.cat es) d = (e : Rat) := by
  have hm : (e : Rat) ∈ catVals es := List.mem_map_of_mem h
  have hl : (catVals es).idxOf (e : Rat) < (catVals es).length := List.idxOf_lt_length_iff.mpr hm
  refine ⟨⟨(catVals es).idxOf (e : Rat), 0⟩, ?_⟩
  simp only [sample1d]
  rw [← catVals_length es, Nat.mod_eq_of_lt hl]
  exact getD_idxOf hm 0

/-- every grid element is reached -/
theorem sample_support_grid {es : List Rat} {e : Rat} (h : e ∈ es) :
    ∃ d : Draw, sample1d (.grid es) d = e := by
  refine ⟨⟨es.idxOf e, 0⟩, ?_⟩
  simp only [sample1d]
  rw [Nat.mod_eq_of_lt (List.idxOf_lt_length_iff.mpr h)]
  exact getD_idxOf h 0

/-- jointly: every admissible configuration of a mixed domain (doubles below their upper bound) is
    the result of the plain sampler for some legal draws -/
theorem sample_support_row {dom : Domain} (hwf : WF dom) {row : Row}
    (ha : admissibleRow dom row = true) (ho : openAtHiRow dom row = true) :
    ∃ ds : List Draw, (∀ d ∈ ds, d.ok) ∧ sampleRow dom ds = row :=
  sampleRow_support hwf ha ho

example : sample1d (.int (-2) 3) ⟨5, 0⟩ = 3 ∧ sample1d (.int (-2) 3) ⟨0, 0⟩ = -2 := by
  constructor <;> decide +kernel

/-! ### Priors -/

/-- the random, SPE-initialisation and SPE-search-initialisation paths draw from the priors exactly
    when priors are given and the domain is unconstrained -/
theorem prior_path_rule (priorsGiven constrained : Bool) :
    usePriors priorsGiven constrained = true ↔ priorsGiven = true ∧ constrained = false := by
  cases priorsGiven <;> cases constrained <;> simp [usePriors]

/-- a parameter without a valid prior is drawn by the plain sampler -/
theorem prior_none_plain (c : Comp) : priorCall c .none = .plain c := rfl

/-- the normal prior is handed to scipy truncated to exactly the parameter's bounds -/
theorem prior_normal_support (c : Comp) (mean scale : Rat) (hs : scale ≠ 0) :
    callSupport (priorCall c (.normal mean scale)) = some (c.lo, c.hi) := by
  simp only [priorCall, callSupport, Option.some.injEq, Prod.mk.injEq]
  constructor <;> field_simp <;> ring

/-- the beta prior is scaled onto exactly the parameter's bounds -/
theorem prior_beta_support (c : Comp) (a b : Rat) :
    callSupport (priorCall c (.beta a b)) = some (c.lo, c.hi) := by
  simp only [priorCall, callSupport, Option.some.injEq, Prod.mk.injEq, true_and]
  ring

/-! ### The refinement test used against the implementation is exactly "some oracle produces it" -/

/-- every model output passes the test -/
theorem legal_complete {dom : Domain} {hist : List Row} {k : Nat} {dupProb : Rat} (hwf : WF dom)
    (hd : isDiscrete dom = true) (hI : ∀ r ∈ hist, wellTypedRow dom r = true) (ω : Oracle) :
    legalDistinct dom hist k dupProb (distinct dom false hist k dupProb ω) = true := by
  by_cases hk0 : k = 0
  · simp [legalDistinct, distinct, hk0]
  have hav := avail_length hd hI
  have hle := observed_length_le hd hI
  unfold legalDistinct distinct
  simp only [hk0, if_false, hd, Bool.not_true, Bool.or_false, Bool.false_eq_true]
  generalize hbr : branchOf dom hist k dupProb = br
  cases br with
  | tooLarge =>
    simp only [quasiRandom, Bool.false_eq_true, if_false, Bool.and_eq_true, List.all_eq_true,
      decide_eq_true_eq, plainSample_length, and_true]
    intro p hp
    simp only [plainSample, List.mem_map, List.mem_range] at hp
    obtain ⟨i, _, rfl⟩ := hp
    exact sampleRow_admissible_discrete hwf hd _
  | shortcut N =>
    simp only [quasiRandom, Bool.false_eq_true, if_false, Bool.and_eq_true, List.all_eq_true,
      decide_eq_true_eq, plainSample_length, and_true]
    intro p hp
    simp only [plainSample, List.mem_map, List.mem_range] at hp
    obtain ⟨i, _, rfl⟩ := hp
    exact sampleRow_admissible_discrete hwf hd _
  | enumerate N =>
    obtain ⟨hN, hkh, _⟩ := analyze_enumerate hbr
    have hN' : N = numConfigs (desOf dom) := by simpa using cappedProd_some hN
    subst hN'
    exact legalEnum_complete (des_nodup hwf) (des_ne_nil hwf hd) _ ω (by rw [hav]; unfold unobserved; omega)
  | error N =>
    obtain ⟨hN, hkh⟩ := analyze_error hbr
    have hN' : N = numConfigs (desOf dom) := by simpa using cappedProd_some hN
    subst hN'
    simp only
    split_ifs with hle0
    · rfl
    · exact legalEnum_complete (des_nodup hwf) (des_ne_nil hwf hd) _ ω (by rw [hav]; unfold unobserved; omega)

/-- every output that passes the test is, up to the order of its rows, the model's output for some
    outcome of the random draws -/
theorem legal_sound {dom : Domain} {hist : List Row} {k : Nat} {dupProb : Rat} (hwf : WF dom)
    (hd : isDiscrete dom = true) (hI : ∀ r ∈ hist, wellTypedRow dom r = true) {out : List Row}
    (h : legalDistinct dom hist k dupProb out = true) :
    ∃ ω : Oracle, (distinct dom false hist k dupProb ω).Perm out := by
  by_cases hk0 : k = 0
  · refine ⟨⟨[], [], [], []⟩, ?_⟩
    simp only [legalDistinct, hk0, if_true, List.isEmpty_iff] at h
    simp [distinct, hk0, h]
  have hav := avail_length hd hI
  have hle := observed_length_le hd hI
  unfold legalDistinct at h
  unfold distinct
  simp only [hk0, if_false, hd, Bool.not_true, Bool.or_false, Bool.false_eq_true] at h ⊢
  generalize hbr : branchOf dom hist k dupProb = br at h ⊢
  have hplain : (out.all (admissibleRow dom) && decide (out.length = k)) = true →
      ∃ ω : Oracle, (quasiRandom dom false k ω).Perm out := by
    intro h
    simp only [Bool.and_eq_true, List.all_eq_true, decide_eq_true_eq] at h
    obtain ⟨draws, hdraws⟩ := exists_draws hwf hd h.1
    refine ⟨⟨[], [], draws, []⟩, ?_⟩
    simp only [quasiRandom, Bool.false_eq_true, if_false]
    rw [← h.2, plainSample_of_map hdraws]
  cases br with
  | tooLarge => exact hplain h
  | shortcut N => exact hplain h
  | enumerate N =>
    obtain ⟨hN, hkh, _⟩ := analyze_enumerate hbr
    have hN' : N = numConfigs (desOf dom) := by simpa using cappedProd_some hN
    subst hN'
    exact legalEnum_sound (by rw [hav]; unfold unobserved; omega) h
  | error N =>
    obtain ⟨hN, hkh⟩ := analyze_error hbr
    have hN' : N = numConfigs (desOf dom) := by simpa using cappedProd_some hN
    subst hN'
    simp only at h ⊢
    split_ifs at h ⊢ with hle0
    · refine ⟨⟨[], [], [], []⟩, ?_⟩
      rw [List.isEmpty_iff] at h; rw [h]
    · exact legalEnum_sound (by rw [hav]; unfold unobserved; omega) h

end C10
