-- generated: AcqGrad
/-
  C04 — tie of the scalar gradient formulas of `Model/C04.lean` to the expressions the translator regenerates from the
  current source on every run (`Model/Generated/AcqGrad.lean`): grad_sqrt_var, the EI gradient, the product rule of the
  penalised EI, the augmented-EI penalty gradient, the logistic and CDF success-probability gradients, the Parzen ratio
  gradient and the cost-scaled value.  The model's formulas are the ones the `HasDerivAt` theorems of Properties/C04.lean
  are about; `*_eq_generated` identifies them (over the reals) with what the source says now, and `gen_*` restate two
  derivative theorems on generated definitions alone.  `rfl` first, field arithmetic as fall-back.
-/
import Properties.C04
import Model.Generated.AcqGrad
import Model.Generated.Acq

set_option linter.unusedTactic false
set_option linter.unreachableTactic false

namespace C04

macro "c04_close" : tactic => `(tactic| first | rfl | ring1 | (congr 1; ring1) | (congr 2; ring1) | (field_simp; done) | (field_simp; ring1))

theorem gradSqrtVar_eq_generated (gv s : ℝ) : gradSqrtVar gv s = Gen.grad_sqrt_var gv s := by
  simp only [gradSqrtVar, Gen.grad_sqrt_var, half_real, Arith.real_ofNat]
  first | rfl | (push_cast; c04_close)

theorem eiGrad_eq_generated (gs gm cdf pdfz : ℝ) : eiGrad gs gm cdf pdfz = Gen.ei_grad cdf gm gs pdfz := by
  first | rfl | (simp only [eiGrad, Gen.ei_grad] <;> c04_close)

theorem penalizedGrad_eq_generated (eiv eig pen peng : ℝ) :
    penalizedGrad eiv eig pen peng = Gen.penalized_grad eiv eig peng pen := by
  first | rfl | (simp only [penalizedGrad, Gen.penalized_grad] <;> c04_close)

theorem aeiPenaltyGrad_eq_generated (v tau gv : ℝ) :
    aeiPenaltyGrad v tau gv =
      Gen.aei_grad_penalty (Gen.aei_adjusted_var tau v) gv (Gen.aei_ratio (Gen.aei_adjusted_var tau v) tau) := by
  simp only [aeiPenaltyGrad, Gen.aei_grad_penalty, Gen.aei_adjusted_var, Gen.aei_ratio, half_real, Arith.real_ofNat,
    Arith.real_sqrt]
  first | rfl | (push_cast; c04_close)

theorem pfLogisticGrad_eq_generated (kappa thr mean gm : ℝ) :
    pfLogisticGrad kappa thr mean gm =
      Gen.pf_logistic_grad
        (Gen.pf_chain_rule (Gen.pf_denominator (Gen.pf_exponential mean kappa thr)) (Gen.pf_exponential mean kappa thr) kappa) gm := by
  simp only [pfLogisticGrad, pfExponential, Gen.pf_logistic_grad, Gen.pf_chain_rule, Gen.pf_denominator,
    Gen.pf_exponential, exponentCap_real, Arith.real_ofNat, Arith.real_exp, Arith.real_min]
  first | rfl | (push_cast; c04_close)

theorem pfCdfGrad_eq_generated (pdfz s gm z gs : ℝ) : pfCdfGrad pdfz s gm z gs = Gen.pf_cdf_grad gm gs pdfz s z := by
  first | rfl | (simp only [pfCdfGrad, Gen.pf_cdf_grad] <;> c04_close)

theorem parzenGrad_eq_generated (gamma l g lg gg : ℝ) :
    parzenGrad gamma l g lg gg = Gen.parzen_grad (C16.ratio gamma l g) g gg l lg gamma := by
  first | rfl | (simp only [parzenGrad, Gen.parzen_grad] <;> c04_close)

theorem costScaled_eq_generated (v c : ℝ) : costScaled v c = Gen.cost_scaled_value v c := by
  first | rfl | (simp only [costScaled, Gen.cost_scaled_value] <;> c04_close)

/-! ### Derivative theorems on the generated formulas -/

/-- the logistic success-probability gradient the source computes is the derivative of the value it computes
    (below the exponent cap), for every differentiable posterior mean -/
theorem gen_pf_logistic_grad {m : ℝ → ℝ} {m' t : ℝ} (kappa thr : ℝ) (hm : HasDerivAt m m' t)
    (hcap : kappa * (m t - thr) < 40) :
    HasDerivAt (fun u => Gen.pf_success (Gen.pf_denominator (Gen.pf_exponential (m u) kappa thr)))
      (Gen.pf_logistic_grad
        (Gen.pf_chain_rule (Gen.pf_denominator (Gen.pf_exponential (m t) kappa thr)) (Gen.pf_exponential (m t) kappa thr) kappa) m') t := by
  have h := pf_logistic_grad kappa thr hm hcap
  rw [pfLogisticGrad_eq_generated] at h
  have e : (fun u => pfLogistic kappa thr (m u)) =
      (fun u => Gen.pf_success (Gen.pf_denominator (Gen.pf_exponential (m u) kappa thr))) := by
    funext u
    simp only [pfLogistic, pfExponential, Gen.pf_success, Gen.pf_denominator, Gen.pf_exponential, exponentCap_real,
      Arith.real_ofNat, Arith.real_exp, Arith.real_min]
    first | rfl | (push_cast; c04_close)
  rw [e] at h
  exact h

/-- the CDF success-probability gradient the source computes is the derivative of Φ(z) for the Gaussian Φ -/
theorem gen_pf_cdf_grad (thr : ℝ) {m v : ℝ → ℝ} {m' v' t : ℝ} (hm : HasDerivAt m m' t)
    (hv : HasDerivAt v v' t) (hpos : 0 < v t) :
    HasDerivAt (fun u => stdNormalCdf (zScore thr (m u) (Real.sqrt (v u))))
      (Gen.pf_cdf_grad m' (Gen.grad_sqrt_var v' (Real.sqrt (v t))) (pdf sqrt2pi (zScore thr (m t) (Real.sqrt (v t))))
        (Real.sqrt (v t)) (zScore thr (m t) (Real.sqrt (v t)))) t := by
  have h := pf_cdf_grad_gaussian thr hm hv hpos
  rw [pfCdfGrad_eq_generated, gradSqrtVar_eq_generated] at h
  exact h

end C04
