/- Helper lemmas for C10: mixed-radix numbering, `dedup`, sampling without replacement (`pick`). -/
import Model.C10
import Mathlib.Data.List.Basic
import Mathlib.Data.List.Nodup
import Mathlib.Data.List.Perm.Basic
import Mathlib.Data.List.Range
import Mathlib.Tactic.Linarith
import Mathlib.Tactic.Ring

namespace C10

/-! ### `getD` -/

theorem getD_mem {l : List Rat} {i : Nat} (h : i < l.length) (d : Rat) : l.getD i d ∈ l := by
  rw [List.getD_eq_getElem?_getD, List.getElem?_eq_getElem h]
  exact List.getElem_mem h

theorem getD_idxOf {l : List Rat} {p : Rat} (h : p ∈ l) (d : Rat) : l.getD (l.idxOf p) d = p := by
  have hl : l.idxOf p < l.length := List.idxOf_lt_length_iff.mpr h
  rw [List.getD_eq_getElem?_getD, List.getElem?_eq_getElem hl]
  simp [List.getElem_idxOf hl]

theorem idxOf_getD {l : List Rat} (hn : l.Nodup) {i : Nat} (h : i < l.length) (d : Rat) :
    l.idxOf (l.getD i d) = i := by
  rw [List.getD_eq_getElem?_getD, List.getElem?_eq_getElem h]
  simpa using hn.idxOf_getElem i h

/-! ### encode: loop form = Horner form -/

theorem encodeLoop_eq (des : List (List Rat)) (row : Row) (index base : Nat) :
    encodeLoop des row index base = index + base * encodeRec des row := by
  induction des generalizing row index base with
  | nil => simp [encodeLoop, encodeRec]
  | cons es rest ih =>
    cases row with
    | nil => simp [encodeLoop, encodeRec]
    | cons p ps =>
      simp only [encodeLoop, encodeRec]
      rw [ih]; ring

theorem encodeIdx_eq (des : List (List Rat)) (row : Row) : encodeIdx des row = encodeRec des row := by
  simp [encodeIdx, encodeLoop_eq]

/-! ### rows of the product -/

theorem rowIn_length {des : List (List Rat)} {row : Row} (h : rowIn des row = true) :
    row.length = des.length := by
  induction des generalizing row with
  | nil => cases row <;> simp_all [rowIn]
  | cons es rest ih =>
    cases row with
    | nil => simp [rowIn] at h
    | cons p ps =>
      simp only [rowIn, Bool.and_eq_true] at h
      simp [ih h.2]

theorem decodeIdx_div (es : List Rat) (i : Nat) : (i - i % es.length) / es.length = i / es.length :=
  Nat.div_eq_sub_mod_div.symm

theorem decode_rowIn {des : List (List Rat)} (hne : ∀ es ∈ des, es ≠ []) (i : Nat) :
    rowIn des (decodeIdx des i) = true := by
  induction des generalizing i with
  | nil => simp [decodeIdx, rowIn]
  | cons es rest ih =>
    have hes : es ≠ [] := hne es (List.mem_cons_self ..)
    have hpos : 0 < es.length := List.length_pos_iff.mpr hes
    simp only [decodeIdx, rowIn, Bool.and_eq_true]
    refine ⟨?_, ih (fun e he => hne e (List.mem_cons_of_mem _ he)) _⟩
    rw [List.contains_iff_mem]
    exact getD_mem (Nat.mod_lt _ hpos) 0

theorem encode_lt {des : List (List Rat)} {row : Row} (h : rowIn des row = true) :
    encodeRec des row < numConfigs des := by
  induction des generalizing row with
  | nil => cases row <;> simp_all [rowIn, encodeRec, numConfigs]
  | cons es rest ih =>
    cases row with
    | nil => simp [rowIn] at h
    | cons p ps =>
      simp only [rowIn, Bool.and_eq_true, List.contains_iff_mem] at h
      simp only [encodeRec, numConfigs]
      have h1 : es.idxOf p < es.length := List.idxOf_lt_length_iff.mpr h.1
      have h2 := ih h.2
      calc es.idxOf p + es.length * encodeRec rest ps
          < es.length + es.length * encodeRec rest ps := by omega
        _ = es.length * (encodeRec rest ps + 1) := by ring
        _ ≤ es.length * numConfigs rest := Nat.mul_le_mul_left _ h2

/-- decode ∘ encode = id on rows of the product -/
theorem decode_encode {des : List (List Rat)} {row : Row} (h : rowIn des row = true) :
    decodeIdx des (encodeRec des row) = row := by
  induction des generalizing row with
  | nil => cases row <;> simp_all [rowIn, decodeIdx]
  | cons es rest ih =>
    cases row with
    | nil => simp [rowIn] at h
    | cons p ps =>
      simp only [rowIn, Bool.and_eq_true, List.contains_iff_mem] at h
      have h1 : es.idxOf p < es.length := List.idxOf_lt_length_iff.mpr h.1
      have hpos : 0 < es.length := by omega
      simp only [encodeRec, decodeIdx]
      have hm : (es.idxOf p + es.length * encodeRec rest ps) % es.length = es.idxOf p := by
        rw [Nat.add_mul_mod_self_left]; exact Nat.mod_eq_of_lt h1
      rw [hm, Nat.add_sub_cancel_left, Nat.mul_div_cancel_left _ hpos, ih h.2, getD_idxOf h.1]

/-- encode ∘ decode = id below the number of configurations -/
theorem encode_decode {des : List (List Rat)} (hnd : ∀ es ∈ des, es.Nodup) {i : Nat}
    (hi : i < numConfigs des) : encodeRec des (decodeIdx des i) = i := by
  induction des generalizing i with
  | nil => simp [numConfigs] at hi; simp [encodeRec, hi]
  | cons es rest ih =>
    simp only [numConfigs] at hi
    have hpos : 0 < es.length := by
      rcases Nat.eq_zero_or_pos es.length with h0 | h0
      · rw [h0] at hi; simp at hi
      · exact h0
    simp only [decodeIdx, encodeRec]
    rw [idxOf_getD (hnd es (List.mem_cons_self ..)) (Nat.mod_lt _ hpos), decodeIdx_div,
      ih (fun e he => hnd e (List.mem_cons_of_mem _ he)) (Nat.div_lt_of_lt_mul hi)]
    exact Nat.mod_add_div i es.length

theorem decode_length (des : List (List Rat)) (i : Nat) : (decodeIdx des i).length = des.length := by
  induction des generalizing i with
  | nil => simp [decodeIdx]
  | cons es rest ih => simp [decodeIdx, ih]

/-! ### `dedup` -/

theorem mem_dedup {l : List Row} {r : Row} : r ∈ dedup l ↔ r ∈ l := by
  induction l with
  | nil => simp [dedup]
  | cons a as ih =>
    simp only [dedup, dedupIns]
    split_ifs with h
    · rw [ih]; constructor
      · exact fun h' => List.mem_cons_of_mem _ h'
      · intro h'; rcases List.mem_cons.mp h' with rfl | h'
        · exact ih.mp h
        · exact h'
    · simp [ih]

theorem nodup_dedup (l : List Row) : (dedup l).Nodup := by
  induction l with
  | nil => simp [dedup]
  | cons a as ih =>
    simp only [dedup, dedupIns]
    split_ifs with h
    · exact ih
    · exact List.nodup_cons.mpr ⟨h, ih⟩

/-- the deduplicated list only depends on the set of members, as far as membership and length go -/
theorem dedup_length_congr {l l' : List Row} (h : ∀ r, r ∈ l ↔ r ∈ l') :
    (dedup l).length = (dedup l').length := by
  apply List.Perm.length_eq
  rw [List.perm_ext_iff_of_nodup (nodup_dedup l) (nodup_dedup l')]
  intro r; rw [mem_dedup, mem_dedup]; exact h r

/-! ### sampling without replacement -/

theorem pick_subset (k : Nat) (l ω : List Nat) : ∀ x ∈ pick k l ω, x ∈ l := by
  induction k generalizing l ω with
  | zero => simp [pick]
  | succ k ih =>
    cases l with
    | nil => simp [pick]
    | cons a as =>
      intro x hx
      simp only [pick, List.mem_cons] at hx
      have hj : ω.headD 0 % (as.length + 1) < (a :: as).length := by
        simp only [List.length_cons]; exact Nat.mod_lt _ (Nat.succ_pos _)
      rcases hx with rfl | hx
      · rw [List.getD_eq_getElem?_getD, List.getElem?_eq_getElem hj]
        exact List.getElem_mem hj
      · have := ih _ _ x hx
        exact List.mem_of_mem_erase this

theorem pick_nodup (k : Nat) {l : List Nat} (hl : l.Nodup) (ω : List Nat) : (pick k l ω).Nodup := by
  induction k generalizing l ω with
  | zero => simp [pick]
  | succ k ih =>
    cases l with
    | nil => simp [pick]
    | cons a as =>
      simp only [pick]
      refine List.nodup_cons.mpr ⟨?_, ih (hl.erase _) _⟩
      intro hx
      exact hl.not_mem_erase (pick_subset _ _ _ _ hx)

theorem pick_length (k : Nat) (l ω : List Nat) : (pick k l ω).length = min k l.length := by
  induction k generalizing l ω with
  | zero => simp [pick]
  | succ k ih =>
    cases l with
    | nil => simp [pick]
    | cons a as =>
      have hj : ω.headD 0 % (as.length + 1) < (a :: as).length := by
        simp only [List.length_cons]; exact Nat.mod_lt _ (Nat.succ_pos _)
      have hm : (a :: as).getD (ω.headD 0 % (as.length + 1)) a ∈ a :: as := by
        rw [List.getD_eq_getElem?_getD, List.getElem?_eq_getElem hj]
        exact List.getElem_mem hj
      simp only [pick, List.length_cons, ih, List.length_erase_of_mem hm]
      omega

/-- every sequence without repetition drawn from the pool is produced by some oracle -/
theorem pick_surj {l s : List Nat} (hs : s.Nodup) (hsub : ∀ x ∈ s, x ∈ l) :
    ∃ ω, pick s.length l ω = s := by
  induction s generalizing l with
  | nil => exact ⟨[], by simp [pick]⟩
  | cons x s ih =>
    have hx : x ∈ l := hsub x (List.mem_cons_self ..)
    cases l with
    | nil => simp at hx
    | cons a as =>
      have hnd := List.nodup_cons.mp hs
      have hsub' : ∀ y ∈ s, y ∈ (a :: as).erase x := by
        intro y hy
        have hne : y ≠ x := fun h => hnd.1 (h ▸ hy)
        exact (List.mem_erase_of_ne hne).mpr (hsub y (List.mem_cons_of_mem _ hy))
      obtain ⟨ω', hω'⟩ := ih hnd.2 hsub'
      have hj : (a :: as).idxOf x < (a :: as).length := List.idxOf_lt_length_iff.mpr hx
      refine ⟨(a :: as).idxOf x :: ω', ?_⟩
      have hlen : as.length + 1 = (a :: as).length := rfl
      simp only [List.length_cons, pick, List.headD_cons, List.tail_cons]
      rw [hlen, Nat.mod_eq_of_lt hj]
      have hg : (a :: as).getD ((a :: as).idxOf x) a = x := by
        rw [List.getD_eq_getElem?_getD, List.getElem?_eq_getElem hj]
        simp [List.getElem_idxOf hj]
      rw [hg, hω']

end C10
