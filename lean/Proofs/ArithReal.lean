import Model.Arith
import Mathlib.Analysis.SpecialFunctions.Exp
import Mathlib.Analysis.SpecialFunctions.Sqrt
import Mathlib.Analysis.SpecialFunctions.Log.Basic

noncomputable instance : Arith ℝ where
  zero := 0
  one := 1
  ofNat n := (n : ℝ)
  exp := Real.exp
  sqrt := Real.sqrt
  log := Real.log
  max := max
  min := min
  decLt a b := Classical.propDecidable _
  decLe a b := Classical.propDecidable _

namespace Arith
@[simp] theorem real_zero : (Arith.zero : ℝ) = 0 := rfl
@[simp] theorem real_one : (Arith.one : ℝ) = 1 := rfl
@[simp] theorem real_ofNat (n : Nat) : (Arith.ofNat n : ℝ) = (n : ℝ) := rfl
@[simp] theorem real_exp (x : ℝ) : Arith.exp x = Real.exp x := rfl
@[simp] theorem real_sqrt (x : ℝ) : Arith.sqrt x = Real.sqrt x := rfl
@[simp] theorem real_log (x : ℝ) : Arith.log x = Real.log x := rfl
@[simp] theorem real_max (x y : ℝ) : Arith.max x y = max x y := rfl
@[simp] theorem real_min (x y : ℝ) : Arith.min x y = min x y := rfl
@[simp] theorem real_OfNat0 : (@OfNat.ofNat ℝ 0 Arith.instOfNatOfNatNat) = (0:ℝ) := rfl
@[simp] theorem real_OfNat1 : (@OfNat.ofNat ℝ 1 Arith.instOfNatOfNatNat_1) = (1:ℝ) := rfl
end Arith
