/-
  Helper lemmas for C04, part 6 (stretch): for the Gaussian, `z Φ(z) + φ(z) ≥ 0` for every z
  (Mills-ratio bound Φ(z) ≤ φ(z)/|z| for z < 0), so the `fmax(0, ·)` inside EI never cuts and the EI
  gradient theorem needs no positivity hypothesis.
-/
import Model.C04
import Proofs.ArithReal
import Proofs.C04Chain
import Proofs.C04Gauss
import Mathlib.Analysis.SpecialFunctions.Gaussian.GaussianIntegral
import Mathlib.MeasureTheory.Integral.IntegralEqImproper

namespace C04
open MeasureTheory ProbabilityTheory Set Filter Topology

theorem pdf_integrable : Integrable (pdf sqrt2pi) := by
  have h := integrable_gaussianPDFReal 0 1
  have e : gaussianPDFReal 0 1 = pdf sqrt2pi := funext gaussianPDFReal_std_eq
  rwa [e] at h

theorem mul_pdf_integrable : Integrable (fun t : ℝ => t * pdf sqrt2pi t) := by
  have h := (integrable_mul_exp_neg_mul_sq (b := 1 / 2) (by norm_num)).div_const sqrt2pi
  refine h.congr (ae_of_all _ fun t => ?_)
  simp only [pdf_real]
  have : -(1 / 2 : ℝ) * t ^ 2 = -(t * t / 2) := by ring
  rw [this]
  ring

theorem stdNormalCdf_eq (z : ℝ) : stdNormalCdf z = ∫ t in Iic z, pdf sqrt2pi t := by
  unfold stdNormalCdf
  have e : gaussianPDFReal 0 1 = pdf sqrt2pi := funext gaussianPDFReal_std_eq
  rw [e]

theorem pdf_nonneg (z : ℝ) : 0 ≤ pdf sqrt2pi z := by
  rw [pdf_real]
  exact div_nonneg (Real.exp_pos _).le sqrt2pi_pos.le

theorem stdNormalCdf_nonneg (z : ℝ) : 0 ≤ stdNormalCdf z := by
  rw [stdNormalCdf_eq]
  exact setIntegral_nonneg measurableSet_Iic fun t _ => pdf_nonneg t

/-- ∫_{(-∞, z]} t φ(t) dt = −φ(z) -/
theorem integral_mul_pdf_Iic (z : ℝ) : ∫ t in Iic z, t * pdf sqrt2pi t = -(pdf sqrt2pi z) := by
  have hderiv : ∀ x ∈ Iic z, HasDerivAt (fun t => -(pdf sqrt2pi t)) (x * pdf sqrt2pi x) x := by
    intro x _
    have := (pdf_hasDerivAt sqrt2pi x).neg
    refine this.congr_deriv ?_
    ring
  have hint : IntegrableOn (fun t : ℝ => t * pdf sqrt2pi t) (Iic z) := mul_pdf_integrable.integrableOn
  have hlim : Tendsto (fun t => -(pdf sqrt2pi t)) atBot (𝓝 0) :=
    tendsto_zero_of_hasDerivAt_of_integrableOn_Iic (a := z) hderiv hint pdf_integrable.neg.integrableOn
  have := integral_Iic_of_hasDerivAt_of_tendsto' hderiv hint hlim
  simpa using this

/-- Mills-ratio bound in the form used by EI: `z Φ(z) + φ(z) ≥ 0` for every real z -/
theorem ei_inner_nonneg (z : ℝ) : 0 ≤ z * stdNormalCdf z + pdf sqrt2pi z := by
  rcases le_or_gt 0 z with hz | hz
  · exact add_nonneg (mul_nonneg hz (stdNormalCdf_nonneg z)) (pdf_nonneg z)
  · -- z < 0: z Φ(z) = ∫ z φ ≥ ∫ t φ = −φ(z) because t ≤ z on the domain
    have h1 : z * stdNormalCdf z = ∫ t in Iic z, z * pdf sqrt2pi t := by
      rw [stdNormalCdf_eq, integral_const_mul]
    have h2 : ∫ t in Iic z, t * pdf sqrt2pi t ≤ ∫ t in Iic z, z * pdf sqrt2pi t := by
      apply setIntegral_mono_on mul_pdf_integrable.integrableOn (pdf_integrable.const_mul z).integrableOn
        measurableSet_Iic
      intro t ht
      exact mul_le_mul_of_nonneg_right ht (pdf_nonneg t)
    rw [integral_mul_pdf_Iic] at h2
    linarith

/-- EI with a Φ for which `zΦ + pdf ≥ 0` holds EVERYWHERE (the Gaussian): no local positivity needed -/
theorem ei_hasDerivAt_global (Φ : ℝ → ℝ) (C b : ℝ) {m s : ℝ → ℝ} {m' s' t : ℝ}
    (hm : HasDerivAt m m' t) (hs : HasDerivAt s s' t) (hs0 : s t ≠ 0)
    (hΦ : HasDerivAt Φ (pdf C (zScore b (m t) (s t))) (zScore b (m t) (s t)))
    (hnn : ∀ z, 0 ≤ z * Φ z + pdf C z) :
    HasDerivAt (fun u => ei (s u) (zScore b (m u) (s u)) (Φ (zScore b (m u) (s u))) (pdf C (zScore b (m u) (s u))))
      (eiGrad s' m' (Φ (zScore b (m t) (s t))) (pdf C (zScore b (m t) (s t)))) t := by
  set z0 := zScore b (m t) (s t) with hz0
  have hz := zScore_hasDerivAt b hm hs hs0
  rw [← hz0] at hz
  have hΦz : HasDerivAt (fun u => Φ (zScore b (m u) (s u))) (pdf C z0 * (-(m' + z0 * s') / s t)) t :=
    hΦ.comp t hz
  have hpz : HasDerivAt (fun u => pdf C (zScore b (m u) (s u))) (-z0 * pdf C z0 * (-(m' + z0 * s') / s t)) t := by
    have := (pdf_hasDerivAt C z0).comp t hz
    exact this
  have hw := (hz.fun_mul hΦz).fun_add hpz
  have := hs.fun_mul hw
  have hfun : (fun u => ei (s u) (zScore b (m u) (s u)) (Φ (zScore b (m u) (s u))) (pdf C (zScore b (m u) (s u))))
      = fun u => s u * (zScore b (m u) (s u) * Φ (zScore b (m u) (s u)) + pdf C (zScore b (m u) (s u))) := by
    funext u
    rw [ei_real, max_eq_right (hnn _)]
  rw [hfun]
  refine this.congr_deriv ?_
  rw [eiGrad_real, ← hz0]
  field_simp
  ring

end C04
