/-
  Helper lemmas for Properties/C20.lean (schema validation).
-/
import Model.C20
import Mathlib.Tactic.Linarith

namespace C20

/-! ### lists of violations -/

theorem guardV_nil (b : Bool) (v : Violation) : guardV b v = [] ↔ b = true := by
  unfold guardV; cases b <;> simp

theorem itemsFrom_nil {f : Json → List Violation} {g : Json → Bool}
    (h : ∀ x, f x = [] ↔ g x = true) (i : Nat) (xs : List Json) :
    itemsFrom f i xs = [] ↔ xs.all g = true := by
  induction xs generalizing i with
  | nil => simp [itemsFrom]
  | cons x xs ih => simp [itemsFrom, ih, h]

theorem extrasFrom_nil {known : List String} {f : Json → List Violation} {g : Json → Bool}
    (h : ∀ x, f x = [] ↔ g x = true) (kvs : List (String × Json)) :
    extrasFrom known f kvs = [] ↔ (kvs.all fun kv => known.contains kv.1 || g kv.2) = true := by
  induction kvs with
  | nil => simp [extrasFrom]
  | cons kv kvs ih =>
    obtain ⟨k, v⟩ := kv
    rw [extrasFrom, List.append_eq_nil_iff, ih, List.all_cons, Bool.and_eq_true]
    cases hk : known.contains k
    · simp [h]
    · simp

/-! ### closure (errors reachable through `context`) -/

/-- `error.context` -/
def Violation.ctx : Violation → List Violation
  | .oneOf _ _ c => c
  | .anyOf _ _ c => c
  | _ => []

theorem closure_nil : closure [] = [] := by simp [closure]

theorem closure_cons (v : Violation) (vs : List Violation) :
    closure (v :: vs) = v :: closure v.ctx ++ closure vs := by
  cases v <;> simp [closure, Violation.ctx]

theorem ctx_pre (e : PathElem) (v : Violation) : (v.pre e).ctx = v.ctx := by
  cases v <;> rfl

theorem closure_append (a b : List Violation) : closure (a ++ b) = closure a ++ closure b := by
  induction a with
  | nil => simp [closure_nil]
  | cons v vs ih => simp [closure_cons, ih]

theorem mem_closure_of_mem {l : List Violation} {v : Violation} (h : v ∈ l) : v ∈ closure l := by
  induction l with
  | nil => cases h
  | cons a l ih =>
    rw [closure_cons]
    rcases List.mem_cons.mp h with rfl | h
    · simp
    · simp [ih h]

theorem closure_ne_nil {l : List Violation} (h : l ≠ []) : closure l ≠ [] := by
  cases l with
  | nil => exact absurd rfl h
  | cons a l => simp [closure_cons]

theorem genuine_pre (e : PathElem) (v : Violation) : (v.pre e).genuine = v.genuine := by
  cases v <;> rfl

/-- every error reachable from the list is a genuinely failing keyword instance -/
def AllSound (l : List Violation) : Prop := ∀ v ∈ closure l, v.genuine = true

theorem allSound_nil : AllSound [] := by
  intro v hv; simp [closure_nil] at hv

theorem allSound_append {a b : List Violation} : AllSound (a ++ b) ↔ AllSound a ∧ AllSound b := by
  unfold AllSound
  rw [closure_append]
  constructor
  · intro h; exact ⟨fun v hv => h v (List.mem_append_left _ hv), fun v hv => h v (List.mem_append_right _ hv)⟩
  · rintro ⟨h1, h2⟩ v hv
    rcases List.mem_append.mp hv with hv | hv
    · exact h1 v hv
    · exact h2 v hv

theorem allSound_cons {a : Violation} {l : List Violation} :
    AllSound (a :: l) ↔ (a.genuine = true ∧ AllSound a.ctx) ∧ AllSound l := by
  unfold AllSound
  rw [closure_cons]
  constructor
  · intro h
    exact ⟨⟨h a (by simp), fun v hv => h v (by simp [hv])⟩, fun v hv => h v (by simp [hv])⟩
  · rintro ⟨⟨h1, h2⟩, h3⟩ v hv
    simp only [List.cons_append, List.mem_cons, List.mem_append] at hv
    rcases hv with rfl | hv | hv
    · exact h1
    · exact h2 v hv
    · exact h3 v hv

theorem allSound_map_pre (e : PathElem) {l : List Violation} (h : AllSound l) :
    AllSound (l.map (Violation.pre e)) := by
  induction l with
  | nil => simpa using allSound_nil
  | cons a l ih =>
    rw [List.map_cons, allSound_cons, genuine_pre, ctx_pre]
    rw [allSound_cons] at h
    exact ⟨h.1, ih h.2⟩

theorem allSound_flatten {ls : List (List Violation)} (h : ∀ l ∈ ls, AllSound l) : AllSound ls.flatten := by
  induction ls with
  | nil => simpa using allSound_nil
  | cons a ls ih =>
    rw [List.flatten_cons, allSound_append]
    exact ⟨h a (by simp), ih fun l hl => h l (by simp [hl])⟩

theorem allSound_itemsFrom {f : Json → List Violation} (h : ∀ x, AllSound (f x)) (i : Nat) (xs : List Json) :
    AllSound (itemsFrom f i xs) := by
  induction xs generalizing i with
  | nil => simpa [itemsFrom] using allSound_nil
  | cons x xs ih =>
    rw [itemsFrom, allSound_append]
    exact ⟨allSound_map_pre _ (h x), ih _⟩

theorem allSound_extrasFrom {known : List String} {f : Json → List Violation} (h : ∀ x, AllSound (f x))
    (kvs : List (String × Json)) : AllSound (extrasFrom known f kvs) := by
  induction kvs with
  | nil => simpa [extrasFrom] using allSound_nil
  | cons kv kvs ih =>
    obtain ⟨k, v⟩ := kv
    rw [extrasFrom, allSound_append]
    refine ⟨?_, ih⟩
    split
    · exact allSound_nil
    · exact allSound_map_pre _ (h v)

/-- a context-free error that is genuine -/
theorem allSound_single {v : Violation} (hc : v.ctx = []) (hg : v.genuine = true) : AllSound [v] := by
  rw [allSound_cons, hc]; exact ⟨⟨hg, allSound_nil⟩, allSound_nil⟩

theorem allSound_guardV {b : Bool} {v : Violation} (hc : v.ctx = []) (hg : b = false → v.genuine = true) :
    AllSound (guardV b v) := by
  unfold guardV
  cases b
  · simpa using allSound_single hc (hg rfl)
  · simpa using allSound_nil

theorem allSound_replicate {v : Violation} {α : Type} (l : List α) (hc : v.ctx = [])
    (hg : l ≠ [] → v.genuine = true) : AllSound (l.map fun _ => v) := by
  induction l with
  | nil => simpa using allSound_nil
  | cons a l ih =>
    rw [List.map_cons, allSound_cons, hc]
    have hv := hg (by simp)
    exact ⟨⟨hv, allSound_nil⟩, ih fun _ => hv⟩

/-! ### keys -/

theorem mem_extrasOf {known : List String} {kvs : List (String × Json)} {k : String}
    (h : k ∈ extrasOf known kvs) : hasKey (.obj kvs) k = true ∧ known.contains k = false := by
  unfold extrasOf at h
  rw [List.mem_filter] at h
  refine ⟨?_, by simpa using h.2⟩
  simp only [hasKey]
  exact List.contains_iff_mem.mpr h.1 |>.symm ▸ rfl

theorem leastKey_mem : ∀ {l : List String} {k : String}, leastKey l = some k → k ∈ l
  | [], _, h => by simp [leastKey] at h
  | a :: l, k, h => by
    simp only [leastKey] at h
    cases hm : leastKey l with
    | none => rw [hm] at h; simp at h; simp [h]
    | some m =>
      rw [hm] at h
      have := leastKey_mem hm
      by_cases hlt : a < m
      · simp [hlt] at h; simp [h]
      · simp [hlt] at h; subst h; simp [this]

theorem leastKey_isSome : ∀ {l : List String}, l ≠ [] → ∃ k, leastKey l = some k
  | [], h => absurd rfl h
  | a :: l, _ => by
    simp only [leastKey]
    cases leastKey l with
    | none => exact ⟨a, rfl⟩
    | some m => by_cases hlt : a < m <;> simp [hlt]

/-- the exposed key is minimal in code-point order: no unknown key sorts before it -/
theorem leastKey_le : ∀ {l : List String} {k : String}, leastKey l = some k → ∀ k' ∈ l, ¬ k' < k
  | [], _, h => by simp [leastKey] at h
  | a :: l, k, h => by
    simp only [leastKey] at h
    cases hm : leastKey l with
    | none =>
      rw [hm] at h
      have hl : l = [] := by
        cases l with
        | nil => rfl
        | cons b l => obtain ⟨m, hm'⟩ := leastKey_isSome (l := b :: l) (by simp); rw [hm] at hm'; cases hm'
      subst hl
      simp at h; subst h
      intro k' hk'; simp at hk'; subst hk'; exact String.lt_irrefl _
    | some m =>
      rw [hm] at h
      have ih := leastKey_le hm
      intro k' hk'
      by_cases hlt : a < m
      · simp [hlt] at h; subst h
        rcases List.mem_cons.mp hk' with rfl | hk'
        · exact String.lt_irrefl _
        · intro hlt'
          exact ih k' hk' (String.lt_trans hlt' hlt)
      · simp [hlt] at h; subst h
        rcases List.mem_cons.mp hk' with rfl | hk'
        · exact hlt
        · exact ih k' hk'

/-! ### messages -/

theorem str_ne_of_length {s : String} (h : 0 < s.length) : s ≠ "" := by
  intro hs; subst hs; simp at h

end C20
