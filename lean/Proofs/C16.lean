/- Helper lemmas for C16 (exact part): insertion sort by value, take/drop of a sorted list,
   truncation of non-negative rationals, uniqueness of the value multiset of a legal split. -/
import Model.C16
import Mathlib.Algebra.Order.Field.Rat
import Mathlib.Data.List.Sort
import Mathlib.Data.List.Perm.Basic
import Mathlib.Tactic.Linarith
import Mathlib.Tactic.Ring
import Mathlib.Tactic.Positivity

namespace C16
open List

/-! ### insertion sort by value -/

theorem insertByValue_perm {π : Type} (a : Rat × π) (l : List (Rat × π)) :
    (insertByValue a l).Perm (a :: l) := by
  induction l with
  | nil => simp [insertByValue]
  | cons b bs ih =>
    unfold insertByValue
    split_ifs
    · exact Perm.refl _
    · exact (Perm.cons b ih).trans (Perm.swap a b bs)

theorem sortByValue_perm {π : Type} (l : List (Rat × π)) : (sortByValue l).Perm l := by
  induction l with
  | nil => simp [sortByValue]
  | cons a as ih =>
    unfold sortByValue
    exact (insertByValue_perm a _).trans (Perm.cons a ih)

/-- sortedness by value -/
def SortedByValue {π : Type} (l : List (Rat × π)) : Prop := l.Pairwise (fun a b => a.1 ≤ b.1)

theorem insertByValue_sorted {π : Type} (a : Rat × π) (l : List (Rat × π)) (h : SortedByValue l) :
    SortedByValue (insertByValue a l) := by
  induction l with
  | nil => simp [insertByValue, SortedByValue]
  | cons b bs ih =>
    unfold insertByValue
    have hb : ∀ c ∈ bs, b.1 ≤ c.1 := (List.pairwise_cons.mp h).1
    have hs : SortedByValue bs := (List.pairwise_cons.mp h).2
    split_ifs with hab
    · refine List.pairwise_cons.mpr ⟨?_, h⟩
      intro c hc
      rcases List.mem_cons.mp hc with rfl | hc
      · exact le_of_lt hab
      · exact le_trans (le_of_lt hab) (hb c hc)
    · refine List.pairwise_cons.mpr ⟨?_, ih hs⟩
      intro c hc
      have hc' : c ∈ a :: bs := (insertByValue_perm a bs).subset hc
      rcases List.mem_cons.mp hc' with rfl | hc'
      · exact not_lt.mp hab
      · exact hb c hc'

theorem sortByValue_sorted {π : Type} (l : List (Rat × π)) : SortedByValue (sortByValue l) := by
  induction l with
  | nil => simp [sortByValue, SortedByValue]
  | cons a as ih =>
    unfold sortByValue
    exact insertByValue_sorted a _ ih

theorem sortByValue_length {π : Type} (l : List (Rat × π)) : (sortByValue l).length = l.length :=
  (sortByValue_perm l).length_eq

/-- In a value-sorted list everything in the first `k` entries is ≤ everything after them. -/
theorem sorted_take_le_drop {π : Type} (l : List (Rat × π)) (h : SortedByValue l) (k : Nat) :
    ∀ a ∈ l.take k, ∀ b ∈ l.drop k, a.1 ≤ b.1 := by
  have h' : SortedByValue (l.take k ++ l.drop k) := by rw [List.take_append_drop]; exact h
  exact (List.pairwise_append.mp h').2.2

theorem sorted_take {π : Type} (l : List (Rat × π)) (h : SortedByValue l) (k : Nat) :
    SortedByValue (l.take k) := List.Pairwise.sublist (List.take_sublist k l) h

theorem sorted_drop {π : Type} (l : List (Rat × π)) (h : SortedByValue l) (k : Nat) :
    SortedByValue (l.drop k) := List.Pairwise.sublist (List.drop_sublist k l) h

/-! ### truncation (`int(·)` of a non-negative product) -/

theorem natFloor_le (q : Rat) (hq : 0 ≤ q) : ((natFloor q : Nat) : Rat) ≤ q := by
  unfold natFloor
  have h0 : (0 : Int) ≤ q.floor := Rat.le_floor_iff.mpr (by simpa using hq)
  have h2 : ((q.floor.toNat : Nat) : Rat) = ((q.floor : Int) : Rat) := by
    rw [← Int.cast_natCast (R := Rat) q.floor.toNat, Int.toNat_of_nonneg h0]
  rw [h2]
  exact Rat.floor_le q

theorem lt_natFloor_add_one (q : Rat) : q < ((natFloor q : Nat) : Rat) + 1 := by
  unfold natFloor
  have h1 : q < ((q.floor + 1 : Int) : Rat) := Rat.lt_floor_add_one q
  have h2 : q.floor ≤ ((q.floor.toNat : Nat) : Int) := Int.self_le_toNat _
  have h3 : ((q.floor : Int) : Rat) ≤ ((q.floor.toNat : Nat) : Rat) := by
    rw [← Int.cast_natCast (R := Rat) q.floor.toNat]
    exact Int.cast_le.mpr h2
  have h4 : ((q.floor + 1 : Int) : Rat) = ((q.floor : Int) : Rat) + 1 := by push_cast; ring
  rw [h4] at h1
  linarith

/-- `natFloor q` is THE natural number `j` with `j ≤ q < j + 1` (for `q ≥ 0`). -/
theorem natFloor_unique (q : Rat) (j : Nat) (h1 : (j : Rat) ≤ q) (h2 : q < (j : Rat) + 1) :
    natFloor q = j := by
  have hq : 0 ≤ q := le_trans (by positivity) h1
  have a := natFloor_le q hq
  have b := lt_natFloor_add_one q
  have c1 : (j : Rat) < ((natFloor q : Nat) : Rat) + 1 := lt_of_le_of_lt h1 b
  have c2 : ((natFloor q : Nat) : Rat) < (j : Rat) + 1 := lt_of_le_of_lt a h2
  have d1 : j < natFloor q + 1 := by exact_mod_cast c1
  have d2 : natFloor q < j + 1 := by exact_mod_cast c2
  omega

theorem natFloor_lt_of_lt (q : Rat) (hq : 0 ≤ q) (m : Nat) (h : q < (m : Rat)) : natFloor q < m := by
  have a := natFloor_le q hq
  have : ((natFloor q : Nat) : Rat) < (m : Rat) := lt_of_le_of_lt a h
  exact_mod_cast this

/-! ### the multiset of lower VALUES does not depend on how ties are broken -/

theorem isSplit_values_unique {π : Type} (data : List (Rat × π)) (k : Nat)
    (l₁ g₁ l₂ g₂ : List (Rat × π)) (h₁ : IsSplit data k l₁ g₁) (h₂ : IsSplit data k l₂ g₂) :
    (l₁.map (·.1)).Perm (l₂.map (·.1)) ∧ (g₁.map (·.1)).Perm (g₂.map (·.1)) := by
  obtain ⟨p₁, n₁, o₁⟩ := h₁
  obtain ⟨p₂, n₂, o₂⟩ := h₂
  -- sort the four value lists
  let s := fun (l : List Rat) => l.insertionSort (· ≤ ·)
  have hs : ∀ l : List Rat, (s l).Pairwise (· ≤ ·) := fun l => List.pairwise_insertionSort _ l
  have hp : ∀ l : List Rat, (s l).Perm l := fun l => List.perm_insertionSort _ l
  have key : ∀ (l g : List (Rat × π)), (∀ a ∈ l, ∀ b ∈ g, a.1 ≤ b.1) →
      (s (l.map (·.1)) ++ s (g.map (·.1))).Pairwise (· ≤ ·) := by
    intro l g o
    refine List.pairwise_append.mpr ⟨hs _, hs _, ?_⟩
    intro a ha b hb
    have ha' : a ∈ l.map (·.1) := (hp _).subset ha
    have hb' : b ∈ g.map (·.1) := (hp _).subset hb
    obtain ⟨x, hx, rfl⟩ := List.mem_map.mp ha'
    obtain ⟨y, hy, rfl⟩ := List.mem_map.mp hb'
    exact o x hx y hy
  have perm : (s (l₁.map (·.1)) ++ s (g₁.map (·.1))).Perm (s (l₂.map (·.1)) ++ s (g₂.map (·.1))) := by
    have e₁ : (s (l₁.map (·.1)) ++ s (g₁.map (·.1))).Perm (data.map (·.1)) := by
      refine ((hp _).append (hp _)).trans ?_
      rw [← List.map_append]
      exact p₁.map _
    have e₂ : (s (l₂.map (·.1)) ++ s (g₂.map (·.1))).Perm (data.map (·.1)) := by
      refine ((hp _).append (hp _)).trans ?_
      rw [← List.map_append]
      exact p₂.map _
    exact e₁.trans e₂.symm
  have eq := perm.eq_of_pairwise' (key l₁ g₁ o₁) (key l₂ g₂ o₂)
  have len : (s (l₁.map (·.1))).length = (s (l₂.map (·.1))).length := by
    rw [(hp _).length_eq, (hp _).length_eq, List.length_map, List.length_map, n₁, n₂]
  obtain ⟨eL, eG⟩ := List.append_inj eq len
  constructor
  · exact (hp _).symm.trans (eL ▸ hp _)
  · exact (hp _).symm.trans (eG ▸ hp _)

/-! ### search variant: selectRows / countTrue -/

theorem countTrue_le_length (bs : List Bool) : countTrue bs ≤ bs.length := by
  induction bs with
  | nil => simp [countTrue]
  | cons b bs ih => cases b <;> simp [countTrue] <;> omega

theorem selectRows_length_add {π : Type} (ps : List π) (bs : List Bool) (h : ps.length = bs.length) :
    (selectRows ps bs false).length + (selectRows ps bs true).length = ps.length := by
  induction ps generalizing bs with
  | nil => cases bs <;> simp [selectRows]
  | cons p ps ih =>
    cases bs with
    | nil => simp at h
    | cons b bs =>
      have h' : ps.length = bs.length := by simpa using h
      have := ih bs h'
      cases b <;> simp [selectRows] <;> omega

theorem selectRows_true_length {π : Type} (ps : List π) (bs : List Bool) (h : ps.length = bs.length) :
    (selectRows ps bs true).length = countTrue bs := by
  induction ps generalizing bs with
  | nil => cases bs <;> simp_all [selectRows, countTrue]
  | cons p ps ih =>
    cases bs with
    | nil => simp at h
    | cons b bs =>
      have h' : ps.length = bs.length := by simpa using h
      have := ih bs h'
      cases b <;> simp [selectRows, countTrue] <;> omega

theorem selectRows_perm {π : Type} (ps : List π) (bs : List Bool) (h : ps.length = bs.length) :
    (selectRows ps bs false ++ selectRows ps bs true).Perm ps := by
  induction ps generalizing bs with
  | nil => cases bs <;> simp [selectRows]
  | cons p ps ih =>
    cases bs with
    | nil => simp at h
    | cons b bs =>
      have h' : ps.length = bs.length := by simpa using h
      have := ih bs h'
      cases b
      · simpa [selectRows] using this
      · have e1 : selectRows (p :: ps) (true :: bs) false = selectRows ps bs false := by
          simp [selectRows]
        have e2 : selectRows (p :: ps) (true :: bs) true = p :: selectRows ps bs true := by
          simp [selectRows]
        rw [e1, e2]
        exact (List.perm_middle).trans (Perm.cons p this)

/-- membership in the selected rows, through positions -/
theorem mem_selectRows {π : Type} (ps : List π) (bs : List Bool) (want : Bool) (x : π) :
    x ∈ selectRows ps bs want ↔ ∃ i, ∃ (h₁ : i < ps.length) (h₂ : i < bs.length), ps[i] = x ∧ bs[i] = want := by
  induction ps generalizing bs with
  | nil => cases bs <;> simp [selectRows]
  | cons p ps ih =>
    cases bs with
    | nil => simp [selectRows]
    | cons b bs =>
      unfold selectRows
      constructor
      · intro hx
        by_cases hb : (b == want) = true
        · rw [if_pos hb] at hx
          rcases List.mem_cons.mp hx with rfl | hx
          · exact ⟨0, by simp, by simp, rfl, by simpa using hb⟩
          · obtain ⟨i, h₁, h₂, e₁, e₂⟩ := (ih bs).mp hx
            exact ⟨i + 1, by simpa using h₁, by simpa using h₂, by simpa using e₁, by simpa using e₂⟩
        · rw [if_neg hb] at hx
          obtain ⟨i, h₁, h₂, e₁, e₂⟩ := (ih bs).mp hx
          exact ⟨i + 1, by simpa using h₁, by simpa using h₂, by simpa using e₁, by simpa using e₂⟩
      · rintro ⟨i, h₁, h₂, e₁, e₂⟩
        cases i with
        | zero =>
          simp only [List.getElem_cons_zero] at e₁ e₂
          subst e₁ e₂
          simp
        | succ i =>
          have hx : x ∈ selectRows ps bs want :=
            (ih bs).mpr ⟨i, by simpa using h₁, by simpa using h₂, by simpa using e₁, by simpa using e₂⟩
          split_ifs
          · exact List.mem_cons_of_mem _ hx
          · exact hx

end C16
