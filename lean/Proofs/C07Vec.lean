/- C07 helper lemmas: DE / Adam loops (inversion, monitor linkage, restriction, replacement rule). -/
import Proofs.C07

namespace C07
universe u v w
variable {P : Type u} {V : Type v} {K : Type w}

/-- image of the (random) restriction -/
def Restricted (restrict : K → P → P) (p : P) : Prop := ∃ k q, p = restrict k q

/-- a population member after one DE iteration is the old member or a trial that is not worse -/
def NeverWorse [LE V] (f : P → Option V) (m m' : P) : Prop :=
  m' = m ∨ ∃ tv, f m' = some tv ∧ ∀ x, f m = some x → x ≤ tv

/-- `R` holds between neighbours -/
def ChainR {α : Type u} (R : α → α → Prop) : List α → Prop
  | [] => True
  | [_] => True
  | a :: b :: t => R a b ∧ ChainR R (b :: t)

theorem restrictAll_restricted (restrict : K → P → P) (c : List (K × P)) :
    ∀ p ∈ restrictAll restrict c, Restricted restrict p := by
  intro p hp
  simp only [restrictAll, List.mem_map] at hp
  obtain ⟨kp, -, rfl⟩ := hp
  exact ⟨kp.1, kp.2, rfl⟩

theorem evalB_mem {f : P → Option V} {pts : List P} {e : P × Option V} (h : e ∈ evalB f pts) :
    e.1 ∈ pts ∧ e.2 = f e.1 := by
  simp only [evalB, List.mem_map] at h
  obtain ⟨p, hp, rfl⟩ := h
  exact ⟨hp, rfl⟩

theorem mem_evalB {f : P → Option V} {pts : List P} {p : P} (h : p ∈ pts) : (p, f p) ∈ evalB f pts := by
  simp only [evalB, List.mem_map]
  exact ⟨p, h, rfl⟩

theorem evalB_fst (f : P → Option V) (pts : List P) : (evalB f pts).map Prod.fst = pts := by
  simp [evalB, Function.comp_def]

theorem evalB_snd (f : P → Option V) (pts : List P) : (evalB f pts).map Prod.snd = pts.map f := by
  simp [evalB, Function.comp_def]

section
variable [LinearOrder V]

/-! ### deReplace -/

theorem deReplace_nil (b : V) (ts : List P) (tvs : List (Option V)) : deReplace b [] ts tvs = [] := by
  unfold deReplace; rfl

theorem deReplace_length (b : V) (pop ts : List P) (tvs : List (Option V)) :
    (deReplace b pop ts tvs).length = pop.length := by
  induction pop generalizing ts tvs with
  | nil => simp [deReplace_nil]
  | cons m ms ih =>
    cases ts with
    | nil => simp [deReplace]
    | cons t ts =>
      cases tvs with
      | nil => simp [deReplace]
      | cons tv tvs => simp [deReplace, ih]

theorem deReplace_mem {b : V} {pop ts : List P} {tvs : List (Option V)} {m' : P}
    (h : m' ∈ deReplace b pop ts tvs) : m' ∈ pop ∨ m' ∈ ts := by
  induction pop generalizing ts tvs with
  | nil => simp [deReplace_nil] at h
  | cons m ms ih =>
    cases ts with
    | nil => left; simpa [deReplace] using h
    | cons t ts =>
      cases tvs with
      | nil => left; simpa [deReplace] using h
      | cons tv tvs =>
        simp only [deReplace, List.mem_cons] at h
        rcases h with h | h
        · split at h
          · right; simp [h]
          · left; simp [h]
        · rcases ih h with h | h
          · left; simp [h]
          · right; simp [h]

theorem geBest_true {tv : Option V} {b : V} (h : geBest tv b = true) : ∃ x, tv = some x ∧ b ≤ x := by
  cases tv with
  | none => simp [geBest] at h
  | some x => exact ⟨x, rfl, by simpa [geBest] using h⟩

/-- the replacement rule: position by position the new member is the old one or a not-worse trial -/
theorem deReplace_neverWorse {f : P → Option V} {b : V} {pop : List P}
    (hinv : ∀ m ∈ pop, ∀ x, f m = some x → x ≤ b) (ts : List P) :
    List.Forall₂ (NeverWorse f) pop (deReplace b pop ts (ts.map f)) := by
  induction pop generalizing ts with
  | nil => simp [deReplace_nil]
  | cons m ms ih =>
    have hrefl : ∀ l : List P, List.Forall₂ (NeverWorse f) l l := by
      intro l
      induction l with
      | nil => exact List.Forall₂.nil
      | cons a l ihl => exact List.Forall₂.cons (Or.inl rfl) ihl
    cases ts with
    | nil => simpa [deReplace] using hrefl (m :: ms)
    | cons t ts =>
      simp only [List.map_cons, deReplace]
      refine List.Forall₂.cons ?_ (ih (fun m' hm' => hinv m' (List.mem_cons_of_mem _ hm')) ts)
      split
      · rename_i hge
        obtain ⟨x, hx, hbx⟩ := geBest_true hge
        exact Or.inr ⟨x, hx, fun y hy => le_trans (hinv m (List.mem_cons_self ..) y hy) hbx⟩
      · exact Or.inl rfl

/-! ### DE loop -/

theorem deLoop_nil_inv {restrict : K → P → P} {f : P → Option V} {best bf : P × V} {pop popf : List P}
    {tr : List (List (P × Option V))} {pops : List (List P)}
    (h : deLoop restrict f [] best pop = some (bf, popf, tr, pops)) :
    bf = best ∧ popf = pop ∧ tr = [] ∧ pops = [] := by
  simp only [deLoop, Option.some.injEq, Prod.mk.injEq] at h
  obtain ⟨rfl, rfl, rfl, rfl⟩ := h
  exact ⟨rfl, rfl, rfl, rfl⟩

theorem deLoop_cons_inv {restrict : K → P → P} {f : P → Option V} {c : List (K × P)}
    {cs : List (List (K × P))} {best bf : P × V} {pop popf : List P}
    {tr : List (List (P × Option V))} {pops : List (List P)}
    (h : deLoop restrict f (c :: cs) best pop = some (bf, popf, tr, pops)) :
    ∃ b' tr' pops',
      monitorStep (some best) (evalB f (restrictAll restrict c)) = some b' ∧
      deLoop restrict f cs b'
        (deReplace b'.2 pop (restrictAll restrict c) ((restrictAll restrict c).map f)) = some (bf, popf, tr', pops') ∧
      tr = evalB f (restrictAll restrict c) :: tr' ∧
      pops = deReplace b'.2 pop (restrictAll restrict c) ((restrictAll restrict c).map f) :: pops' := by
  simp only [deLoop] at h
  split at h
  · simp at h
  · rename_i b' hb'
    split at h
    · simp at h
    · rename_i bf' popf' tr' pops' hrec
      simp only [Option.some.injEq, Prod.mk.injEq] at h
      obtain ⟨rfl, rfl, rfl, rfl⟩ := h
      exact ⟨b', tr', pops', hb', hrec, rfl, rfl⟩

theorem deLoop_monitor {restrict : K → P → P} {f : P → Option V} {cs : List (List (K × P))}
    {best bf : P × V} {pop popf : List P} {tr : List (List (P × Option V))} {pops : List (List P)}
    (h : deLoop restrict f cs best pop = some (bf, popf, tr, pops)) :
    monitorAll (some best) tr = some (some bf) := by
  induction cs generalizing best pop tr pops with
  | nil => obtain ⟨rfl, rfl, rfl, rfl⟩ := deLoop_nil_inv h; rfl
  | cons c cs ih =>
    obtain ⟨b', tr', pops', hb', hrec, rfl, rfl⟩ := deLoop_cons_inv h
    simp only [monitorAll, hb']
    exact ih hrec

theorem deLoop_replay {restrict : K → P → P} {f : P → Option V} {cs : List (List (K × P))}
    {best bf : P × V} {pop popf : List P} {tr : List (List (P × Option V))} {pops : List (List P)}
    (h : deLoop restrict f cs best pop = some (bf, popf, tr, pops)) :
    deReplay best pop tr = some (bf, popf) := by
  induction cs generalizing best pop tr pops with
  | nil => obtain ⟨rfl, rfl, rfl, rfl⟩ := deLoop_nil_inv h; rfl
  | cons c cs ih =>
    obtain ⟨b', tr', pops', hb', hrec, rfl, rfl⟩ := deLoop_cons_inv h
    simp only [deReplay, hb', evalB_fst, evalB_snd]
    exact ih hrec

theorem deLoop_lengths {restrict : K → P → P} {f : P → Option V} {cs : List (List (K × P))}
    {best bf : P × V} {pop popf : List P} {tr : List (List (P × Option V))} {pops : List (List P)}
    (h : deLoop restrict f cs best pop = some (bf, popf, tr, pops)) :
    tr.length = cs.length ∧ pops.length = cs.length ∧ popf.length = pop.length := by
  induction cs generalizing best pop tr pops with
  | nil => obtain ⟨rfl, rfl, rfl, rfl⟩ := deLoop_nil_inv h; simp
  | cons c cs ih =>
    obtain ⟨b', tr', pops', hb', hrec, rfl, rfl⟩ := deLoop_cons_inv h
    obtain ⟨h1, h2, h3⟩ := ih hrec
    simp [h1, h2, h3, deReplace_length]

/-- every evaluated trial is an image of `restrict`, and the population only ever contains such -/
theorem deLoop_restricted {restrict : K → P → P} {f : P → Option V} {cs : List (List (K × P))}
    {best bf : P × V} {pop popf : List P} {tr : List (List (P × Option V))} {pops : List (List P)}
    (h : deLoop restrict f cs best pop = some (bf, popf, tr, pops))
    (hpop : ∀ m ∈ pop, Restricted restrict m) :
    (∀ batch ∈ tr, ∀ e ∈ batch, Restricted restrict e.1 ∧ e.2 = f e.1) ∧
    (∀ m ∈ popf, Restricted restrict m) ∧ (∀ pp ∈ pops, ∀ m ∈ pp, Restricted restrict m) := by
  induction cs generalizing best pop tr pops with
  | nil =>
    obtain ⟨rfl, rfl, rfl, rfl⟩ := deLoop_nil_inv h
    exact ⟨by simp, hpop, by simp⟩
  | cons c cs ih =>
    obtain ⟨b', tr', pops', hb', hrec, rfl, rfl⟩ := deLoop_cons_inv h
    have hpop' : ∀ m ∈ deReplace b'.2 pop (restrictAll restrict c) ((restrictAll restrict c).map f),
        Restricted restrict m := by
      intro m hm
      rcases deReplace_mem hm with hm | hm
      · exact hpop m hm
      · exact restrictAll_restricted restrict c m hm
    obtain ⟨h1, h2, h3⟩ := ih hrec hpop'
    refine ⟨?_, h2, ?_⟩
    · intro batch hb e he
      rcases List.mem_cons.mp hb with rfl | hb
      · obtain ⟨hm, hv⟩ := evalB_mem he
        exact ⟨restrictAll_restricted restrict c _ hm, hv⟩
      · exact h1 batch hb e he
    · intro pp hpp m hm
      rcases List.mem_cons.mp hpp with rfl | hpp
      · exact hpop' m hm
      · exact h3 pp hpp m hm

/-- loop invariant "no member is better than the stored best" and the never-worse chain -/
theorem deLoop_invariant {restrict : K → P → P} {f : P → Option V} {cs : List (List (K × P))}
    {best bf : P × V} {pop popf : List P} {tr : List (List (P × Option V))} {pops : List (List P)}
    (h : deLoop restrict f cs best pop = some (bf, popf, tr, pops))
    (hinv : ∀ m ∈ pop, ∀ x, f m = some x → x ≤ best.2) :
    (∀ m ∈ popf, ∀ x, f m = some x → x ≤ bf.2) ∧
    ChainR (List.Forall₂ (NeverWorse f)) (pop :: pops) ∧
    (pop :: pops).getLast? = some popf ∧ best.2 ≤ bf.2 := by
  induction cs generalizing best pop tr pops with
  | nil =>
    obtain ⟨rfl, rfl, rfl, rfl⟩ := deLoop_nil_inv h
    exact ⟨hinv, trivial, rfl, le_refl _⟩
  | cons c cs ih =>
    obtain ⟨b', tr', pops', hb', hrec, rfl, rfl⟩ := deLoop_cons_inv h
    have hmono : best.2 ≤ b'.2 := monitorStep_mono hb'
    have hinv1 : ∀ m ∈ pop, ∀ x, f m = some x → x ≤ b'.2 :=
      fun m hm x hx => le_trans (hinv m hm x hx) hmono
    have hinv' : ∀ m ∈ deReplace b'.2 pop (restrictAll restrict c) ((restrictAll restrict c).map f),
        ∀ x, f m = some x → x ≤ b'.2 := by
      intro m hm x hx
      rcases deReplace_mem hm with hm | hm
      · exact hinv1 m hm x hx
      · exact monitorStep_ge_batch hb' (m, f m) (mem_evalB hm) x hx
    obtain ⟨h1, h2, h3, h4⟩ := ih hrec hinv'
    refine ⟨h1, ⟨deReplace_neverWorse hinv1 _, h2⟩, ?_, le_trans hmono h4⟩
    simpa [List.getLast?_cons_cons] using h3

/-! ### Adam loop -/

theorem adamLoop_nil_inv {restrict : K → P → P} {f : P → Option V} {b bf : Option (P × V)}
    {pts ptsf : List P} {tr : List (List (P × Option V))} {pops : List (List P)}
    (h : adamLoop restrict f [] b pts = some (bf, ptsf, tr, pops)) :
    bf = b ∧ ptsf = pts ∧ tr = [] ∧ pops = [] := by
  simp only [adamLoop, Option.some.injEq, Prod.mk.injEq] at h
  obtain ⟨rfl, rfl, rfl, rfl⟩ := h
  exact ⟨rfl, rfl, rfl, rfl⟩

theorem adamLoop_cons_inv {restrict : K → P → P} {f : P → Option V} {c : List (K × P)}
    {cs : List (List (K × P))} {b bf : Option (P × V)} {pts ptsf : List P}
    {tr : List (List (P × Option V))} {pops : List (List P)}
    (h : adamLoop restrict f (c :: cs) b pts = some (bf, ptsf, tr, pops)) :
    ∃ b' tr' pops',
      monitorStep b (evalB f pts) = some b' ∧
      adamLoop restrict f cs (some b') (restrictAll restrict c) = some (bf, ptsf, tr', pops') ∧
      tr = evalB f pts :: tr' ∧ pops = restrictAll restrict c :: pops' := by
  simp only [adamLoop] at h
  split at h
  · simp at h
  · rename_i b' hb'
    split at h
    · simp at h
    · rename_i bf' ptsf' tr' pops' hrec
      simp only [Option.some.injEq, Prod.mk.injEq] at h
      obtain ⟨rfl, rfl, rfl, rfl⟩ := h
      exact ⟨b', tr', pops', hb', hrec, rfl, rfl⟩

theorem adamLoop_monitor {restrict : K → P → P} {f : P → Option V} {cs : List (List (K × P))}
    {b bf : Option (P × V)} {pts ptsf : List P} {tr : List (List (P × Option V))} {pops : List (List P)}
    (h : adamLoop restrict f cs b pts = some (bf, ptsf, tr, pops)) :
    monitorAll b tr = some bf := by
  induction cs generalizing b pts tr pops with
  | nil => obtain ⟨rfl, rfl, rfl, rfl⟩ := adamLoop_nil_inv h; rfl
  | cons c cs ih =>
    obtain ⟨b', tr', pops', hb', hrec, rfl, rfl⟩ := adamLoop_cons_inv h
    simp only [monitorAll, hb']
    exact ih hrec

theorem adamLoop_restricted {restrict : K → P → P} {f : P → Option V} {cs : List (List (K × P))}
    {b bf : Option (P × V)} {pts ptsf : List P} {tr : List (List (P × Option V))} {pops : List (List P)}
    (h : adamLoop restrict f cs b pts = some (bf, ptsf, tr, pops))
    (hpts : ∀ m ∈ pts, Restricted restrict m) :
    (∀ batch ∈ tr, ∀ e ∈ batch, Restricted restrict e.1 ∧ e.2 = f e.1) ∧
    (∀ m ∈ ptsf, Restricted restrict m) := by
  induction cs generalizing b pts tr pops with
  | nil =>
    obtain ⟨rfl, rfl, rfl, rfl⟩ := adamLoop_nil_inv h
    exact ⟨by simp, hpts⟩
  | cons c cs ih =>
    obtain ⟨b', tr', pops', hb', hrec, rfl, rfl⟩ := adamLoop_cons_inv h
    obtain ⟨h1, h2⟩ := ih hrec (restrictAll_restricted restrict c)
    refine ⟨?_, h2⟩
    intro batch hb e he
    rcases List.mem_cons.mp hb with rfl | hb
    · obtain ⟨hm, hv⟩ := evalB_mem he
      exact ⟨hpts _ hm, hv⟩
    · exact h1 batch hb e he

/-- the restricted starts are the first batch Adam evaluates, whatever `maxiter` is -/
theorem adamLoop_first_batch {restrict : K → P → P} {f : P → Option V} {cs : List (List (K × P))}
    {b bf : Option (P × V)} {pts ptsf : List P} {tr : List (List (P × Option V))} {pops : List (List P)}
    (h : adamLoop restrict f cs b pts = some (bf, ptsf, tr, pops)) :
    (tr ++ [evalB f ptsf]).head? = some (evalB f pts) := by
  cases cs with
  | nil => obtain ⟨rfl, rfl, rfl, rfl⟩ := adamLoop_nil_inv h; rfl
  | cons c cs =>
    obtain ⟨b', tr', pops', hb', hrec, rfl, rfl⟩ := adamLoop_cons_inv h
    rfl

theorem adamLoop_lengths {restrict : K → P → P} {f : P → Option V} {cs : List (List (K × P))}
    {b bf : Option (P × V)} {pts ptsf : List P} {tr : List (List (P × Option V))} {pops : List (List P)}
    (h : adamLoop restrict f cs b pts = some (bf, ptsf, tr, pops)) :
    tr.length = cs.length ∧ pops.length = cs.length := by
  induction cs generalizing b pts tr pops with
  | nil => obtain ⟨rfl, rfl, rfl, rfl⟩ := adamLoop_nil_inv h; simp
  | cons c cs ih =>
    obtain ⟨b', tr', pops', hb', hrec, rfl, rfl⟩ := adamLoop_cons_inv h
    obtain ⟨h1, h2⟩ := ih hrec
    simp [h1, h2]

end
end C07
