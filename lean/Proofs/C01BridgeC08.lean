/- Bridge between C08's box/constraint model and the shared domain model: the relaxed polytope of a domain IS
   the C08 polytope (relaxedBox, one-hot constraint rows), so C08's restriction theorem yields `inRelaxed`. -/
import Model.C08
import Model.Domain
import Properties.C09

namespace C01Bridge
open Dom

theorem dot_eq : ∀ (a b : List Rat), C08.dot a b = Dom.dot a b
  | [], _ => by cases ‹List Rat› <;> rfl
  | _ :: _, [] => rfl
  | x :: xs, y :: ys => by simp only [C08.dot, Dom.dot, dot_eq xs ys]

theorem inBox_eq : ∀ (bx : List (Rat × Rat)) (x : List Rat), C08.inBox bx x = withinBounds bx x
  | [], [] => rfl
  | [], _ :: _ => rfl
  | _ :: _, [] => rfl
  | (l, h) :: bx, v :: vs => by simp only [C08.inBox, withinBounds, inBox_eq bx vs]

/-- the domain's constraints in one-hot coordinates, as C08 constraints -/
def toCons (d : Domain) : List C08.Con := d.cons.map fun c => { w := ohWeights d.comps c.weights, rhs := c.rhs }

/-- A point that is in the C08 box `relaxedBox` and satisfies every one-hot constraint is in the relaxed polytope. -/
theorem inRelaxed_of_c08 (d : Domain) (x : List Rat) (hb : C08.inBox (relaxedBox d.comps) x = true)
    (hc : ∀ c ∈ toCons d, c.rhs ≤ C08.dot c.w x) : inRelaxed d x = true := by
  simp only [inRelaxed, Bool.and_eq_true, List.all_eq_true, decide_eq_true_eq]
  constructor
  · rw [(C09.relaxedBox_faithful d.comps x).1, ← inBox_eq]; exact hb
  · intro c hcm
    have := hc { w := ohWeights d.comps c.weights, rhs := c.rhs } (by
      simp only [toCons, List.mem_map]; exact ⟨c, hcm, rfl⟩)
    simpa only [dot_eq] using this

end C01Bridge
