/-
  Positive semi-definiteness of the Matérn profiles exp(−r), (1+r)exp(−r), (1+r+r²/3)exp(−r) of C03,
  in every dimension, as scale mixtures of Gaussians.

  Layer 1 (`psd_of_gaussian_mixture_measure`, `psd_of_gaussian_mixture`): a profile that is a
  non-negative mixture of Gaussians `exp(−g·r²)` has positive semi-definite Gram matrices.
-/
import Model.Kernels
import Proofs.ArithReal
import Proofs.C03Lemmas
import Proofs.C03Psd
import Mathlib.MeasureTheory.Integral.Bochner.Basic
import Mathlib.MeasureTheory.Integral.Bochner.Set
import Mathlib.MeasureTheory.Measure.Lebesgue.Basic

open Matrix MeasureTheory

namespace Kernels

/-! ### Layer 1: mixtures of Gaussians are positive semi-definite -/

/-- The Gaussian `exp(−g·r²)` with any rate `g ≥ 0` has a non-negative quadratic form on the weighted
    squared distances `r2` (rescale the points by `√(2g)` in `gauss_psd`). -/
theorem gauss_rate_quadform {n d : Nat} {g : ℝ} (hg : 0 ≤ g) (l : Fin d → ℝ) (pts : Fin n → Fin d → ℝ)
    (c : Fin n → ℝ) :
    0 ≤ ∑ i, ∑ j, c i *
      Real.exp (-(g * r2 (List.ofFn l) (List.ofFn (pts i)) (List.ofFn (pts j)))) * c j := by
  obtain ⟨q, hq⟩ : ∃ q : ℝ, q * q = 2 * g := ⟨Real.sqrt (2 * g), Real.mul_self_sqrt (by positivity)⟩
  have h := quadform_of_psd (gauss_psd d (fun i k => q * (pts i k / l k))) c
  refine le_of_le_of_eq h ?_
  refine Finset.sum_congr rfl fun i _ => Finset.sum_congr rfl fun j _ => ?_
  simp only [Matrix.of_apply, r2_ofFn]
  congr 2
  have : ∀ k, (q * (pts i k / l k) - q * (pts j k / l k)) * (q * (pts i k / l k) - q * (pts j k / l k))
      = (2 * g) * ((pts i k - pts j k) / l k) ^ 2 := by
    intro k
    rw [← hq, sub_div]; ring
  simp only [this, ← Finset.mul_sum]
  congr 1
  ring

/-- **Mixture of Gaussians ⇒ PSD** (general form).  If, on `[0, ∞)`, the profile `φ` (a function of
    the squared distance `d = r²`) is `φ d = ∫ w(ω) · exp(−g(ω)·d) dμ(ω)` with `w ≥ 0`, `g ≥ 0`
    almost everywhere and integrable integrands, then all its Gram matrices are PSD — every dimension,
    all length scales, all points. -/
theorem psd_of_gaussian_mixture_measure {Ω : Type*} [MeasurableSpace Ω] (μ : Measure Ω)
    (φ : ℝ → ℝ) (w g : Ω → ℝ)
    (hw : ∀ᵐ ω ∂μ, 0 ≤ w ω) (hg : ∀ᵐ ω ∂μ, 0 ≤ g ω)
    (hint : ∀ d : ℝ, 0 ≤ d → Integrable (fun ω => w ω * Real.exp (-(g ω * d))) μ)
    (hφ : ∀ d : ℝ, 0 ≤ d → φ d = ∫ ω, w ω * Real.exp (-(g ω * d)) ∂μ)
    {n d : Nat} (l : Fin d → ℝ) (pts : Fin n → Fin d → ℝ) :
    (gramMatrix (fun x z : Fin d → ℝ => φ (r2 (List.ofFn l) (List.ofFn x) (List.ofFn z))) pts).PosSemidef := by
  refine psd_of_quadform _ ?_ ?_
  · intro i j
    simp only [gramMatrix_apply]
    rw [r2_symm']
  · intro c
    set D : Fin n → Fin n → ℝ := fun i j => r2 (List.ofFn l) (List.ofFn (pts i)) (List.ofFn (pts j))
      with hD
    have hD0 : ∀ i j, 0 ≤ D i j := fun i j => r2_nonneg' _ _ _
    have hI : ∀ i j, Integrable (fun ω => c i * (w ω * Real.exp (-(g ω * D i j))) * c j) μ :=
      fun i j => ((hint (D i j) (hD0 i j)).const_mul (c i)).mul_const (c j)
    have e : ∑ i, ∑ j, c i * gramMatrix (fun x z : Fin d → ℝ =>
          φ (r2 (List.ofFn l) (List.ofFn x) (List.ofFn z))) pts i j * c j
        = ∫ ω, ∑ i, ∑ j, c i * (w ω * Real.exp (-(g ω * D i j))) * c j ∂μ := by
      rw [integral_finsetSum _ (fun i _ => integrable_finsetSum _ (fun j _ => hI i j))]
      refine Finset.sum_congr rfl fun i _ => ?_
      rw [integral_finsetSum _ (fun j _ => hI i j)]
      refine Finset.sum_congr rfl fun j _ => ?_
      rw [gramMatrix_apply, hφ _ (hD0 i j), integral_mul_const, integral_const_mul]
    rw [e]
    refine integral_nonneg_of_ae ?_
    filter_upwards [hw, hg] with ω hwω hgω
    have h := gauss_rate_quadform hgω l pts c
    have e2 : ∑ i, ∑ j, c i * (w ω * Real.exp (-(g ω * D i j))) * c j
        = w ω * ∑ i, ∑ j, c i * Real.exp (-(g ω * D i j)) * c j := by
      rw [Finset.mul_sum]
      refine Finset.sum_congr rfl fun i _ => ?_
      rw [Finset.mul_sum]
      refine Finset.sum_congr rfl fun j _ => by ring
    show (0 : ℝ) ≤ ∑ i, ∑ j, c i * (w ω * Real.exp (-(g ω * D i j))) * c j
    rw [e2]
    exact mul_nonneg hwω h

/-- **Mixture of Gaussians ⇒ PSD**, in the rate parameter `s ∈ (0, ∞)`:
    `φ d = ∫_0^∞ w(s) · exp(−s·d) ds` with `w ≥ 0` on `(0, ∞)`. -/
theorem psd_of_gaussian_mixture (φ w : ℝ → ℝ)
    (hw : ∀ s ∈ Set.Ioi (0 : ℝ), 0 ≤ w s)
    (hint : ∀ d : ℝ, 0 ≤ d → IntegrableOn (fun s => w s * Real.exp (-(s * d))) (Set.Ioi 0))
    (hφ : ∀ d : ℝ, 0 ≤ d → φ d = ∫ s in Set.Ioi 0, w s * Real.exp (-(s * d)))
    {n d : Nat} (l : Fin d → ℝ) (pts : Fin n → Fin d → ℝ) :
    (gramMatrix (fun x z : Fin d → ℝ => φ (r2 (List.ofFn l) (List.ofFn x) (List.ofFn z))) pts).PosSemidef := by
  refine psd_of_gaussian_mixture_measure (volume.restrict (Set.Ioi (0 : ℝ))) φ w (fun s => s) ?_ ?_
    hint hφ l pts
  · exact (ae_restrict_iff' measurableSet_Ioi).mpr (Filter.Eventually.of_forall hw)
  · exact (ae_restrict_iff' measurableSet_Ioi).mpr
      (Filter.Eventually.of_forall fun s hs => le_of_lt hs)

end Kernels
