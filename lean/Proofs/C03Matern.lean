/-
  Positive semi-definiteness of the Matérn profiles exp(−r), (1+r)exp(−r), (1+r+r²/3)exp(−r) of C03,
  in every dimension, as scale mixtures of Gaussians.

  Layer 1 (`psd_of_gaussian_mixture_measure`, `psd_of_gaussian_mixture`): a profile that is a
  non-negative mixture of Gaussians `exp(−g·r²)` has positive semi-definite Gram matrices.

  Layer 2 (`c0_mixture`, `c2_mixture`, `c4_mixture`): with the rate `g(x) = 1/(4x²)`, x ∈ (0, ∞),
      exp(−r)            = ∫_0^∞ (2/√π)     e^{−x²} · exp(−g(x)·r²) dx
      (1+r) exp(−r)      = ∫_0^∞ (4/√π) x²  e^{−x²} · exp(−g(x)·r²) dx
      (1+r+r²/3) exp(−r) = ∫_0^∞ (8/(3√π)) x⁴ e^{−x²} · exp(−g(x)·r²) dx
  (Proofs/C03MaternIntegrals.lean: Cauchy–Schlömilch integral by Glasser's substitution, then two
  integrations by parts).  [Substituting s = 1/(4x²) gives the usual inverse-gamma weights
  `s^(−ν−1) e^{−1/(4s)}`, ν = 1/2, 3/2, 5/2: `c0_mixture_rate`, `c2_mixture_rate`, `c4_mixture_rate`,
  and the classical `exp_neg_eq_gaussian_mixture`:
      exp(−r) = ∫_0^∞ (1/(2√π)) s^(−3/2) e^{−1/(4s)} · e^{−s r²} ds   (r ≥ 0).]

  Layer 3 (`c0_profile_gram_psd`, `c2_profile_gram_psd`, `c4_profile_gram_psd`,
  `profile_gram_psd`): the Gram matrix of every radial profile of the model is PSD, in every
  dimension, for all length scales and all points.
-/
import Model.Kernels
import Proofs.ArithReal
import Proofs.C03Lemmas
import Proofs.C03Psd
import Proofs.C03MaternIntegrals
import Mathlib.MeasureTheory.Integral.Bochner.Basic
import Mathlib.MeasureTheory.Integral.Bochner.Set
import Mathlib.MeasureTheory.Measure.Lebesgue.Basic

open Matrix MeasureTheory Set MaternInt

namespace Kernels

/-! ### Layer 1: mixtures of Gaussians are positive semi-definite -/

/-- The Gaussian `exp(−g·r²)` with any rate `g ≥ 0` has a non-negative quadratic form on the weighted
    squared distances `r2` (rescale the points by `√(2g)` in `gauss_psd`). -/
theorem gauss_rate_quadform {n d : Nat} {g : ℝ} (hg : 0 ≤ g) (l : Fin d → ℝ) (pts : Fin n → Fin d → ℝ)
    (c : Fin n → ℝ) :
    0 ≤ ∑ i, ∑ j, c i *
      Real.exp (-(g * r2 (List.ofFn l) (List.ofFn (pts i)) (List.ofFn (pts j)))) * c j := by
  obtain ⟨q, hq⟩ : ∃ q : ℝ, q * q = 2 * g := ⟨Real.sqrt (2 * g), Real.mul_self_sqrt (by positivity)⟩
  have h := quadform_of_psd (gauss_psd d (fun i k => q * (pts i k / l k))) c
  refine le_of_le_of_eq h ?_
  refine Finset.sum_congr rfl fun i _ => Finset.sum_congr rfl fun j _ => ?_
  simp only [Matrix.of_apply, r2_ofFn]
  congr 2
  have : ∀ k, (q * (pts i k / l k) - q * (pts j k / l k)) * (q * (pts i k / l k) - q * (pts j k / l k))
      = (2 * g) * ((pts i k - pts j k) / l k) ^ 2 := by
    intro k
    rw [← hq, sub_div]; ring
  simp only [this, ← Finset.mul_sum]
  congr 1
  ring

/-- **Mixture of Gaussians ⇒ PSD** (general form).  If, on `[0, ∞)`, the profile `φ` (a function of
    the squared distance `d = r²`) is `φ d = ∫ w(ω) · exp(−g(ω)·d) dμ(ω)` with `w ≥ 0`, `g ≥ 0`
    almost everywhere and integrable integrands, then all its Gram matrices are PSD — every dimension,
    all length scales, all points. -/
theorem psd_of_gaussian_mixture_measure {Ω : Type*} [MeasurableSpace Ω] (μ : Measure Ω)
    (φ : ℝ → ℝ) (w g : Ω → ℝ)
    (hw : ∀ᵐ ω ∂μ, 0 ≤ w ω) (hg : ∀ᵐ ω ∂μ, 0 ≤ g ω)
    (hint : ∀ d : ℝ, 0 ≤ d → Integrable (fun ω => w ω * Real.exp (-(g ω * d))) μ)
    (hφ : ∀ d : ℝ, 0 ≤ d → φ d = ∫ ω, w ω * Real.exp (-(g ω * d)) ∂μ)
    {n d : Nat} (l : Fin d → ℝ) (pts : Fin n → Fin d → ℝ) :
    (gramMatrix (fun x z : Fin d → ℝ => φ (r2 (List.ofFn l) (List.ofFn x) (List.ofFn z))) pts).PosSemidef := by
  refine psd_of_quadform _ ?_ ?_
  · intro i j
    simp only [gramMatrix_apply]
    rw [r2_symm']
  · intro c
    set D : Fin n → Fin n → ℝ := fun i j => r2 (List.ofFn l) (List.ofFn (pts i)) (List.ofFn (pts j))
      with hD
    have hD0 : ∀ i j, 0 ≤ D i j := fun i j => r2_nonneg' _ _ _
    have hI : ∀ i j, Integrable (fun ω => c i * (w ω * Real.exp (-(g ω * D i j))) * c j) μ :=
      fun i j => ((hint (D i j) (hD0 i j)).const_mul (c i)).mul_const (c j)
    have e : ∑ i, ∑ j, c i * gramMatrix (fun x z : Fin d → ℝ =>
          φ (r2 (List.ofFn l) (List.ofFn x) (List.ofFn z))) pts i j * c j
        = ∫ ω, ∑ i, ∑ j, c i * (w ω * Real.exp (-(g ω * D i j))) * c j ∂μ := by
      rw [integral_finsetSum _ (fun i _ => integrable_finsetSum _ (fun j _ => hI i j))]
      refine Finset.sum_congr rfl fun i _ => ?_
      rw [integral_finsetSum _ (fun j _ => hI i j)]
      refine Finset.sum_congr rfl fun j _ => ?_
      rw [gramMatrix_apply, hφ _ (hD0 i j), integral_mul_const, integral_const_mul]
    rw [e]
    refine integral_nonneg_of_ae ?_
    filter_upwards [hw, hg] with ω hwω hgω
    have h := gauss_rate_quadform hgω l pts c
    have e2 : ∑ i, ∑ j, c i * (w ω * Real.exp (-(g ω * D i j))) * c j
        = w ω * ∑ i, ∑ j, c i * Real.exp (-(g ω * D i j)) * c j := by
      rw [Finset.mul_sum]
      refine Finset.sum_congr rfl fun i _ => ?_
      rw [Finset.mul_sum]
      refine Finset.sum_congr rfl fun j _ => by ring
    show (0 : ℝ) ≤ ∑ i, ∑ j, c i * (w ω * Real.exp (-(g ω * D i j))) * c j
    rw [e2]
    exact mul_nonneg hwω h

/-- **Mixture of Gaussians ⇒ PSD**, in the rate parameter `s ∈ (0, ∞)`:
    `φ d = ∫_0^∞ w(s) · exp(−s·d) ds` with `w ≥ 0` on `(0, ∞)`. -/
theorem psd_of_gaussian_mixture (φ w : ℝ → ℝ)
    (hw : ∀ s ∈ Set.Ioi (0 : ℝ), 0 ≤ w s)
    (hint : ∀ d : ℝ, 0 ≤ d → IntegrableOn (fun s => w s * Real.exp (-(s * d))) (Set.Ioi 0))
    (hφ : ∀ d : ℝ, 0 ≤ d → φ d = ∫ s in Set.Ioi 0, w s * Real.exp (-(s * d)))
    {n d : Nat} (l : Fin d → ℝ) (pts : Fin n → Fin d → ℝ) :
    (gramMatrix (fun x z : Fin d → ℝ => φ (r2 (List.ofFn l) (List.ofFn x) (List.ofFn z))) pts).PosSemidef := by
  refine psd_of_gaussian_mixture_measure (volume.restrict (Set.Ioi (0 : ℝ))) φ w (fun s => s) ?_ ?_
    hint hφ l pts
  · exact (ae_restrict_iff' measurableSet_Ioi).mpr (Filter.Eventually.of_forall hw)
  · exact (ae_restrict_iff' measurableSet_Ioi).mpr
      (Filter.Eventually.of_forall fun s hs => le_of_lt hs)

/-! ### Layer 2: the three Matérn profiles as mixtures of Gaussians -/

/-- the integrand of the mixtures, in terms of `MaternInt.E` with `b = √d / 2` -/
theorem mix_integrand (c : ℝ) (m : ℕ) {d : ℝ} (hd : 0 ≤ d) (x : ℝ) :
    c * x ^ m * Real.exp (-x ^ 2) * Real.exp (-(1 / (4 * x ^ 2) * d))
      = c * (x ^ m * MaternInt.E (Real.sqrt d / 2) x) := by
  unfold MaternInt.E
  have hb : (Real.sqrt d / 2) ^ 2 = d / 4 := by rw [div_pow, Real.sq_sqrt hd]; norm_num
  rw [hb, mul_assoc, mul_assoc, ← Real.exp_add]
  congr 3
  ring

/-- A profile of the form `c · ∫_0^∞ x^m e^{−x²} exp(−d/(4x²)) dx` (c ≥ 0, m even) has PSD Gram
    matrices. -/
theorem psd_of_E_moment (φ : ℝ → ℝ) {c : ℝ} (hc : 0 ≤ c) {m : ℕ} (hm : Even m)
    (hφ : ∀ d : ℝ, 0 ≤ d → φ d = c * ∫ x in Set.Ioi 0, x ^ m * MaternInt.E (Real.sqrt d / 2) x)
    {n d : Nat} (l : Fin d → ℝ) (pts : Fin n → Fin d → ℝ) :
    (gramMatrix (fun x z : Fin d → ℝ => φ (r2 (List.ofFn l) (List.ofFn x) (List.ofFn z))) pts).PosSemidef := by
  refine psd_of_gaussian_mixture_measure (volume.restrict (Set.Ioi (0 : ℝ))) φ
    (fun x => c * x ^ m * Real.exp (-x ^ 2)) (fun x => 1 / (4 * x ^ 2)) ?_ ?_ ?_ ?_ l pts
  · refine Filter.Eventually.of_forall fun x => ?_
    exact mul_nonneg (mul_nonneg hc (hm.pow_nonneg x)) (Real.exp_pos _).le
  · exact Filter.Eventually.of_forall fun x => by positivity
  · intro d hd
    simp only [mix_integrand c m hd]
    exact (MaternInt.integrableOn_pow_mul_E m _).const_mul c
  · intro d hd
    simp only [mix_integrand c m hd]
    rw [integral_const_mul, hφ d hd]

theorem sqrt_pi_ne_zero : Real.sqrt Real.pi ≠ 0 := (Real.sqrt_pos.mpr Real.pi_pos).ne'

/-- `exp(−√d) = (2/√π) ∫_0^∞ e^{−x²} exp(−d/(4x²)) dx` -/
theorem c0_moment {d : ℝ} (_hd : 0 ≤ d) :
    phi Kind.c0 d = 2 / Real.sqrt Real.pi * ∫ x in Set.Ioi 0, x ^ 0 * MaternInt.E (Real.sqrt d / 2) x := by
  have hb : 0 ≤ Real.sqrt d / 2 := by positivity
  have h := MaternInt.integral_E hb
  simp only [pow_zero, one_mul, h, phi, Arith.real_exp, Arith.real_sqrt]
  have := sqrt_pi_ne_zero
  rw [show 2 * (Real.sqrt d / 2) = Real.sqrt d by ring]
  field_simp

/-- `(1+√d) exp(−√d) = (4/√π) ∫_0^∞ x² e^{−x²} exp(−d/(4x²)) dx` -/
theorem c2_moment {d : ℝ} (_hd : 0 ≤ d) :
    phi Kind.c2 d = 4 / Real.sqrt Real.pi * ∫ x in Set.Ioi 0, x ^ 2 * MaternInt.E (Real.sqrt d / 2) x := by
  have hb : 0 ≤ Real.sqrt d / 2 := by positivity
  have h := MaternInt.integral_sq_mul_E hb
  simp only [h, phi, Arith.real_exp, Arith.real_sqrt]
  have := sqrt_pi_ne_zero
  rw [show 2 * (Real.sqrt d / 2) = Real.sqrt d by ring]
  field_simp

/-- `(1+√d+d/3) exp(−√d) = (8/(3√π)) ∫_0^∞ x⁴ e^{−x²} exp(−d/(4x²)) dx` -/
theorem c4_moment {d : ℝ} (hd : 0 ≤ d) :
    phi Kind.c4 d
      = 8 / (3 * Real.sqrt Real.pi) * ∫ x in Set.Ioi 0, x ^ 4 * MaternInt.E (Real.sqrt d / 2) x := by
  have hb : 0 ≤ Real.sqrt d / 2 := by positivity
  have h := MaternInt.integral_pow_four_mul_E hb
  simp only [h, phi, Arith.real_exp, Arith.real_sqrt, three_real]
  have := sqrt_pi_ne_zero
  have hs : Real.sqrt d ^ 2 = d := Real.sq_sqrt hd
  rw [show 2 * (Real.sqrt d / 2) = Real.sqrt d by ring,
    show 3 + 6 * (Real.sqrt d / 2) + 4 * (Real.sqrt d / 2) ^ 2 = 3 + 3 * Real.sqrt d + d by rw [div_pow, hs]; ring]
  field_simp

/-- **C0 Matérn as a Gaussian mixture**: for `d = r² ≥ 0`,
    `exp(−r) = ∫_0^∞ (2/√π) e^{−x²} · exp(−(1/(4x²))·r²) dx`. -/
theorem c0_mixture {d : ℝ} (hd : 0 ≤ d) :
    phi Kind.c0 d = ∫ x in Set.Ioi 0,
      2 / Real.sqrt Real.pi * x ^ 0 * Real.exp (-x ^ 2) * Real.exp (-(1 / (4 * x ^ 2) * d)) := by
  simp only [mix_integrand _ 0 hd]
  rw [integral_const_mul, c0_moment hd]

/-- **C2 Matérn as a Gaussian mixture**:
    `(1+r) exp(−r) = ∫_0^∞ (4/√π) x² e^{−x²} · exp(−(1/(4x²))·r²) dx`. -/
theorem c2_mixture {d : ℝ} (hd : 0 ≤ d) :
    phi Kind.c2 d = ∫ x in Set.Ioi 0,
      4 / Real.sqrt Real.pi * x ^ 2 * Real.exp (-x ^ 2) * Real.exp (-(1 / (4 * x ^ 2) * d)) := by
  simp only [mix_integrand _ 2 hd]
  rw [integral_const_mul, c2_moment hd]

/-- **C4 Matérn as a Gaussian mixture**:
    `(1+r+r²/3) exp(−r) = ∫_0^∞ (8/(3√π)) x⁴ e^{−x²} · exp(−(1/(4x²))·r²) dx`. -/
theorem c4_mixture {d : ℝ} (hd : 0 ≤ d) :
    phi Kind.c4 d = ∫ x in Set.Ioi 0,
      8 / (3 * Real.sqrt Real.pi) * x ^ 4 * Real.exp (-x ^ 2) * Real.exp (-(1 / (4 * x ^ 2) * d)) := by
  simp only [mix_integrand _ 4 hd]
  rw [integral_const_mul, c4_moment hd]

/-! ### Layer 3: Gram matrices of the Matérn profiles are positive semi-definite -/

/-- Gram matrix of the C0 Matérn profile `exp(−r)` is PSD: every dimension, all length scales, all
    points. -/
theorem c0_profile_gram_psd {n d : Nat} (l : Fin d → ℝ) (pts : Fin n → Fin d → ℝ) :
    (gramMatrix (fun x z : Fin d → ℝ => phi Kind.c0 (r2 (List.ofFn l) (List.ofFn x) (List.ofFn z))) pts).PosSemidef :=
  psd_of_E_moment (phi Kind.c0) (by positivity) (by decide : Even 0) (fun _ hd => c0_moment hd) l pts

/-- Gram matrix of the C2 Matérn profile `(1+r) exp(−r)` is PSD. -/
theorem c2_profile_gram_psd {n d : Nat} (l : Fin d → ℝ) (pts : Fin n → Fin d → ℝ) :
    (gramMatrix (fun x z : Fin d → ℝ => phi Kind.c2 (r2 (List.ofFn l) (List.ofFn x) (List.ofFn z))) pts).PosSemidef :=
  psd_of_E_moment (phi Kind.c2) (by positivity) (by decide : Even 2) (fun _ hd => c2_moment hd) l pts

/-- Gram matrix of the C4 Matérn profile `(1+r+r²/3) exp(−r)` is PSD. -/
theorem c4_profile_gram_psd {n d : Nat} (l : Fin d → ℝ) (pts : Fin n → Fin d → ℝ) :
    (gramMatrix (fun x z : Fin d → ℝ => phi Kind.c4 (r2 (List.ofFn l) (List.ofFn x) (List.ofFn z))) pts).PosSemidef :=
  psd_of_E_moment (phi Kind.c4) (by positivity) (by decide : Even 4) (fun _ hd => c4_moment hd) l pts

/-- all four radial profiles of the model -/
theorem profile_gram_psd (k : Kind) {n d : Nat} (l : Fin d → ℝ) (pts : Fin n → Fin d → ℝ) :
    (gramMatrix (fun x z : Fin d → ℝ => phi k (r2 (List.ofFn l) (List.ofFn x) (List.ofFn z))) pts).PosSemidef := by
  cases k
  · exact se_profile_gram_psd l pts
  · exact c0_profile_gram_psd l pts
  · exact c2_profile_gram_psd l pts
  · exact c4_profile_gram_psd l pts

/-! ### The same mixtures in the rate parameter s = 1/(4x²): inverse-gamma weights -/

/-- x-form integrands are integrable -/
theorem integrableOn_mix (c : ℝ) (m : ℕ) {d : ℝ} (hd : 0 ≤ d) :
    IntegrableOn (fun x : ℝ => c * x ^ m * Real.exp (-x ^ 2) * Real.exp (-(1 / (4 * x ^ 2) * d))) (Ioi 0) := by
  simp only [mix_integrand c m hd]
  exact (integrableOn_pow_mul_E m _).const_mul c

/-- transfer of an x-form mixture identity to the rate form -/
theorem rate_of_mix (φ : ℝ → ℝ) (a : ℝ) (k : ℕ)
    (hφ : ∀ d : ℝ, 0 ≤ d → φ d = ∫ x in Ioi 0,
      a * 4 ^ (k + 1) * x ^ (2 * k) * Real.exp (-x ^ 2) * Real.exp (-(1 / (4 * x ^ 2) * d)))
    {d : ℝ} (hd : 0 ≤ d) :
    IntegrableOn (fun s => wRate a (2 * k + 3) s * Real.exp (-(s * d))) (Ioi 0) ∧
    φ d = ∫ s in Ioi 0, wRate a (2 * k + 3) s * Real.exp (-(s * d)) := by
  constructor
  · rw [integrableOn_comp_rate]
    refine (integrableOn_mix (a * 4 ^ (k + 1)) (2 * k) hd).congr_fun (fun x hx => ?_) measurableSet_Ioi
    exact (rate_integrand a k d hx).symm
  · rw [integral_comp_rate, hφ d hd]
    refine setIntegral_congr_fun measurableSet_Ioi fun x hx => ?_
    exact (rate_integrand a k d hx).symm

/-- `exp(−√d) = ∫_0^∞ w0(s) e^{−s d} ds`, `w0(s) = s^(−3/2) e^{−1/(4s)} / (2√π)` -/
theorem c0_mixture_rate {d : ℝ} (hd : 0 ≤ d) :
    IntegrableOn (fun s => wRate (1 / (2 * Real.sqrt Real.pi)) 3 s * Real.exp (-(s * d))) (Ioi 0) ∧
    phi Kind.c0 d = ∫ s in Ioi 0, wRate (1 / (2 * Real.sqrt Real.pi)) 3 s * Real.exp (-(s * d)) := by
  refine rate_of_mix (phi Kind.c0) (1 / (2 * Real.sqrt Real.pi)) 0 (fun d hd => ?_) hd
  rw [c0_mixture hd]
  have := sqrt_pi_ne_zero
  refine setIntegral_congr_fun measurableSet_Ioi fun x _ => ?_
  show _ = 1 / (2 * Real.sqrt Real.pi) * 4 ^ (0 + 1) * x ^ (2 * 0) * _ * _
  congr 3
  field_simp
  norm_num

/-- `(1+√d) exp(−√d) = ∫_0^∞ w2(s) e^{−s d} ds`, `w2(s) = s^(−5/2) e^{−1/(4s)} / (4√π)` -/
theorem c2_mixture_rate {d : ℝ} (hd : 0 ≤ d) :
    IntegrableOn (fun s => wRate (1 / (4 * Real.sqrt Real.pi)) 5 s * Real.exp (-(s * d))) (Ioi 0) ∧
    phi Kind.c2 d = ∫ s in Ioi 0, wRate (1 / (4 * Real.sqrt Real.pi)) 5 s * Real.exp (-(s * d)) := by
  refine rate_of_mix (phi Kind.c2) (1 / (4 * Real.sqrt Real.pi)) 1 (fun d hd => ?_) hd
  rw [c2_mixture hd]
  have := sqrt_pi_ne_zero
  refine setIntegral_congr_fun measurableSet_Ioi fun x _ => ?_
  show _ = 1 / (4 * Real.sqrt Real.pi) * 4 ^ (1 + 1) * x ^ (2 * 1) * _ * _
  congr 3
  field_simp

/-- `(1+√d+d/3) exp(−√d) = ∫_0^∞ w4(s) e^{−s d} ds`, `w4(s) = s^(−7/2) e^{−1/(4s)} / (24√π)` -/
theorem c4_mixture_rate {d : ℝ} (hd : 0 ≤ d) :
    IntegrableOn (fun s => wRate (1 / (24 * Real.sqrt Real.pi)) 7 s * Real.exp (-(s * d))) (Ioi 0) ∧
    phi Kind.c4 d = ∫ s in Ioi 0, wRate (1 / (24 * Real.sqrt Real.pi)) 7 s * Real.exp (-(s * d)) := by
  refine rate_of_mix (phi Kind.c4) (1 / (24 * Real.sqrt Real.pi)) 2 (fun d hd => ?_) hd
  rw [c4_mixture hd]
  have := sqrt_pi_ne_zero
  refine setIntegral_congr_fun measurableSet_Ioi fun x _ => ?_
  show _ = 1 / (24 * Real.sqrt Real.pi) * 4 ^ (2 + 1) * x ^ (2 * 2) * _ * _
  congr 3
  field_simp
  norm_num

/-- The classical subordination formula, as stated in the brief: for `r ≥ 0`,
    `exp(−r) = ∫_0^∞ (1/(2√π)) s^(−3/2) exp(−1/(4s)) · exp(−s r²) ds`. -/
theorem exp_neg_eq_gaussian_mixture {r : ℝ} (hr : 0 ≤ r) :
    Real.exp (-r) = ∫ s in Ioi 0,
      (1 / (2 * Real.sqrt Real.pi) * s ^ (-(3 / 2) : ℝ) * Real.exp (-(1 / (4 * s)))) * Real.exp (-(s * r ^ 2)) := by
  have h := (c0_mixture_rate (sq_nonneg r)).2
  have e : phi Kind.c0 (r ^ 2) = Real.exp (-r) := by simp [phi, Real.sqrt_sq hr]
  rw [← e, h]
  refine setIntegral_congr_fun measurableSet_Ioi fun s _ => ?_
  simp only [wRate]
  norm_num

/-- second proof of `c0_profile_gram_psd`, through the rate form of layer 1 -/
theorem c0_profile_gram_psd_rate {n d : Nat} (l : Fin d → ℝ) (pts : Fin n → Fin d → ℝ) :
    (gramMatrix (fun x z : Fin d → ℝ => phi Kind.c0 (r2 (List.ofFn l) (List.ofFn x) (List.ofFn z))) pts).PosSemidef :=
  psd_of_gaussian_mixture (phi Kind.c0) (wRate (1 / (2 * Real.sqrt Real.pi)) 3)
    (fun _ hs => wRate_nonneg (by positivity) 3 hs)
    (fun _ hd => (c0_mixture_rate hd).1) (fun _ hd => (c0_mixture_rate hd).2) l pts

end Kernels
