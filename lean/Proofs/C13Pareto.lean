/-
  Helper lemmas for C13 (frontier part): the keep rule is "not dominated", dominance is
  transitive on rows of equal length, the mask loop computes `nonDominated`, and
  boolean-mask selection is a zip/filter.
-/
import Model.C13
import Mathlib.Order.Defs.LinearOrder
import Mathlib.Order.Basic
import Mathlib.Data.List.Basic
import Mathlib.Tactic.Cases

namespace C13
variable {α : Type} [LinearOrder α]

/-! ### keep rule = not dominated -/

theorem gtAny_eq_not_geAll (a b : List α) : gtAny a b = !geAll b a := by
  induction a generalizing b with
  | nil => cases b <;> simp [gtAny, geAll]
  | cons x xs ih =>
    cases b with
    | nil => simp [gtAny, geAll]
    | cons y ys =>
      simp only [gtAny, geAll, ih ys, Bool.not_and]
      congr 1
      rw [← decide_not]; simp only [not_le]

theorem keepAgainst_eq_not_dominates (c v : List α) : keepAgainst c v = !dominates c v := by
  unfold keepAgainst dominates
  rw [gtAny_eq_not_geAll v c, gtAny_eq_not_geAll c v]
  cases geAll v c <;> cases geAll c v <;> rfl

/-! ### dominance is a strict partial order on rows of one length -/

theorem geAll_trans : ∀ (a b c : List α), a.length = b.length → b.length = c.length →
    geAll a b = true → geAll b c = true → geAll a c = true
  | [], _, _, _, _, _, _ => by cases ‹List α› <;> simp [geAll]
  | _ :: _, [], _, h, _, _, _ => by simp at h
  | _ :: _, _ :: _, [], _, h, _, _ => by simp at h
  | x :: xs, y :: ys, z :: zs, h1, h2, hab, hbc => by
    simp only [geAll, Bool.and_eq_true, decide_eq_true_eq] at hab hbc ⊢
    exact ⟨le_trans hbc.1 hab.1, geAll_trans xs ys zs (by simpa using h1) (by simpa using h2) hab.2 hbc.2⟩

theorem gtAny_geAll : ∀ (a b c : List α), a.length = b.length → b.length = c.length →
    gtAny a b = true → geAll b c = true → gtAny a c = true
  | [], _, _, _, _, h, _ => by cases ‹List α› <;> simp [gtAny] at h
  | _ :: _, [], _, h, _, _, _ => by simp at h
  | _ :: _, _ :: _, [], _, h, _, _ => by simp at h
  | x :: xs, y :: ys, z :: zs, h1, h2, hab, hbc => by
    simp only [geAll, gtAny, Bool.and_eq_true, Bool.or_eq_true, decide_eq_true_eq] at hab hbc ⊢
    rcases hab with h | h
    · exact Or.inl (lt_of_le_of_lt hbc.1 h)
    · exact Or.inr (gtAny_geAll xs ys zs (by simpa using h1) (by simpa using h2) h hbc.2)

theorem geAll_gtAny : ∀ (a b c : List α), a.length = b.length → b.length = c.length →
    geAll a b = true → gtAny b c = true → gtAny a c = true
  | [], [], _, _, _, _, h => by cases ‹List α› <;> simp [gtAny] at h
  | [], _ :: _, _, h, _, _, _ => by simp at h
  | _ :: _, [], _, h, _, _, _ => by simp at h
  | _ :: _, _ :: _, [], _, h, _, _ => by simp at h
  | x :: xs, y :: ys, z :: zs, h1, h2, hab, hbc => by
    simp only [geAll, gtAny, Bool.and_eq_true, Bool.or_eq_true, decide_eq_true_eq] at hab hbc ⊢
    rcases hbc with h | h
    · exact Or.inl (lt_of_lt_of_le h hab.1)
    · exact Or.inr (geAll_gtAny xs ys zs (by simpa using h1) (by simpa using h2) hab.2 h)

theorem dominates_trans (a b c : List α) (h1 : a.length = b.length) (h2 : b.length = c.length)
    (hab : dominates a b = true) (hbc : dominates b c = true) : dominates a c = true := by
  simp only [dominates, Bool.and_eq_true] at hab hbc ⊢
  exact ⟨geAll_trans a b c h1 h2 hab.1 hbc.1, gtAny_geAll a b c h1 h2 hab.2 hbc.1⟩

theorem dominates_irrefl (a : List α) : dominates a a = false := by
  unfold dominates
  rw [gtAny_eq_not_geAll]
  cases geAll a a <;> rfl

theorem dominates_asymm (a b : List α) (h : dominates a b = true) : dominates b a = false := by
  unfold dominates at h ⊢
  rw [gtAny_eq_not_geAll] at h ⊢
  revert h
  cases geAll a b <;> cases geAll b a <;> simp

/-! ### boolean-mask indexing and assignment -/

theorem scatter_select_map {β : Type} (f : β → Bool) : ∀ (m : List Bool) (xs : List β),
    m.length = xs.length → scatter m ((select m xs).map f) = List.zipWith (fun g x => g && f x) m xs
  | [], xs, _ => by simp [scatter]
  | _ :: _, [], h => by simp at h
  | true :: ms, x :: xs, h => by
    simp [select, scatter, scatter_select_map f ms xs (by simpa using h)]
  | false :: ms, x :: xs, h => by
    simp [select, scatter, scatter_select_map f ms xs (by simpa using h)]

theorem select_map_eq_filter {β γ : Type} (p : β → Bool) : ∀ (xs : List β) (obs : List γ),
    select (xs.map p) obs = ((xs.zip obs).filter fun q => p q.1).map Prod.snd
  | [], obs => by simp [select]
  | _ :: _, [] => by cases h : p ‹β› <;> simp [select, h]
  | x :: xs, o :: obs => by
    cases h : p x <;> simp [select, h, select_map_eq_filter p xs obs]

theorem select_sublist {β : Type} : ∀ (m : List Bool) (xs : List β), (select m xs).Sublist xs
  | [], xs => by simp [select]
  | _ :: _, [] => by rename_i b _; cases b <;> simp [select]
  | true :: ms, x :: xs => by simpa [select] using select_sublist ms xs
  | false :: ms, x :: xs => by
    simpa [select] using (select_sublist ms xs).trans (List.sublist_cons_self x xs)

theorem select_perm {β : Type} : ∀ (m : List Bool) (xs : List β), m.length = xs.length →
    (select m xs ++ select (m.map not) xs).Perm xs
  | [], [], _ => by simp [select]
  | [], _ :: _, h => by simp at h
  | _ :: _, [], h => by simp at h
  | true :: ms, x :: xs, h => by
    simpa [select] using select_perm ms xs (by simpa using h)
  | false :: ms, x :: xs, h => by
    have ih := select_perm ms xs (by simpa using h)
    simp only [select, List.map_cons, Bool.not_false]
    exact (List.perm_middle).trans (ih.cons x)

theorem select_length {β : Type} : ∀ (m : List Bool) (xs : List β), m.length = xs.length →
    (select m xs).length = m.count true
  | [], xs, _ => by simp [select]
  | _ :: _, [], h => by simp at h
  | true :: ms, x :: xs, h => by simp [select, select_length ms xs (by simpa using h)]
  | false :: ms, x :: xs, h => by simp [select, select_length ms xs (by simpa using h)]

/-! ### the loop -/

theorem nonDominated_append (pre : List (List α)) (c v : List α) :
    nonDominated (pre ++ [c]) v = (nonDominated pre v && keepAgainst c v) := by
  simp [nonDominated, keepAgainst_eq_not_dominates]

theorem step_spec (m : Nat) (rows pre cs : List (List α)) (c : List α)
    (hrect : ∀ r ∈ rows, r.length = m) (hrows : rows = pre ++ c :: cs) :
    step rows (rows.map (nonDominated pre)) pre.length c = rows.map (nonDominated (pre ++ [c])) := by
  have hget : (rows.map (nonDominated pre)).getD pre.length false = nonDominated pre c := by
    subst hrows
    simp [List.getD_eq_getElem?_getD]
  unfold step
  rw [hget]
  by_cases hc : nonDominated pre c = true
  · rw [if_pos hc, scatter_select_map _ _ _ (by simp), List.zipWith_map_left]
    simp only [List.zipWith_self]
    exact List.map_congr_left fun v _ => (nonDominated_append pre c v).symm
  · rw [if_neg hc]
    apply List.map_congr_left
    intro v hv
    rw [nonDominated_append, keepAgainst_eq_not_dominates]
    cases hp : nonDominated pre v
    · rfl
    · -- `c` was removed by some earlier row `c'`; by transitivity `c` cannot dominate a survivor
      simp only [Bool.true_and]
      cases hd : dominates c v
      · rfl
      · exfalso
        simp only [nonDominated, List.all_eq_true, Bool.not_eq_true'] at hc hp
        push Not at hc
        obtain ⟨c', hc', hdc⟩ := hc
        have hdc : dominates c' c = true := by simpa using hdc
        have hc'rows : c' ∈ rows := by subst hrows; exact List.mem_append_left _ hc'
        have hcrows : c ∈ rows := by subst hrows; simp
        have := dominates_trans c' c v ((hrect _ hc'rows).trans (hrect _ hcrows).symm)
          ((hrect _ hcrows).trans (hrect _ hv).symm) hdc hd
        rw [hp c' hc'] at this
        exact Bool.false_ne_true this

theorem loopFrom_spec (m : Nat) (rows : List (List α)) (hrect : ∀ r ∈ rows, r.length = m) :
    ∀ (todo pre : List (List α)), rows = pre ++ todo →
      loopFrom rows todo pre.length (rows.map (nonDominated pre)) = rows.map (nonDominated rows)
  | [], pre, h => by
    simp only [List.append_nil] at h
    subst h; rfl
  | c :: cs, pre, h => by
    unfold loopFrom
    rw [step_spec m rows pre cs c hrect h]
    have := loopFrom_spec m rows hrect cs (pre ++ [c]) (by simp [h])
    simpa using this

/-- The mask the routine ends with marks exactly the rows that no row dominates. -/
theorem paretoMask_eq (m : Nat) (rows : List (List α)) (hrect : ∀ r ∈ rows, r.length = m) :
    paretoMask rows = rows.map (nonDominated rows) := by
  have := loopFrom_spec m rows hrect rows [] rfl
  unfold paretoMask
  have h0 : List.replicate rows.length true = rows.map (nonDominated ([] : List (List α))) := by
    symm; rw [List.eq_replicate_iff]; simp [nonDominated]
  rw [h0]
  exact this

end C13
