/- Helper lemmas for C10: the masks of `find_indexes_of_unique_points` and their application. -/
import Proofs.C10Radix

namespace C10

theorem selfMaskAux_length (f : Row → Row → Bool) (earlier ps : List Row) :
    (selfMaskAux f earlier ps).length = ps.length := by
  induction ps generalizing earlier with
  | nil => simp [selfMaskAux]
  | cons p ps ih => simp [selfMaskAux, ih]

/-- entry `j` of the within-batch mask tests the `j`-th point against everything before it -/
theorem selfMaskAux_get (f : Row → Row → Bool) (earlier ps : List Row) (j : Nat) :
    (selfMaskAux f earlier ps)[j]? =
      ps[j]?.map fun p => (earlier ++ ps.take j).all fun q => f q p := by
  induction ps generalizing earlier j with
  | nil => simp [selfMaskAux]
  | cons p ps ih =>
    cases j with
    | zero => simp [selfMaskAux]
    | succ j =>
      simp only [selfMaskAux, List.getElem?_cons_succ, ih, List.take_succ_cons]
      simp [List.append_assoc]

theorem selfMask_get (f : Row → Row → Bool) (ps : List Row) (j : Nat) :
    (selfMask f ps)[j]? = ps[j]?.map fun p => (ps.take j).all fun q => f q p := by
  simp [selfMask, selfMaskAux_get]

theorem mem_applyMask {α : Type} {l : List α} {m : List Bool} {a : α} :
    a ∈ applyMask l m ↔ ∃ j : Nat, l[j]? = some a ∧ m[j]? = some true := by
  induction l generalizing m with
  | nil => simp [applyMask]
  | cons x xs ih =>
    cases m with
    | nil => simp [applyMask]
    | cons b bs =>
      simp only [applyMask]
      constructor
      · intro h
        cases b with
        | true =>
          simp only [if_true, List.mem_cons] at h
          rcases h with rfl | h
          · exact ⟨0, by simp⟩
          · obtain ⟨j, h1, h2⟩ := ih.mp h
            exact ⟨j + 1, by simpa using h1, by simpa using h2⟩
        | false =>
          simp only [Bool.false_eq_true, if_false] at h
          obtain ⟨j, h1, h2⟩ := ih.mp h
          exact ⟨j + 1, by simpa using h1, by simpa using h2⟩
      · rintro ⟨j, h1, h2⟩
        cases j with
        | zero =>
          simp only [List.getElem?_cons_zero, Option.some.injEq] at h1 h2
          subst h1 h2
          simp
        | succ j =>
          simp only [List.getElem?_cons_succ] at h1 h2
          have := ih.mpr ⟨j, h1, h2⟩
          cases b <;> simp [this]

theorem applyMask_sublist {α : Type} (l : List α) (m : List Bool) : (applyMask l m).Sublist l := by
  induction l generalizing m with
  | nil => simp [applyMask]
  | cons x xs ih =>
    cases m with
    | nil => simp [applyMask]
    | cons b bs =>
      simp only [applyMask]
      cases b with
      | true => simpa using ih bs
      | false => simpa using (ih bs).cons x

theorem applyMask_map {α : Type} (l : List α) (g : α → Bool) : applyMask l (l.map g) = l.filter g := by
  induction l with
  | nil => simp [applyMask]
  | cons x xs ih =>
    simp only [List.map_cons, applyMask, List.filter_cons, ih]

theorem applyMask_length_le {α : Type} (l : List α) (m : List Bool) :
    (applyMask l m).length ≤ l.length := (applyMask_sublist l m).length_le

end C10
