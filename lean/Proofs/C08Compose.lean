/- Helper lemmas for C08: composition of clip, viable-point rule, segment move; fixed-coordinate folds. -/
import Proofs.C08Restrict
import Proofs.C08Samplers

namespace C08

theorem clip_inBox : ∀ (bx : Box) (x : Vec), boxWF bx = true → x.length = bx.length → inBox bx (clip bx x) = true
  | [], [], _, _ => rfl
  | [], _ :: _, _, h => by simp at h
  | _ :: _, [], _, h => by simp at h
  | (l, hh) :: bx, x :: xs, hwf, hl => by
    simp only [boxWF, Bool.and_eq_true, decide_eq_true_eq] at hwf
    simp only [clip]
    rw [inBox_cons]
    have := clip1_mem l hh x hwf.1
    exact ⟨this.1, this.2, clip_inBox bx xs hwf.2 (by simpa using hl)⟩

theorem clip_eq_self : ∀ (bx : Box) (x : Vec), inBox bx x = true → clip bx x = x
  | [], [], _ => rfl
  | [], _ :: _, h => by simp [inBox] at h
  | _ :: _, [], h => by simp [inBox] at h
  | (l, hh) :: bx, x :: xs, h => by
    rw [inBox_cons] at h
    simp only [clip]
    rw [clip1_id l hh x h.1 h.2.1, clip_eq_self bx xs h.2.2]

theorem pushToward_inBox (bx : Box) (v c : Vec) (hv : inBox bx v = true) (hc : inBox bx c = true) :
    inBox bx (pushToward v c) = true := by
  unfold pushToward
  exact inBox_zipWith _ (1 - pushFraction) (by norm_num [pushFraction]) (by norm_num [pushFraction])
    (by intro x y; ring) bx v c hv hc

theorem viablePoint_inBox (bx : Box) (rows : List Row) (cheby : Vec) (viable : Option Vec)
    (hc : inBox bx cheby = true) : inBox bx (viablePoint bx rows cheby viable) = true := by
  unfold viablePoint viableMode
  cases viable with
  | none => simpa [viableOf] using hc
  | some v =>
    dsimp only
    by_cases ha : acceptable bx rows v = true
    · rw [ha]
      simp only [Bool.not_true, Bool.false_eq_true, if_false]
      unfold acceptable at ha; rw [Bool.and_eq_true] at ha
      split_ifs
      · simp only [viableOf]; exact pushToward_inBox bx v cheby ha.1 hc
      · simpa [viableOf] using ha.1
    · rw [Bool.not_eq_true] at ha; rw [ha]; simpa [viableOf] using hc

theorem restrictOne_inBox (bx : Box) (rows : List Row) (v p : Vec) (onC : Bool) (u : Rat)
    (hu0 : 0 ≤ u) (hu1 : u < 1) (hp : inBox bx p = true) (hv : inBox bx v = true) :
    inBox bx (restrictOne rows v onC u p) = true := by
  unfold restrictOne
  split_ifs
  · have h0 := maxCorrection_nonneg rows p v
    have h1 := maxCorrection_lt_one rows p v
    have he := epsShift_range _ u onC h0 h1 hu0 hu1
    exact blend_inBox bx _ p v he.1 (by linarith [he.2]) hp hv
  · exact hp

theorem restrictOne_satAll (rows : List Row) (v p : Vec) (onC : Bool) (u : Rat)
    (hu0 : 0 ≤ u) (hu1 : u < 1) (hl : p.length = v.length) (hv : strictAll rows v = true) :
    satAll rows (restrictOne rows v onC u p) = true := by
  unfold restrictOne
  split_ifs with hn
  · have h0 := maxCorrection_nonneg rows p v
    have h1 := maxCorrection_lt_one rows p v
    have he := epsShift_range _ u onC h0 h1 hu0 hu1
    rw [satAll_iff]
    intro r hr
    rw [blend_dot _ _ _ _ hl]
    exact row_after_move r p v _ _ ((strictAll_iff rows v).mp hv r hr) h0 he.1 he.2
      (fun hval => valid_le_maxCorrection rows p v r hr hval)
  · exact feasible_of_not_needsCorrection rows p v hv (by simpa using hn)

theorem restrictOne_eq_self (rows : List Row) (v p : Vec) (onC : Bool) (u : Rat)
    (hv : satAll rows v = true) (hp : satAll rows p = true) : restrictOne rows v onC u p = p := by
  unfold restrictOne
  rw [needsCorrection_false_of_feasible rows p v hv hp]; simp

theorem restrictOne_length (rows : List Row) (v p : Vec) (onC : Bool) (u : Rat) (hl : p.length = v.length) :
    (restrictOne rows v onC u p).length = p.length := by
  unfold restrictOne
  split_ifs
  · exact blend_length _ _ _ hl
  · rfl

theorem satAll_of_subset (r1 r2 : List Row) (x : Vec) (hsub : ∀ r ∈ r1, r ∈ r2) (h : satAll r2 x = true) :
    satAll r1 x = true := by
  rw [satAll_iff] at h ⊢; intro r hr; exact h r (hsub r hr)

theorem strictAll_of_subset (r1 r2 : List Row) (x : Vec) (hsub : ∀ r ∈ r1, r ∈ r2) (h : strictAll r2 x = true) :
    strictAll r1 x = true := by
  rw [strictAll_iff] at h ⊢; intro r hr; exact h r (hsub r hr)

theorem nonBound_subset (rows : List Row) : ∀ r ∈ nonBound rows, r ∈ rows := by
  intro r hr; unfold nonBound at hr; exact (List.mem_filter.mp hr).1

theorem perturb_length : ∀ (bx : Box) (x z : Vec), x.length = bx.length → z.length = bx.length →
    (perturb bx x z).length = bx.length
  | [], [], [], _, _ => rfl
  | [], _ :: _, _, h, _ => by simp at h
  | [], [], _ :: _, _, h => by simp at h
  | _ :: _, [], _, h, _ => by simp at h
  | _ :: _, _ :: _, [], _, h => by simp at h
  | (l, hh) :: bx, x :: xs, z :: zs, h1, h2 => by
    simp [perturb, perturb_length bx xs zs (by simpa using h1) (by simpa using h2)]

/-! ### fixed coordinates (fold) -/

theorem fixCoords_cons (iv : Nat × Rat) (rest : List (Nat × Rat)) (x : Vec) :
    fixCoords (iv :: rest) x = fixCoords rest (setAt x iv.1 iv.2) := rfl

theorem fixCoords_length : ∀ (fixed : List (Nat × Rat)) (x : Vec), (fixCoords fixed x).length = x.length
  | [], _ => rfl
  | iv :: rest, x => by rw [fixCoords_cons, fixCoords_length rest, setAt_length]

theorem fixCoords_other : ∀ (fixed : List (Nat × Rat)) (x : Vec) (j : Nat), j ∉ fixed.map Prod.fst →
    getAt (fixCoords fixed x) j = getAt x j
  | [], _, _, _ => rfl
  | iv :: rest, x, j, h => by
    simp only [List.map_cons, List.mem_cons, not_or] at h
    rw [fixCoords_cons, fixCoords_other rest _ j h.2, getAt_setAt_other _ _ _ _ (Ne.symm h.1)]

theorem fixCoords_dot : ∀ (fixed : List (Nat × Rat)) (a x : Vec), (∀ iv ∈ fixed, getAt a iv.1 = 0) →
    dot a (fixCoords fixed x) = dot a x
  | [], _, _, _ => rfl
  | iv :: rest, a, x, h => by
    rw [fixCoords_cons, fixCoords_dot rest a _ (fun iv' h' => h iv' (List.mem_cons_of_mem _ h')),
      dot_setAt a x iv.1 iv.2 (h iv (List.mem_cons_self ..))]

theorem fixCoords_inBox : ∀ (fixed : List (Nat × Rat)) (bx : Box) (x : Vec), inBox bx x = true →
    (∀ iv ∈ fixed, iv.1 < bx.length ∧ (bx.getD iv.1 (0, 0)).1 ≤ iv.2 ∧ iv.2 ≤ (bx.getD iv.1 (0, 0)).2) →
    inBox bx (fixCoords fixed x) = true
  | [], _, _, h, _ => h
  | iv :: rest, bx, x, hx, h => by
    rw [fixCoords_cons]
    have h0 := h iv (List.mem_cons_self ..)
    exact fixCoords_inBox rest bx _ (inBox_setAt bx x iv.1 iv.2 hx h0.1 h0.2.1 h0.2.2)
      (fun iv' h' => h iv' (List.mem_cons_of_mem _ h'))

end C08
