/- Bridge between the domain model of C10 (`C10.Domain`, used by the distinct sampler / refill theorems) and
   the shared domain model `Dom` used by C01/C09: `admissibleRow` of the one is `admissible` of the other for
   unconstrained domains, so C10's refill theorems discharge the `fresh` hypothesis of `finalizeGP_admissible`. -/
import Model.C10
import Model.Domain
import Mathlib.Data.Rat.Defs
import Mathlib.Data.Rat.Floor
import Mathlib.Algebra.Order.Field.Rat
import Mathlib.Tactic.Linarith

namespace C01Bridge
open Dom

def toComp : C10.Comp → Component
  | .dbl lo hi => .double lo hi
  | .int lo hi => .int (lo : Rat) (hi : Rat)
  | .cat es => .cat (C10.catVals es)
  | .grid es => .grid es

def toDom (d : C10.Domain) : Domain := { comps := d.map toComp, cons := [] }

theorem isIntQ_iff (v : Rat) : isIntQ v = true ↔ v.den = 1 := by
  unfold isIntQ fl
  simp only [decide_eq_true_eq]
  constructor
  · intro h
    rw [← h]
    exact Rat.den_intCast _
  · intro h
    have hv : ((v.num : Int) : Rat) = v := Rat.coe_int_num_of_den_eq_one h
    rw [← hv, Rat.floor_intCast]

theorem admissible1_eq (c : C10.Comp) (v : Rat) : C10.admissible1 c v = (toComp c).mem v := by
  cases c with
  | dbl lo hi => rfl
  | cat es => rfl
  | grid es => rfl
  | int lo hi =>
    simp only [C10.admissible1, toComp, Component.mem]
    by_cases hd : v.den = 1
    · have hv : ((v.num : Int) : Rat) = v := Rat.coe_int_num_of_den_eq_one hd
      have hi' : isIntQ v = true := (isIntQ_iff v).mpr hd
      simp only [hd, hi', decide_true, Bool.true_and]
      have e1 : (lo ≤ v.num) ↔ ((lo : Rat) ≤ v) := by rw [← hv]; exact_mod_cast Iff.rfl
      have e2 : (v.num ≤ hi) ↔ (v ≤ (hi : Rat)) := by rw [← hv]; exact_mod_cast Iff.rfl
      simp only [e1, e2]
    · have hi' : isIntQ v = false := by
        cases h : isIntQ v with
        | false => rfl
        | true => exact absurd ((isIntQ_iff v).mp h) hd
      simp [hd, hi']

theorem admissibleRow_eq : ∀ (d : C10.Domain) (p : List Rat), C10.admissibleRow d p = inBox (d.map toComp) p
  | [], [] => rfl
  | [], _ :: _ => rfl
  | _ :: _, [] => rfl
  | c :: cs, v :: vs => by
    simp only [C10.admissibleRow, List.map_cons, inBox, admissible1_eq, admissibleRow_eq cs vs]

/-- For an unconstrained domain the two notions of "lies in the domain" coincide. -/
theorem admissible_eq (d : C10.Domain) (p : List Rat) : admissible (toDom d) p = C10.admissibleRow d p := by
  simp [admissible, toDom, admissibleRow_eq]

end C01Bridge
