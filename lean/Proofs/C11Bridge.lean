/-
  Bridge between the executable list model of Model/C11.lean (exact `Rat`) and Mathlib matrices over `ℝ`:
  what the driver's run-time certificates (`certInv`, `certLDL`) prove about the matrix the lists denote.
-/
import Model.C11
import Proofs.C11Matrix
import Mathlib.Data.Rat.Cast.Order
import Mathlib.Data.Real.Basic
import Mathlib.Tactic.Ring
import Mathlib.Tactic.Linarith
import Mathlib.Tactic.NormNum

open Matrix

namespace C11
open Dom

/-- the vector a list denotes (missing entries read as 0) -/
def toV (n : Nat) (v : List ℚ) : Fin n → ℝ := fun i => ((v.getD i 0 : ℚ) : ℝ)
/-- the matrix a list of rows denotes -/
def toM (n m : Nat) (A : List (List ℚ)) : Matrix (Fin n) (Fin m) ℝ :=
  Matrix.of fun i j => (((A.getD i []).getD j 0 : ℚ) : ℝ)

@[simp] theorem toV_apply (n : Nat) (v : List ℚ) (i : Fin n) : toV n v i = ((v.getD i 0 : ℚ) : ℝ) := rfl
@[simp] theorem toM_apply (n m : Nat) (A : List (List ℚ)) (i : Fin n) (j : Fin m) :
    toM n m A i j = (((A.getD i []).getD j 0 : ℚ) : ℝ) := rfl

/-! ### list helpers -/

theorem getD_map_lt {α β} (f : α → β) (l : List α) (i : Nat) (h : i < l.length) (d : β) (d' : α) :
    (l.map f).getD i d = f (l.getD i d') := by
  simp [List.getD_eq_getElem?_getD, List.getElem?_map, List.getElem?_eq_getElem h]

theorem getD_map_ge {α β} (f : α → β) (l : List α) (i : Nat) (h : l.length ≤ i) (d : β) :
    (l.map f).getD i d = d := by
  simp [List.getD_eq_getElem?_getD, List.getElem?_map, List.getElem?_eq_none h]

theorem getD_range_map {β} (f : Nat → β) (k i : Nat) (h : i < k) (d : β) :
    ((List.range k).map f).getD i d = f i := by
  simp [List.getD_eq_getElem?_getD, List.getElem?_map, List.getElem?_range h]

theorem hasShape_iff (n m : Nat) (A : Mat) :
    hasShape n m A = true ↔ A.length = n ∧ ∀ r ∈ A, r.length = m := by
  simp [hasShape, List.all_eq_true]

theorem row_length {n m : Nat} {A : Mat} (h : hasShape n m A = true) (i : Nat) (hi : i < n) :
    (A.getD i []).length = m := by
  rw [hasShape_iff] at h
  have hi' : i < A.length := by omega
  rw [List.getD_eq_getElem?_getD, List.getElem?_eq_getElem hi']
  exact h.2 _ (List.getElem_mem hi')

/-! ### dot product, matrix–vector, matrix–matrix -/

theorem dot_cast : ∀ (n : Nat) (u v : List ℚ), u.length = n →
    ((dot u v : ℚ) : ℝ) = toV n u ⬝ᵥ toV n v
  | 0, [], v, _ => by simp [dot, dotProduct]
  | 0, _ :: _, _, h => by simp at h
  | n + 1, [], _, h => by simp at h
  | n + 1, a :: u, [], _ => by
    have : toV (n + 1) ([] : List ℚ) = 0 := by funext i; simp
    simp [dot, this]
  | n + 1, a :: u, b :: v, h => by
    have hu : u.length = n := by simpa using h
    have ih := dot_cast n u v hu
    simp only [dot, dotProduct, Fin.sum_univ_succ, toV_apply, Fin.val_zero, List.getD_cons_zero,
      Fin.val_succ, List.getD_cons_succ]
    push_cast
    rw [ih]; simp [dotProduct]

theorem toV_matVec {n m : Nat} {A : Mat} (hA : hasShape n m A = true) (v : List ℚ) :
    toV n (matVec A v) = toM n m A *ᵥ toV m v := by
  funext i
  have hlen : A.length = n := ((hasShape_iff n m A).1 hA).1
  have hi : (i : Nat) < A.length := by rw [hlen]; exact i.2
  simp only [toV_apply, matVec, mulVec]
  rw [getD_map_lt (fun row => dot row v) A i hi 0 [], dot_cast m _ v (row_length hA i i.2)]
  rfl

theorem col_getD (B : Mat) (j l : Nat) : (col B j).getD l 0 = (B.getD l []).getD j 0 := by
  unfold col
  by_cases h : l < B.length
  · rw [getD_map_lt _ B l h 0 []]
  · have h' : B.length ≤ l := by omega
    rw [getD_map_ge _ B l h' 0]
    simp [List.getD_eq_getElem?_getD, List.getElem?_eq_none h']

theorem toV_col (m : Nat) (B : Mat) (k : Nat) (j : Fin k) : toV m (col B j) = fun l => toM m k B l j := by
  funext l; simp only [toV_apply, toM_apply, col_getD]

theorem toM_matMul {n m k : Nat} {A : Mat} (hA : hasShape n m A = true) (B : Mat) :
    toM n k (matMul A B k) = toM n m A * toM m k B := by
  ext i j
  have hlen : A.length = n := ((hasShape_iff n m A).1 hA).1
  have hi : (i : Nat) < A.length := by rw [hlen]; exact i.2
  simp only [toM_apply, matMul, Matrix.mul_apply]
  rw [getD_map_lt _ A i hi [] [], getD_range_map _ k j j.2 0, dot_cast m _ _ (row_length hA i i.2),
    toV_col m B k j]
  rfl

theorem toM_transpose (n m : Nat) (B : Mat) : toM m n (transpose m B) = (toM n m B)ᵀ := by
  ext j i
  simp only [toM_apply, transpose, Matrix.transpose_apply]
  rw [getD_range_map _ m j j.2 [], col_getD]

theorem toM_identity (n : Nat) : toM n n (identity n) = 1 := by
  ext i j
  simp only [toM_apply, identity]
  rw [getD_range_map _ n i i.2 [], getD_range_map _ n j j.2 0, Matrix.one_apply]
  by_cases h : i = j
  · subst h; simp
  · have : (i : Nat) ≠ j := fun e => h (Fin.ext e)
    simp [h, this]

theorem toM_diagMat {n : Nat} (D : List ℚ) (h : D.length = n) : toM n n (diagMat D) = diagonal (toV n D) := by
  ext i j
  simp only [toM_apply, diagMat, h]
  rw [getD_range_map _ n i i.2 [], getD_range_map _ n j j.2 0, Matrix.diagonal_apply]
  by_cases e : i = j
  · subst e; simp
  · have : (i : Nat) ≠ j := fun e' => e (Fin.ext e')
    simp [e, this]

theorem toV_vsub : ∀ (n : Nat) (u v : List ℚ), u.length = n → v.length = n →
    toV n (vsub u v) = toV n u - toV n v
  | 0, _, _, _, _ => by funext i; exact i.elim0
  | n + 1, [], _, h, _ => by simp at h
  | n + 1, _ :: _, [], _, h => by simp at h
  | n + 1, a :: u, b :: v, hu, hv => by
    have ih := toV_vsub n u v (by simpa using hu) (by simpa using hv)
    funext i
    refine Fin.cases ?_ (fun i => ?_) i
    · simp [vsub]
    · have := congrFun ih i
      simp only [toV_apply, Pi.sub_apply] at this
      simp only [toV_apply, Pi.sub_apply, vsub, List.zipWith_cons_cons, Fin.val_succ, List.getD_cons_succ]
      exact this

theorem lprod_cast : ∀ (n : Nat) (D : List ℚ), D.length = n → ((lprod D : ℚ) : ℝ) = ∏ i : Fin n, toV n D i
  | 0, [], _ => by simp [lprod]
  | 0, _ :: _, h => by simp at h
  | n + 1, [], h => by simp at h
  | n + 1, d :: D, h => by
    have ih := lprod_cast n D (by simpa using h)
    rw [Fin.prod_univ_succ]
    simp only [lprod, toV_apply, Fin.val_zero, List.getD_cons_zero, Fin.val_succ, List.getD_cons_succ]
    push_cast
    rw [ih]; rfl

/-! ### shapes of computed objects -/

theorem hasShape_matMul (A B : Mat) (k : Nat) : hasShape A.length k (matMul A B k) = true := by
  rw [hasShape_iff]; constructor
  · simp [matMul]
  · intro r hr
    simp only [matMul, List.mem_map] at hr
    obtain ⟨_, _, rfl⟩ := hr
    simp

theorem hasShape_transpose (m : Nat) (B : Mat) : hasShape m B.length (transpose m B) = true := by
  rw [hasShape_iff]; constructor
  · simp [transpose]
  · intro r hr
    simp only [transpose, List.mem_map] at hr
    obtain ⟨_, _, rfl⟩ := hr
    simp [col]

theorem matVec_length (A : Mat) (v : Vec) : (matVec A v).length = A.length := by simp [matVec]

/-! ### what the certificates prove -/

/-- `certInv n A B = true`: the list `B` denotes the inverse of the matrix `A` denotes. -/
theorem certInv_sound {n : Nat} {A B : Mat} (h : certInv n A B = true) :
    toM n n B = (toM n n A)⁻¹ ∧ IsUnit (toM n n A).det ∧ hasShape n n A = true ∧ hasShape n n B = true := by
  simp only [certInv, Bool.and_eq_true, decide_eq_true_eq] at h
  obtain ⟨⟨hA, hB⟩, he⟩ := h
  have hmul : toM n n A * toM n n B = 1 := by
    rw [← toM_matMul hA B, he, toM_identity]
  refine ⟨(Matrix.inv_eq_right_inv hmul).symm, ?_, hA, hB⟩
  exact Matrix.isUnit_det_of_right_inverse hmul

theorem unitLower_sound {n : Nat} {L : Mat} (h : unitLower n L = true) :
    (toM n n L).IsLowerTriangular ∧ ∀ i, toM n n L i i = 1 := by
  simp only [unitLower, List.all_eq_true, List.mem_range] at h
  constructor
  · intro i j hij
    have hlt : (i : Nat) < j := by
      have : i < j := by simpa using hij
      exact this
    have := h i i.2 j j.2
    have hne : (i : Nat) ≠ j := by omega
    simp only [hne, if_false, hlt, if_true, decide_eq_true_eq] at this
    show (((L.getD i []).getD j 0 : ℚ) : ℝ) = 0
    rw [this]; norm_num
  · intro i
    have := h i i.2 i i.2
    simp only [if_true, decide_eq_true_eq] at this
    show (((L.getD i []).getD i 0 : ℚ) : ℝ) = 1
    rw [this]; norm_num

/-- `certLDL n A L D = true`: `det A = ∏ D`, and positive `D` makes `A` positive definite. -/
theorem certLDL_sound {n : Nat} {A L : Mat} {D : Vec} (h : certLDL n A L D = true) :
    (toM n n A).det = ((lprod D : ℚ) : ℝ) ∧ (allPos D = true → (toM n n A).PosDef) := by
  simp only [certLDL, Bool.and_eq_true, decide_eq_true_eq] at h
  obtain ⟨⟨⟨⟨_, hL⟩, hD⟩, hu⟩, he⟩ := h
  obtain ⟨hlow, hone⟩ := unitLower_sound hu
  have hLlen : L.length = n := ((hasShape_iff n n L).1 hL).1
  have hA : toM n n A = toM n n L * diagonal (toV n D) * (toM n n L)ᵀ := by
    have h1 := hasShape_matMul L (diagMat D) n
    rw [hLlen] at h1
    rw [← he, toM_matMul h1, toM_matMul hL, toM_diagMat D hD, toM_transpose]
  constructor
  · rw [C11M.ldl_det _ _ _ hA hlow hone, lprod_cast n D hD]
  · intro hp
    refine C11M.ldl_posDef _ _ _ hA hlow hone fun i => ?_
    simp only [allPos, List.all_eq_true, decide_eq_true_eq] at hp
    have hi : (i : Nat) < D.length := by rw [hD]; exact i.2
    have : (0 : ℚ) < D.getD i 0 := by
      rw [List.getD_eq_getElem?_getD, List.getElem?_eq_getElem hi]
      exact hp _ (List.getElem_mem hi)
    simpa using this

/-! ### the GLS model computes the matrix expressions of Proofs/C11Matrix.lean -/

theorem vsub_length (u v : Vec) : (vsub u v).length = min u.length v.length := by simp [vsub]

theorem toM_normalMat {n m : Nat} {Ainv P : Mat} (hAi : hasShape n n Ainv = true) (hP : hasShape n m P = true) :
    toM m m (normalMat m Ainv P) = (toM n m P)ᵀ * toM n n Ainv * toM n m P := by
  have hPl : P.length = n := ((hasShape_iff n m P).1 hP).1
  have ht := hasShape_transpose m P
  rw [hPl] at ht
  unfold normalMat
  rw [toM_matMul ht, toM_matMul hAi, toM_transpose, Matrix.mul_assoc]

/-- zero mean: `demeaned_y = y`, the quadratic form is `yᵀA⁻¹y` -/
theorem gls_zero_sound {n : Nat} {A Ainv : Mat} (P : Mat) {y : Vec} (hA : certInv n A Ainv = true)
    (hy : y.length = n) :
    (glsWith 0 Ainv P y []).resid = y ∧
    (((glsWith 0 Ainv P y []).quad : ℚ) : ℝ) = toV n y ⬝ᵥ ((toM n n A)⁻¹ *ᵥ toV n y) := by
  obtain ⟨hinv, _, _, hAi⟩ := certInv_sound hA
  refine ⟨by simp [glsWith], ?_⟩
  simp only [glsWith, if_true]
  rw [dot_cast n y _ hy, toV_matVec hAi, hinv]

/-- non-zero mean: coefficients, residual, `K⁻¹r` and the quadratic form of the list model are the GLS
    quantities of the denoted matrices. -/
theorem gls_sound {n m : Nat} {A Ainv P Minv : Mat} {y : Vec} (hm : m ≠ 0)
    (hA : certInv n A Ainv = true) (hP : hasShape n m P = true) (hy : y.length = n)
    (hMc : certInv m (normalMat m Ainv P) Minv = true) :
    toV m (glsWith m Ainv P y Minv).beta = C11M.beta (toM n n A) (toM n m P) (toV n y) ∧
    toV n (glsWith m Ainv P y Minv).resid = C11M.resid (toM n n A) (toM n m P) (toV n y) ∧
    toV n (glsWith m Ainv P y Minv).kinvResid
      = (toM n n A)⁻¹ *ᵥ C11M.resid (toM n n A) (toM n m P) (toV n y) ∧
    (((glsWith m Ainv P y Minv).quad : ℚ) : ℝ)
      = C11M.resid (toM n n A) (toM n m P) (toV n y)
          ⬝ᵥ ((toM n n A)⁻¹ *ᵥ C11M.resid (toM n n A) (toM n m P) (toV n y)) ∧
    IsUnit ((toM n m P)ᵀ * (toM n n A)⁻¹ * toM n m P).det := by
  obtain ⟨hinv, _, _, hAi⟩ := certInv_sound hA
  obtain ⟨hMinv, hMu, _, hMi⟩ := certInv_sound hMc
  rw [toM_normalMat hAi hP, hinv] at hMinv hMu
  have hPl : P.length = n := ((hasShape_iff n m P).1 hP).1
  have hAil : Ainv.length = n := ((hasShape_iff n n Ainv).1 hAi).1
  have ht := hasShape_transpose m P
  rw [hPl] at ht
  -- β
  have hbeta : toV m (matVec Minv (matVec (transpose m P) (matVec Ainv y)))
      = C11M.beta (toM n n A) (toM n m P) (toV n y) := by
    rw [toV_matVec hMi, toV_matVec ht, toV_matVec hAi, toM_transpose, hMinv, hinv]; rfl
  -- mean and residual
  have hmean : toV n (matVec P (matVec Minv (matVec (transpose m P) (matVec Ainv y))))
      = toM n m P *ᵥ C11M.beta (toM n n A) (toM n m P) (toV n y) := by
    rw [toV_matVec hP, hbeta]
  have hml : (matVec P (matVec Minv (matVec (transpose m P) (matVec Ainv y)))).length = n := by
    rw [matVec_length, hPl]
  have hres : toV n (vsub y (matVec P (matVec Minv (matVec (transpose m P) (matVec Ainv y)))))
      = C11M.resid (toM n n A) (toM n m P) (toV n y) := by
    rw [toV_vsub n _ _ hy hml, hmean]; rfl
  have hkr : toV n (vsub (matVec Ainv y)
        (matVec Ainv (matVec P (matVec Minv (matVec (transpose m P) (matVec Ainv y))))))
      = (toM n n A)⁻¹ *ᵥ C11M.resid (toM n n A) (toM n m P) (toV n y) := by
    rw [toV_vsub n _ _ (by rw [matVec_length, hAil]) (by rw [matVec_length, hAil]), toV_matVec hAi,
      toV_matVec hAi, hmean, hinv, C11M.kinv_resid]
  have hrl : (vsub y (matVec P (matVec Minv (matVec (transpose m P) (matVec Ainv y))))).length = n := by
    rw [vsub_length, hy, hml, Nat.min_self]
  simp only [glsWith, hm, if_false]
  refine ⟨hbeta, hres, hkr, ?_, hMu⟩
  rw [dot_cast n _ _ hrl, hres, hkr]

end C11
