/- C09: arg-max rounding, block-wise rounding, length scales, task snapping, lattice neighbours, floor mass. -/
import Proofs.C09Snap
import Mathlib.Tactic.FieldSimp

namespace C09
open Dom

/-! ### indicator vectors and arg-max rounding -/

theorem unitVec_length (k i : Nat) : (unitVec k i).length = k := by simp [unitVec]

theorem unitVec_mem {k i : Nat} {v : Rat} (h : v ∈ unitVec k i) : v = 0 ∨ v = 1 := by
  simp only [unitVec, List.mem_map] at h
  obtain ⟨j, _, rfl⟩ := h
  by_cases e : j = i <;> simp [e]

theorem unitVec_getD {k i : Nat} (h : i < k) : (unitVec k i).getD i 0 = 1 := by
  simp [unitVec, List.getD_eq_getElem?_getD, h]

theorem blockOK_unitVec (es : List Rat) (i : Nat) :
    (Component.cat es).blockOK (unitVec es.length i) = true := by
  simp only [Component.blockOK, Bool.and_eq_true, decide_eq_true_eq, List.all_eq_true, unitVec_length,
    true_and]
  intro v hv
  rcases unitVec_mem hv with rfl | rfl <;> norm_num

/-! ### block-wise action of the rounding functions -/

theorem blocks_cons_append {c : Component} {cs : List Component} {a b : List Rat} (h : a.length = c.width) :
    blocks (c :: cs) (a ++ b) = a :: blocks cs b := by
  simp only [blocks, List.take_left' h, List.drop_left' h]

theorem mapBlocks_blocks (f : Component → List Rat → List Rat)
    (hlen : ∀ c b, (f c b).length = b.length) :
    ∀ (cs : List Component) (x : List Rat), x.length = totalWidth cs →
      (mapBlocks f cs x).length = x.length ∧
      blocks cs (mapBlocks f cs x) = List.zipWith f cs (blocks cs x)
  | [], x, _ => by simp [mapBlocks, blocks]
  | c :: cs, x, hx => by
    have h1 := take_width_length hx
    have h2 := drop_width_length hx
    obtain ⟨a, b⟩ := mapBlocks_blocks f hlen cs _ h2
    simp only [mapBlocks]
    rw [blocks_cons_append (by rw [hlen]; exact h1)]
    refine ⟨?_, by simp [blocks, b]⟩
    rw [List.length_append, hlen, a, ← List.length_append, List.take_append_drop]

theorem roundIntBlock_length (c : Component) (b : List Rat) : (roundIntBlock c b).length = b.length := by
  cases c <;> simp [roundIntBlock]
theorem roundGridBlock_length (c : Component) (b : List Rat) : (roundGridBlock c b).length = b.length := by
  cases c <;> simp [roundGridBlock]
theorem roundCatBlock_length (c : Component) (b : List Rat) : (roundCatBlock c b).length = b.length := by
  cases c <;> simp [roundCatBlock, unitVec_length]

theorem nearestFirst_idem (es : List Rat) (v : Rat) : nearestFirst es (nearestFirst es v) = nearestFirst es v := by
  cases es with
  | nil => rfl
  | cons e es => exact nearestFirst_self (nearestFirst_mem v (by simp))

/-- rounding in the one-hot space followed by decoding is decoding -/
theorem decodeComp_roundInt (c : Component) (b : List Rat) (i : Nat) :
    decodeComp c (roundIntBlock c b) i = decodeComp c b i := by
  cases c with
  | int lo hi =>
    cases b with
    | nil => simp [roundIntBlock, decodeComp]
    | cons v vs => simp [roundIntBlock, decodeComp, roundHalfEven_intCast]
  | double lo hi => rfl
  | grid es => rfl
  | cat es => rfl

theorem decodeComp_roundGrid (c : Component) (b : List Rat) (i : Nat) :
    decodeComp c (roundGridBlock c b) i = decodeComp c b i := by
  cases c with
  | grid es =>
    cases b with
    | nil => simp [roundGridBlock, decodeComp]
    | cons v vs => simp [roundGridBlock, decodeComp, nearestFirst_idem]
  | double lo hi => rfl
  | int lo hi => rfl
  | cat es => rfl

theorem decode_mapBlocks (f : Component → List Rat → List Rat)
    (hlen : ∀ c b, (f c b).length = b.length)
    (hdec : ∀ c b i, decodeComp c (f c b) i = decodeComp c b i) :
    ∀ (cs : List Component) (x : List Rat) (ω : List Nat), x.length = totalWidth cs →
      decode cs (mapBlocks f cs x) ω = decode cs x ω
  | [], x, ω, _ => rfl
  | c :: cs, x, ω, hx => by
    have h1 := take_width_length hx
    have h2 := drop_width_length hx
    have hl : (f c (x.take c.width)).length = c.width := by rw [hlen]; exact h1
    simp only [mapBlocks, decode]
    rw [List.take_left' hl, List.drop_left' hl, hdec, decode_mapBlocks f hlen hdec cs _ _ h2]

/-! ### length scales -/

theorem any_isNone_of_all_isSome : ∀ (l : List (Option Rat)), l.all Option.isSome = true →
    l.any Option.isNone = false
  | [], _ => rfl
  | none :: l, h => by simp at h
  | some a :: l, h => by
    simp only [List.all_cons, Option.isSome_some, Bool.true_and] at h
    simp [any_isNone_of_all_isSome l h]

theorem ls_roundtrip_aux : ∀ (cs : List Component) (ls : List (List (Option Rat))),
    lsShapeOK cs ls = true →
    lsToCategorical cs (lsToOneHot cs ls) = ls.map fun l => l.map fun o => o.getD 0
  | [], [], _ => rfl
  | [], _ :: _, h => by simp [lsShapeOK] at h
  | _ :: _, [], h => by simp [lsShapeOK] at h
  | c :: cs, l :: ls, h => by
    simp only [lsShapeOK, Bool.and_eq_true, decide_eq_true_eq] at h
    simp only [lsToOneHot, any_isNone_of_all_isSome l h.1.2, Bool.false_eq_true, if_false, List.map_cons]
    unfold lsToCategorical
    rw [blocks_cons_append (by simp [h.1.1])]
    congr 1
    exact ls_roundtrip_aux cs ls h.2

theorem ls_roundtrip_aux' : ∀ (cs : List Component) (v : List Rat), v.length = totalWidth cs →
    lsToOneHot cs ((lsToCategorical cs v).map fun b => b.map some) = v
  | [], v, h => by
    simp only [totalWidth, List.length_eq_zero_iff] at h
    simp [h, lsToOneHot]
  | c :: cs, v, h => by
    have h2 := drop_width_length h
    unfold lsToCategorical
    simp only [blocks, List.map_cons, lsToOneHot]
    have hn : ((v.take c.width).map some).any Option.isNone = false := by
      rw [List.any_eq_false]
      intro o ho
      obtain ⟨a, _, rfl⟩ := List.mem_map.mp ho
      simp
    rw [hn]
    simp only [Bool.false_eq_true, if_false, List.map_map]
    have hid : ((fun o : Option Rat => o.getD 0) ∘ some) = id := by funext a; rfl
    rw [hid, List.map_id]
    have := ls_roundtrip_aux' cs (v.drop c.width) h2
    unfold lsToCategorical at this
    rw [this, List.take_append_drop]

/-! ### lattice neighbours -/

theorem allChoices_length : ∀ n, (allChoices n).length = 2 ^ n
  | 0 => rfl
  | n + 1 => by simp [allChoices, allChoices_length n, Nat.pow_succ]; omega

theorem catNeighbourRel_cons (c : Component) (cs : List Component) (x y : List Rat) :
    catNeighbourRel (c :: cs) x y = true ↔
      (match c with
        | .cat es => ∃ i, i < es.length ∧ y.take c.width = unitVec es.length i
        | _ => y.take c.width = x.take c.width)
      ∧ catNeighbourRel cs (x.drop c.width) (y.drop c.width) = true := by
  cases c <;> simp [catNeighbourRel]

theorem neighCat_rel : ∀ (cs : List Component) (x : List Rat), x.length = totalWidth cs →
    ∀ y ∈ neighCat cs x, catNeighbourRel cs x y = true
  | [], x, _, y, hy => by
    simp only [neighCat, List.mem_singleton] at hy
    simp [catNeighbourRel, hy]
  | c :: cs, x, hx, y, hy => by
    have h1 := take_width_length hx
    have h2 := drop_width_length hx
    simp only [neighCat, List.mem_flatMap, List.mem_map] at hy
    obtain ⟨h, hh, t, ht, rfl⟩ := hy
    have ih := neighCat_rel cs _ h2 t ht
    rw [catNeighbourRel_cons]
    cases c with
    | cat es =>
      simp only [List.mem_map, List.mem_range] at hh
      obtain ⟨i, hi, rfl⟩ := hh
      have hl : (unitVec es.length i).length = (Component.cat es).width := by
        simp [unitVec_length, Component.width]
      rw [List.take_left' hl, List.drop_left' hl]
      exact ⟨⟨i, hi, rfl⟩, ih⟩
    | double lo hi =>
      simp only [List.mem_singleton] at hh
      subst hh
      rw [List.take_left' h1, List.drop_left' h1]
      exact ⟨rfl, ih⟩
    | int lo hi =>
      simp only [List.mem_singleton] at hh
      subst hh
      rw [List.take_left' h1, List.drop_left' h1]
      exact ⟨rfl, ih⟩
    | grid es =>
      simp only [List.mem_singleton] at hh
      subst hh
      rw [List.take_left' h1, List.drop_left' h1]
      exact ⟨rfl, ih⟩

theorem neighCat_length : ∀ (cs : List Component) (x : List Rat),
    (neighCat cs x).length = catProduct cs
  | [], x => rfl
  | c :: cs, x => by
    have ih := neighCat_length cs (x.drop c.width)
    cases c with
    | cat es =>
      simp only [neighCat, catProduct, List.length_flatMap, List.length_map, ih, List.map_map]
      have : ((fun _ : List Rat => catProduct cs) ∘ fun i => unitVec es.length i)
          = fun _ : Nat => catProduct cs := rfl
      rw [this]; simp
    | double lo hi => simp [neighCat, catProduct, ih]
    | int lo hi => simp [neighCat, catProduct, ih]
    | grid es => simp [neighCat, catProduct, ih]

theorem catNeighbourRel_inRelaxedBox : ∀ (cs : List Component) (x y : List Rat),
    inRelaxedBox cs x = true → catNeighbourRel cs x y = true → inRelaxedBox cs y = true
  | [], x, y, hx, h => by
    simp only [catNeighbourRel, decide_eq_true_eq] at h
    rw [← h]; exact hx
  | c :: cs, x, y, hx, h => by
    rw [catNeighbourRel_cons] at h
    simp only [inRelaxedBox, Bool.and_eq_true] at hx ⊢
    refine ⟨?_, catNeighbourRel_inRelaxedBox cs _ _ hx.2 h.2⟩
    cases c with
    | cat es =>
      obtain ⟨i, _, e⟩ := h.1
      rw [e]; exact blockOK_unitVec es i
    | double lo hi => have := h.1; simp only at this; rw [this]; exact hx.1
    | int lo hi => have := h.1; simp only at this; rw [this]; exact hx.1
    | grid es => have := h.1; simp only at this; rw [this]; exact hx.1

/-! ### task column -/

theorem encode_append_double : ∀ (cs : List Component) (cfg : List Rat) (lo hi t : Rat),
    cfg.length = cs.length → encode (cs ++ [.double lo hi]) (cfg ++ [t]) = encode cs cfg ++ [t]
  | [], [], lo, hi, t, _ => rfl
  | [], _ :: _, _, _, _, h => by simp at h
  | _ :: _, [], _, _, _, h => by simp at h
  | c :: cs, v :: vs, lo, hi, t, h => by
    simp only [List.cons_append, encode, List.append_assoc]
    rw [encode_append_double cs vs lo hi t (by simpa using h)]


/-! ### encoded valid points lie in the relaxed polytope -/

theorem lmin_le_mem {es : List Rat} {v : Rat} (h : v ∈ es) : lmin es ≤ v := by
  cases es with
  | nil => cases h
  | cons e es =>
    rcases List.mem_cons.mp h with rfl | h
    · exact Proofs.foldl_min_le_acc es _
    · exact Proofs.foldl_min_le_mem es e v h

theorem mem_le_lmax {es : List Rat} {v : Rat} (h : v ∈ es) : v ≤ lmax es := by
  cases es with
  | nil => cases h
  | cons e es =>
    rcases List.mem_cons.mp h with rfl | h
    · exact Proofs.acc_le_foldl_max es _
    · exact Proofs.mem_le_foldl_max es e v h

theorem blockOK_encode {c : Component} {v : Rat} (hm : c.mem v = true) : c.blockOK (c.encode v) = true := by
  cases c with
  | double lo hi => simpa [Component.blockOK, Component.encode, Component.mem] using hm
  | int lo hi =>
    simp only [Component.mem, Bool.and_eq_true, decide_eq_true_eq] at hm
    simp [Component.blockOK, Component.encode, hm.1.2, hm.2]
  | grid es =>
    simp only [Component.mem] at hm
    have hv := contains_iff.mp hm
    simp [Component.blockOK, Component.encode, lmin_le_mem hv, mem_le_lmax hv]
  | cat es =>
    simp only [Component.blockOK, Component.encode, List.length_map, decide_true, Bool.true_and,
      List.all_eq_true, List.mem_map, Bool.and_eq_true, decide_eq_true_eq]
    rintro _ ⟨e, _, rfl⟩
    by_cases h : v = e <;> simp [h]

theorem encode_inRelaxedBox : ∀ (cs : List Component) (cfg : List Rat), inBox cs cfg = true →
    inRelaxedBox cs (encode cs cfg) = true
  | [], [], _ => rfl
  | [], _ :: _, h => by simp [inBox] at h
  | _ :: _, [], h => by simp [inBox] at h
  | c :: cs, v :: vs, h => by
    simp only [inBox, Bool.and_eq_true] at h
    simp only [encode, inRelaxedBox, Bool.and_eq_true]
    rw [List.take_left' (encode_length c v), List.drop_left' (encode_length c v)]
    exact ⟨blockOK_encode h.1, encode_inRelaxedBox cs vs h.2⟩

theorem encode_dot (isI : Bool) : ∀ (cs : List Component) (w cfg : List Rat),
    weightsOK isI w cs = true → cfg.length = cs.length →
    dot (ohWeights cs w) (encode cs cfg) = dot w cfg
  | [], w, [], _, _ => by simp [ohWeights, encode, dot_nil_right]
  | [], _, _ :: _, _, h => by simp at h
  | _ :: _, _, [], _, h => by simp at h
  | c :: cs, [], v :: vs, h, _ => by simp [weightsOK] at h
  | c :: cs, w :: ws, v :: vs, h, hl => by
    simp only [weightsOK, Bool.and_eq_true, Bool.or_eq_true, decide_eq_true_eq] at h
    simp only [ohWeights, encode, List.headD_cons, List.tail_cons, dot]
    rw [dot_append, ohWeights_length, List.take_left' (encode_length c v),
      List.drop_left' (encode_length c v), encode_dot isI cs ws vs h.2 (by simpa using hl)]
    congr 1
    cases c with
    | double lo hi => simp [Component.ohWeights, Component.encode, dot]
    | int lo hi => simp [Component.ohWeights, Component.encode, dot]
    | grid es =>
      have : w = 0 := by
        rcases h.1 with e | e
        · exact e
        · cases isI <;> simp [Component.isInt, Component.isDouble] at e
      simp [Component.ohWeights, this, dot_zero_singleton]
    | cat es =>
      have : w = 0 := by
        rcases h.1 with e | e
        · exact e
        · cases isI <;> simp [Component.isInt, Component.isDouble] at e
      simp [Component.ohWeights, this, dot_replicate_zero]

/-! ### an encoded valid point is a lattice point -/

theorem indicator_count (v : Rat) : ∀ (es : List Rat), es.Nodup →
    ((es.map fun e => if v = e then (1 : Rat) else 0).filter fun z => decide (z = 1)).length
      = if v ∈ es then 1 else 0
  | [], _ => by simp
  | e :: es, hn => by
    have hn' := List.nodup_cons.mp hn
    have ih := indicator_count v es hn'.2
    by_cases hv : v = e
    · subst hv
      simp only [List.map_cons, if_true, List.mem_cons, true_or]
      rw [List.filter_cons_of_pos (by simp), List.length_cons, ih]
      simp [hn'.1]
    · simp only [List.map_cons, hv, if_false, List.mem_cons, false_or]
      rw [List.filter_cons_of_neg (by simp), ih]

theorem isUnit_iff (b : List Rat) :
    isUnit b = true ↔ (∀ v ∈ b, v = 0 ∨ v = 1) ∧ (b.filter fun z => decide (z = 1)).length = 1 := by
  simp only [isUnit, Bool.and_eq_true, List.all_eq_true, Bool.or_eq_true, decide_eq_true_eq]

theorem latticeBlock_cat_iff (es b : List Rat) :
    latticeBlock (.cat es) b = true ↔ b.length = es.length ∧ isUnit b = true := by
  simp only [latticeBlock, Bool.and_eq_true, decide_eq_true_eq]

theorem latticeBlock_encode {c : Component} {v : Rat} (hw : c.wf = true) (hm : c.mem v = true) :
    latticeBlock c (c.encode v) = true := by
  cases c with
  | double lo hi => simpa [latticeBlock, Component.encode, Component.mem] using hm
  | int lo hi => simpa [latticeBlock, Component.encode, Component.mem] using hm
  | grid es => simpa [latticeBlock, Component.encode, Component.mem] using hm
  | cat es =>
    simp only [Component.wf, Bool.and_eq_true, decide_eq_true_eq] at hw
    simp only [Component.mem] at hm
    have hv := contains_iff.mp hm
    rw [latticeBlock_cat_iff, isUnit_iff]
    simp only [Component.encode, List.length_map, List.mem_map, true_and]
    refine ⟨?_, ?_⟩
    · rintro _ ⟨e, _, rfl⟩
      by_cases h : v = e <;> simp [h]
    · rw [indicator_count v es hw.1.2]; simp [hv]

theorem encode_onLattice : ∀ (cs : List Component) (cfg : List Rat), cs.all Component.wf = true →
    inBox cs cfg = true → onLattice cs (encode cs cfg) = true
  | [], [], _, _ => rfl
  | [], _ :: _, _, h => by simp [inBox] at h
  | _ :: _, [], _, h => by simp [inBox] at h
  | c :: cs, v :: vs, hw, h => by
    simp only [List.all_cons, Bool.and_eq_true] at hw
    simp only [inBox, Bool.and_eq_true] at h
    simp only [encode, onLattice, Bool.and_eq_true]
    rw [List.take_left' (encode_length c v), List.drop_left' (encode_length c v)]
    exact ⟨latticeBlock_encode hw.1 h.1, encode_onLattice cs vs hw.2 h.2⟩

/-! ### the `1e-300` floor of the categorical draw -/

theorem lsum_indicator (a b v : Rat) : ∀ (es : List Rat), es.Nodup →
    lsum (es.map fun e => if v = e then a else b) = (es.length : Rat) * b + (if v ∈ es then a - b else 0)
  | [], _ => by simp [lsum]
  | e :: es, hn => by
    have hn' := List.nodup_cons.mp hn
    have ih := lsum_indicator a b v es hn'.2
    simp only [List.map_cons, lsum, ih, List.length_cons, List.mem_cons]
    by_cases hv : v = e
    · subst hv
      simp only [if_true, true_or, hn'.1, if_false]
      push_cast; ring
    · simp only [hv, if_false, false_or]
      push_cast; ring

end C09
