/- Helper lemmas for C18 (k-centre clustering, per-cluster arg-min). -/
import Model.C18
import Mathlib.Data.List.Nodup
import Mathlib.Data.List.Range
import Batteries.Data.List.Perm
import Mathlib.Tactic.Linarith

namespace C18

/-! ### The order on entries with the `-inf` marker -/

theorem Ext.lt_irrefl (a : Ext) : Ext.lt a a = false := by
  cases a <;> simp [Ext.lt]

theorem Ext.lt_asymm {a b : Ext} (h : Ext.lt a b = true) : Ext.lt b a = false := by
  cases a <;> cases b <;> simp_all [Ext.lt] <;> omega

/-- negative transitivity: `a ≥ b`, `b ≥ c` ⇒ `a ≥ c`. -/
theorem Ext.not_lt_trans {a b c : Ext} (h1 : Ext.lt a b = false) (h2 : Ext.lt b c = false) :
    Ext.lt a c = false := by
  cases a <;> cases b <;> cases c <;> simp_all [Ext.lt] <;> omega

theorem Ext.none_lt_some (x : Int) : Ext.lt none (some x) = true := rfl
theorem Ext.some_lt_some (x y : Int) : Ext.lt (some x) (some y) = decide (x < y) := rfl
theorem Ext.lt_none (a : Ext) : Ext.lt a none = false := by cases a <;> rfl

/-! ### `argBest`: first index of an optimum, for any strict weak order given as a Bool relation -/

section ArgBest
variable {α : Type} (better : α → α → Bool)
  (asymm : ∀ a b, better a b = true → better b a = false)
  (negtrans : ∀ a b c, better a b = false → better b c = false → better a c = false)
include asymm negtrans

omit asymm negtrans in
theorem argBest_le (f : Nat → α) (m : Nat) : argBest better f m ≤ m := by
  induction m with
  | zero => simp [argBest]
  | succ m ih =>
    simp only [argBest]
    split <;> omega

/-- nothing in `0..m` is strictly better than the chosen index. -/
theorem argBest_best (f : Nat → α) (m : Nat) :
    ∀ i, i ≤ m → better (f i) (f (argBest better f m)) = false := by
  induction m with
  | zero =>
    intro i hi
    have : i = 0 := by omega
    subst this
    simp only [argBest]
    cases h : better (f 0) (f 0)
    · rfl
    · have := asymm _ _ h
      simp_all
  | succ m ih =>
    intro i hi
    simp only [argBest]
    by_cases hb : better (f (m + 1)) (f (argBest better f m)) = true
    · rw [if_pos hb]
      by_cases him : i = m + 1
      · subst him
        cases h : better (f (m + 1)) (f (m + 1))
        · rfl
        · have := asymm _ _ h
          simp_all
      · have h1 := ih i (by omega)
        exact negtrans _ _ _ h1 (asymm _ _ hb)
    · rw [if_neg hb]
      by_cases him : i = m + 1
      · subst him
        simpa using hb
      · exact ih i (by omega)

/-- every earlier index is strictly worse than the chosen one (first on ties). -/
theorem argBest_first (f : Nat → α) (m : Nat) :
    ∀ i, i < argBest better f m → better (f (argBest better f m)) (f i) = true := by
  induction m with
  | zero => intro i hi; simp [argBest] at hi
  | succ m ih =>
    intro i hi
    simp only [argBest] at hi ⊢
    by_cases hb : better (f (m + 1)) (f (argBest better f m)) = true
    · rw [if_pos hb] at hi ⊢
      have h1 := argBest_best better asymm negtrans f m i (by omega)
      -- if (m+1) were not better than i, then with i not better than b we would get (m+1) not better than b
      cases h : better (f (m + 1)) (f i)
      · have := negtrans _ _ _ h h1
        simp_all
      · rfl
    · rw [if_neg hb] at hi ⊢
      exact ih i hi

end ArgBest

/-! Instances for the three orders used by the code. -/

theorem argmaxExt_lt (f : Nat → Ext) {n : Nat} (hn : 0 < n) : argmaxExt f n < n := by
  have := argBest_le (fun a b => Ext.lt b a) f (n - 1)
  unfold argmaxExt; omega

theorem argmaxExt_max (f : Nat → Ext) {n : Nat} (i : Nat) (hi : i < n) :
    Ext.lt (f (argmaxExt f n)) (f i) = false :=
  argBest_best (fun a b => Ext.lt b a) (fun _ _ h => Ext.lt_asymm h)
    (fun _ _ _ h1 h2 => Ext.not_lt_trans h2 h1) f (n - 1) i (by omega)

theorem argmaxExt_first (f : Nat → Ext) {n : Nat} (i : Nat) (hi : i < argmaxExt f n) :
    Ext.lt (f i) (f (argmaxExt f n)) = true :=
  argBest_first (fun a b => Ext.lt b a) (fun _ _ h => Ext.lt_asymm h)
    (fun _ _ _ h1 h2 => Ext.not_lt_trans h2 h1) f (n - 1) i hi

theorem argminExt_lt (f : Nat → Ext) {n : Nat} (hn : 0 < n) : argminExt f n < n := by
  have := argBest_le (fun a b => Ext.lt a b) f (n - 1)
  unfold argminExt; omega

theorem argminExt_min (f : Nat → Ext) {n : Nat} (i : Nat) (hi : i < n) :
    Ext.lt (f i) (f (argminExt f n)) = false :=
  argBest_best (fun a b => Ext.lt a b) (fun _ _ h => Ext.lt_asymm h)
    (fun _ _ _ h1 h2 => Ext.not_lt_trans h1 h2) f (n - 1) i (by omega)

theorem argminExt_first (f : Nat → Ext) {n : Nat} (i : Nat) (hi : i < argminExt f n) :
    Ext.lt (f (argminExt f n)) (f i) = true :=
  argBest_first (fun a b => Ext.lt a b) (fun _ _ h => Ext.lt_asymm h)
    (fun _ _ _ h1 h2 => Ext.not_lt_trans h1 h2) f (n - 1) i hi

private theorem int_asymm (a b : Int) (h : decide (a < b) = true) : decide (b < a) = false := by
  simp at h ⊢; omega
private theorem int_negtrans (a b c : Int) (h1 : decide (a < b) = false) (h2 : decide (b < c) = false) :
    decide (a < c) = false := by
  simp at h1 h2 ⊢; omega

theorem argminInt_lt (v : Nat → Int) {n : Nat} (hn : 0 < n) : argminInt v n < n := by
  have := argBest_le (fun a b : Int => decide (a < b)) v (n - 1)
  unfold argminInt; omega

theorem argminInt_min (v : Nat → Int) {n : Nat} (i : Nat) (hi : i < n) : v (argminInt v n) ≤ v i := by
  have := argBest_best (fun a b : Int => decide (a < b)) int_asymm int_negtrans v (n - 1) i (by omega)
  unfold argminInt
  simp at this; omega

theorem argminInt_first (v : Nat → Int) {n : Nat} (i : Nat) (hi : i < argminInt v n) :
    v (argminInt v n) < v i := by
  have := argBest_first (fun a b : Int => decide (a < b)) int_asymm int_negtrans v (n - 1) i hi
  unfold argminInt
  simpa using this

/-! ### Column minimum over the rows written so far -/

theorem row_self (d : Nat → Nat → Int) (c : Nat) : row d c c = none := by simp [row]
theorem row_ne (d : Nat → Nat → Int) {c p : Nat} (h : p ≠ c) : row d c p = some (d c p) := by
  simp [row, h]

theorem Ext.min_none_left (b : Ext) : Ext.min none b = none := by
  cases b <;> simp [Ext.min, Ext.lt]
theorem Ext.min_none_right (a : Ext) : Ext.min a none = none := by
  cases a <;> simp [Ext.min, Ext.lt]
theorem Ext.min_some (x y : Int) : Ext.min (some x) (some y) = some (if y < x then y else x) := by
  simp only [Ext.min, Ext.lt]
  by_cases h : y < x <;> simp [h]

/-- a chosen centre's column minimum is the marker. -/
theorem colMin_mem (d : Nat → Nat → Int) (cs : List Nat) (p : Nat) (h : p ∈ cs) :
    colMin d cs p = none := by
  induction cs with
  | nil => simp at h
  | cons c cs ih =>
    cases cs with
    | nil =>
      have : p = c := by simpa using h
      subst this
      simp [colMin, row_self]
    | cons c' cs =>
      simp only [colMin]
      rcases List.mem_cons.mp h with h | h
      · subst h; rw [row_self, Ext.min_none_left]
      · rw [ih h, Ext.min_none_right]

/-- a non-centre's column minimum is its plain minimal distance to the centres. -/
theorem colMin_not_mem (d : Nat → Nat → Int) (cs : List Nat) (hne : cs ≠ []) (p : Nat) (h : p ∉ cs) :
    colMin d cs p = some (minDist d cs p) := by
  induction cs with
  | nil => exact absurd rfl hne
  | cons c cs ih =>
    cases cs with
    | nil =>
      have : p ≠ c := by simpa using h
      simp [colMin, minDist, row_ne d this]
    | cons c' cs =>
      have hpc : p ≠ c := fun e => h (by simp [e])
      have hrest : p ∉ c' :: cs := fun e => h (List.mem_cons_of_mem _ e)
      simp only [colMin, minDist]
      rw [ih (by simp) hrest, row_ne d hpc, Ext.min_some]

/-- `minDist` is the minimum of `d c p` over the centres `c`. -/
theorem minDist_le (d : Nat → Nat → Int) (cs : List Nat) (p : Nat) :
    ∀ c ∈ cs, minDist d cs p ≤ d c p := by
  induction cs with
  | nil => intro c h; simp at h
  | cons c0 cs ih =>
    cases cs with
    | nil => intro c h; have : c = c0 := by simpa using h
             subst this; simp [minDist]
    | cons c' cs =>
      intro c h
      simp only [minDist]
      rcases List.mem_cons.mp h with h | h
      · subst h; split <;> omega
      · have := ih c h
        split <;> omega

theorem minDist_attained (d : Nat → Nat → Int) (cs : List Nat) (hne : cs ≠ []) (p : Nat) :
    ∃ c ∈ cs, minDist d cs p = d c p := by
  induction cs with
  | nil => exact absurd rfl hne
  | cons c0 cs ih =>
    cases cs with
    | nil => exact ⟨c0, by simp, by simp [minDist]⟩
    | cons c' cs =>
      simp only [minDist]
      obtain ⟨c, hc, he⟩ := ih (by simp)
      split
      · exact ⟨c, List.mem_cons_of_mem _ hc, he⟩
      · exact ⟨c0, by simp, rfl⟩

/-! ### Pigeonhole: fewer than `n` distinct indices below `n` leave one out -/

theorem exists_not_mem (cs : List Nat) (n : Nat) (hlen : cs.length < n) :
    ∃ p, p < n ∧ p ∉ cs := by
  by_contra hcon
  have hsub : List.range n ⊆ cs := by
    intro p hp
    by_contra hp'
    exact hcon ⟨p, List.mem_range.mp hp, hp'⟩
  have := (List.subperm_of_subset (List.nodup_range (n := n)) hsub).length_le
  simp at this
  omega

/-! ### Centres -/

theorem centresAux_length (d : Nat → Nat → Int) (n first j : Nat) :
    (centresAux d n first j).length = j + 1 := by
  induction j with
  | zero => simp [centresAux]
  | succ j ih => simp [centresAux, ih]

theorem centresAux_ne_nil (d : Nat → Nat → Int) (n first j : Nat) : centresAux d n first j ≠ [] := by
  intro h
  have := centresAux_length d n first j
  rw [h] at this
  simp at this

/-- earlier centre lists are prefixes of later ones. -/
theorem centresAux_take (d : Nat → Nat → Int) (n first : Nat) (j i : Nat) (h : i ≤ j) :
    (centresAux d n first j).take (i + 1) = centresAux d n first i := by
  induction j with
  | zero =>
    have : i = 0 := by omega
    subst this
    simp [centresAux]
  | succ j ih =>
    by_cases hij : i = j + 1
    · subst hij
      have := centresAux_length d n first (j + 1)
      rw [List.take_of_length_le (by omega)]
    · have hle : i ≤ j := by omega
      simp only [centresAux]
      rw [List.take_append_of_le_length (by rw [centresAux_length]; omega)]
      exact ih hle

/-- the centre appended in pass `j + 1`. -/
theorem centresAux_getElem_succ (d : Nat → Nat → Int) (n first j : Nat) :
    (centresAux d n first (j + 1)).getD (j + 1) 0
      = argmaxExt (colMin d (centresAux d n first j)) n := by
  simp only [centresAux]
  have hl := centresAux_length d n first j
  rw [List.getD_eq_getElem?_getD, List.getElem?_append_right (by omega)]
  simp [hl]

/-- Invariant of the loop: as long as no more centres than points are requested, the centres are
    valid indices, pairwise distinct, and the newly appended one is not an old one. -/
theorem centresAux_inv (d : Nat → Nat → Int) (n first : Nat) (hf : first < n) (j : Nat) (hj : j + 1 ≤ n) :
    (centresAux d n first j).Nodup ∧ ∀ c ∈ centresAux d n first j, c < n := by
  induction j with
  | zero => simp [centresAux, hf]
  | succ j ih =>
    obtain ⟨hnd, hlt⟩ := ih (by omega)
    have hlen := centresAux_length d n first j
    have hne := centresAux_ne_nil d n first j
    obtain ⟨p, hpn, hpc⟩ := exists_not_mem (centresAux d n first j) n (by omega)
    have hx : argmaxExt (colMin d (centresAux d n first j)) n ∉ centresAux d n first j := by
      intro hmem
      have h1 := argmaxExt_max (colMin d (centresAux d n first j)) p hpn
      rw [colMin_mem d _ _ hmem, colMin_not_mem d _ hne p hpc] at h1
      simp [Ext.lt] at h1
    have hxn : argmaxExt (colMin d (centresAux d n first j)) n < n := argmaxExt_lt _ (by omega)
    constructor
    · simp only [centresAux]
      rw [List.nodup_append]
      refine ⟨hnd, by simp, ?_⟩
      intro a ha b hb
      have : b = argmaxExt (colMin d (centresAux d n first j)) n := by simpa using hb
      subst this
      intro hab
      exact hx (hab ▸ ha)
    · intro c hc
      simp only [centresAux, List.mem_append, List.mem_singleton] at hc
      rcases hc with hc | hc
      · exact hlt c hc
      · rw [hc]; exact hxn

/-! ### The per-cluster best loop -/

/-- What the table knows about cluster `c` after the first `m` observations. -/
def BestInv (part : Nat → Nat) (v : Nat → Int) (m : Nat) (t : BestTable) : Prop :=
  ∀ c, (look t c = none ∧ ∀ i, i < m → part i ≠ c) ∨
       (∃ b, look t c = some b ∧ b < m ∧ part b = c ∧ (∀ i, i < m → part i = c → v b ≤ v i) ∧
             (∀ i, i < b → part i = c → v b < v i))

theorem bestInv_step (part : Nat → Nat) (v : Nat → Int) (m : Nat) (t : BestTable)
    (h : BestInv part v m t) : BestInv part v (m + 1) (bestStep part v t m) := by
  intro c
  by_cases hc : part m = c
  · -- the cluster of the new observation
    rcases h c with ⟨hnone, hall⟩ | ⟨b, hb, hbm, hpb, hmin, hfirst⟩
    · right
      refine ⟨m, ?_, by omega, hc, ?_, ?_⟩
      · simp [bestStep, hc, hnone, upd, look]
      · intro i hi hpi
        by_cases him : i = m
        · subst him; exact le_refl _
        · exact absurd hpi (hall i (by omega))
      · intro i hi hpi
        exact absurd hpi (hall i hi)
    · by_cases hlt : v m < v b
      · right
        refine ⟨m, ?_, by omega, hc, ?_, ?_⟩
        · simp [bestStep, hc, hb, hlt, upd, look]
        · intro i hi hpi
          by_cases him : i = m
          · subst him; exact le_refl _
          · have := hmin i (by omega) hpi
            omega
        · intro i hi hpi
          have := hmin i hi hpi
          omega
      · right
        refine ⟨b, ?_, by omega, hpb, ?_, hfirst⟩
        · simp [bestStep, hc, hb, hlt]
        · intro i hi hpi
          by_cases him : i = m
          · subst him; omega
          · exact hmin i (by omega) hpi
  · -- another cluster: its entry is untouched
    have hsame : look (bestStep part v t m) c = look t c := by
      unfold bestStep
      have hne : c ≠ part m := fun e => hc e.symm
      cases ht : look t (part m) with
      | none => simp [upd, look, hne]
      | some b =>
        by_cases hlt : v m < v b
        · simp [hlt, upd, look, hne]
        · simp [hlt]
    rcases h c with ⟨hnone, hall⟩ | ⟨b, hb, hbm, hpb, hmin, hfirst⟩
    · left
      refine ⟨by rw [hsame]; exact hnone, ?_⟩
      intro i hi
      by_cases him : i = m
      · subst him; exact hc
      · exact hall i (by omega)
    · right
      refine ⟨b, by rw [hsame]; exact hb, by omega, hpb, ?_, hfirst⟩
      intro i hi hpi
      by_cases him : i = m
      · subst him; exact absurd hpi hc
      · exact hmin i (by omega) hpi

theorem bestInv_table (part : Nat → Nat) (v : Nat → Int) (n : Nat) :
    BestInv part v n (bestTable part v n) := by
  induction n with
  | zero =>
    intro c
    left
    exact ⟨by simp [bestTable, look], by intro i hi; omega⟩
  | succ n ih =>
    have : bestTable part v (n + 1) = bestStep part v (bestTable part v n) n := by
      simp [bestTable, List.range_succ, List.foldl_append]
    rw [this]
    exact bestInv_step part v n _ ih

theorem getD0 (l : List Nat) {i : Nat} (h : i < l.length) : l.getD i 0 = l[i] := by
  simp [List.getD_eq_getElem?_getD, h]

/-- a centre's own row carries the marker, every other row a proper distance: the arg-min over the
    rows is the centre's own row. -/
theorem partitionOf_centre (d : Nat → Nat → Int) (cs : List Nat) (hnd : cs.Nodup) (k : Nat)
    (hlen : cs.length = k) (j : Nat) (hj : j < k) : partitionOf d cs k (cs.getD j 0) = j := by
  have hjl : j < cs.length := by omega
  rw [getD0 cs hjl]
  have hb : partitionOf d cs k cs[j] < k := argminExt_lt _ (by omega)
  have hmin := argminExt_min (fun i => row d (cs.getD i 0) cs[j]) (n := k) j hj
  change Ext.lt (row d (cs.getD j 0) cs[j]) (row d (cs.getD (partitionOf d cs k cs[j]) 0) cs[j]) = false
    at hmin
  rw [getD0 cs hjl, row_self] at hmin
  have heq : cs[j] = cs.getD (partitionOf d cs k cs[j]) 0 := by
    by_contra h
    rw [row_ne d h] at hmin
    simp [Ext.lt] at hmin
  rw [getD0 cs (by omega)] at heq
  exact ((hnd.getElem_inj_iff).mp heq).symm

theorem filterMap_eq_map_of_some {α β : Type} (f : α → Option β) (g : α → β) (l : List α)
    (h : ∀ a ∈ l, f a = some (g a)) : l.filterMap f = l.map g := by
  induction l with
  | nil => rfl
  | cons a l ih =>
    rw [List.filterMap_cons, h a (by simp)]
    simp only [List.map_cons]
    rw [ih (fun x hx => h x (List.mem_cons_of_mem _ hx))]

theorem getD_default (l : List Nat) {i : Nat} (h : i < l.length) (a b : Nat) :
    l.getD i a = l.getD i b := by
  simp [List.getD_eq_getElem?_getD, h]

theorem centres_take (d : Nat → Nat → Int) (n first k : Nat) (j : Nat) (hj : j + 1 ≤ k) :
    (centres d n first k).take (j + 1) = centresAux d n first j := by
  unfold centres
  exact centresAux_take d n first (k - 1) j (by omega)

theorem centres_getD_succ (d : Nat → Nat → Int) (n first k : Nat) (j : Nat) (hj : j + 1 < k) :
    (centres d n first k).getD (j + 1) 0 = argmaxExt (colMin d (centresAux d n first j)) n := by
  rw [← centresAux_getElem_succ d n first j, ← centres_take d n first k (j + 1) (by omega)]
  rw [List.getD_eq_getElem?_getD, List.getD_eq_getElem?_getD, List.getElem?_take]
  simp

/-- when no cluster is empty, filtering out `None` removes nothing. -/
theorem bestIndices_eq_map (v : Nat → Int) (n k : Nat) (part : Nat → Nat)
    (hne : ∀ j, j < k → ∃ p, p < n ∧ part p = j) :
    bestIndices part v n k = (List.range k).map (fun j => (look (bestTable part v n) j).getD 0) := by
  apply filterMap_eq_map_of_some
  intro j hj
  rcases bestInv_table part v n j with ⟨_, hall⟩ | ⟨b, hb, _⟩
  · obtain ⟨p, hp, hpj⟩ := hne j (List.mem_range.mp hj)
    exact absurd hpj (hall p hp)
  · rw [hb]; rfl

end C18
