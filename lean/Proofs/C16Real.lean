/- Helper lemmas for C16 (real-number part): the `Arith ℝ` instance of the density / ratio / bandwidth
   definitions unfolds to ordinary real arithmetic; means, the ratio, radial profiles, bandwidths. -/
import Model.C16
import Proofs.ArithReal
import Mathlib.Tactic.Linarith
import Mathlib.Tactic.Positivity
import Mathlib.Tactic.FieldSimp
import Mathlib.Tactic.Ring
import Mathlib.Tactic.NormNum
import Mathlib.Data.Rat.Cast.Order
import Mathlib.Analysis.Complex.Exponential

namespace C16

/-! ### unfolding the `Arith ℝ` instance -/

theorem sum_real (xs : List ℝ) : Arith.sum xs = xs.sum := by
  induction xs with
  | nil => simp [Arith.sum]
  | cons x xs ih => simp only [Arith.sum, List.sum_cons, ih]

theorem mean_real (xs : List ℝ) : mean xs = xs.sum / (xs.length : ℝ) := by
  unfold mean; rw [sum_real]; rfl

theorem ratio_real (γ l g : ℝ) : ratio γ l g = 1 / (γ + g / l * (1 - γ)) := rfl

theorem ofRatNonneg_real (q : Rat) (hq : 0 ≤ q) : (ofRatNonneg q : ℝ) = (q : ℝ) := by
  unfold ofRatNonneg
  show ((q.num.toNat : ℕ) : ℝ) / ((q.den : ℕ) : ℝ) = (q : ℝ)
  rw [Rat.cast_def, ← Int.cast_natCast (R := ℝ) q.num.toNat, Int.toNat_of_nonneg (Rat.num_nonneg.mpr hq)]

theorem lowerFloor_real : (lowerFloor : ℝ) = ((lowerFloorQ : Rat) : ℝ) := by
  unfold lowerFloor
  exact ofRatNonneg_real _ (by norm_num [lowerFloorQ])

theorem stdEps_real : (stdEps : ℝ) = ((stdEpsQ : Rat) : ℝ) := by
  unfold stdEps
  exact ofRatNonneg_real _ (by norm_num [stdEpsQ])

theorem catLengthScale_real : (catLengthScale : ℝ) = ((catLengthScaleQ : Rat) : ℝ) := by
  unfold catLengthScale
  exact ofRatNonneg_real _ (by norm_num [catLengthScaleQ])

/-! ### sums and means -/

theorem list_sum_nonneg' (xs : List ℝ) (h : ∀ a ∈ xs, 0 ≤ a) : 0 ≤ xs.sum := by
  induction xs with
  | nil => simp
  | cons x xs ih =>
    rw [List.sum_cons]
    have h1 : 0 ≤ x := h x (List.mem_cons_self ..)
    have h2 : 0 ≤ xs.sum := ih (fun a ha => h a (List.mem_cons_of_mem _ ha))
    linarith

theorem list_sum_le_length_mul (xs : List ℝ) (m : ℝ) (h : ∀ a ∈ xs, a ≤ m) :
    xs.sum ≤ (xs.length : ℝ) * m := by
  induction xs with
  | nil => simp
  | cons x xs ih =>
    rw [List.sum_cons, List.length_cons]
    have h1 : x ≤ m := h x (List.mem_cons_self ..)
    have h2 := ih (fun a ha => h a (List.mem_cons_of_mem _ ha))
    push_cast
    linarith

theorem mean_nonneg (xs : List ℝ) (h : ∀ a ∈ xs, 0 ≤ a) : 0 ≤ mean xs := by
  rw [mean_real]
  exact div_nonneg (list_sum_nonneg' xs h) (Nat.cast_nonneg _)

theorem mean_le_of_forall_le (xs : List ℝ) (m : ℝ) (hne : xs ≠ []) (h : ∀ a ∈ xs, a ≤ m) :
    mean xs ≤ m := by
  rw [mean_real]
  have hn : (0 : ℝ) < (xs.length : ℝ) := by
    have : 0 < xs.length := List.length_pos_of_ne_nil hne
    exact_mod_cast this
  rw [div_le_iff₀ hn]
  have := list_sum_le_length_mul xs m h
  linarith

/-- Appending a value that is at least as large as every member does not lower the mean. -/
theorem mean_append_singleton_ge (xs : List ℝ) (m : ℝ) (hne : xs ≠ []) (h : ∀ a ∈ xs, a ≤ m) :
    mean xs ≤ mean (xs ++ [m]) := by
  rw [mean_real, mean_real]
  have hn : (0 : ℝ) < (xs.length : ℝ) := by
    have : 0 < xs.length := List.length_pos_of_ne_nil hne
    exact_mod_cast this
  have hS := list_sum_le_length_mul xs m h
  simp only [List.sum_append, List.sum_cons, List.sum_nil, add_zero, List.length_append,
    List.length_cons, List.length_nil, zero_add]
  push_cast
  rw [div_le_div_iff₀ hn (by linarith)]
  nlinarith

/-! ### the improvement ratio -/

theorem ratio_den_pos (γ l g : ℝ) (h0 : 0 < γ) (h1 : γ < 1) (hg : 0 ≤ g) (hl : 0 < l) :
    0 < γ + g / l * (1 - γ) := by
  have : 0 ≤ g / l * (1 - γ) := mul_nonneg (div_nonneg hg hl.le) (by linarith)
  linarith

theorem ratio_pos (γ l g : ℝ) (h0 : 0 < γ) (h1 : γ < 1) (hg : 0 ≤ g) (hl : 0 < l) :
    0 < ratio γ l g := by
  rw [ratio_real]
  exact one_div_pos.mpr (ratio_den_pos γ l g h0 h1 hg hl)

theorem ratio_le (γ l g : ℝ) (h0 : 0 < γ) (h1 : γ < 1) (hg : 0 ≤ g) (hl : 0 < l) :
    ratio γ l g ≤ 1 / γ := by
  rw [ratio_real]
  have : 0 ≤ g / l * (1 - γ) := mul_nonneg (div_nonneg hg hl.le) (by linarith)
  exact one_div_le_one_div_of_le h0 (by linarith)

theorem ratio_eq_top_iff (γ l g : ℝ) (h0 : 0 < γ) (h1 : γ < 1) (hg : 0 ≤ g) (hl : 0 < l) :
    ratio γ l g = 1 / γ ↔ g = 0 := by
  rw [ratio_real]
  have hd := ratio_den_pos γ l g h0 h1 hg hl
  constructor
  · intro h
    have h2 : γ + g / l * (1 - γ) = γ := by
      have := congrArg (fun t => 1 / t) h
      simpa using this
    have h3 : g / l * (1 - γ) = 0 := by linarith
    have h4 : g / l = 0 := by
      rcases mul_eq_zero.mp h3 with h | h
      · exact h
      · exfalso; linarith
    rcases div_eq_zero_iff.mp h4 with h | h
    · exact h
    · exfalso; linarith
  · rintro rfl; simp

theorem ratio_antitone_greater (γ l g g' : ℝ) (h0 : 0 < γ) (h1 : γ < 1) (hg : 0 ≤ g) (hgg : g ≤ g')
    (hl : 0 < l) : ratio γ l g' ≤ ratio γ l g := by
  rw [ratio_real, ratio_real]
  have hd := ratio_den_pos γ l g h0 h1 hg hl
  apply one_div_le_one_div_of_le hd
  have : g / l ≤ g' / l := div_le_div_of_nonneg_right hgg hl.le
  have h2 : g / l * (1 - γ) ≤ g' / l * (1 - γ) := mul_le_mul_of_nonneg_right this (by linarith)
  linarith

theorem ratio_monotone_lower (γ l l' g : ℝ) (h0 : 0 < γ) (h1 : γ < 1) (hg : 0 ≤ g) (hl : 0 < l)
    (hll : l ≤ l') : ratio γ l g ≤ ratio γ l' g := by
  rw [ratio_real, ratio_real]
  have hl' : 0 < l' := lt_of_lt_of_le hl hll
  have hd := ratio_den_pos γ l' g h0 h1 hg hl'
  apply one_div_le_one_div_of_le hd
  have : g / l' ≤ g / l := div_le_div_of_nonneg_left hg hl hll
  have h2 : g / l' * (1 - γ) ≤ g / l * (1 - γ) := mul_le_mul_of_nonneg_right this (by linarith)
  linarith

/-! ### radial profiles: `0 < φ(s) ≤ 1 = φ(0)` for `s ≥ 0` -/

theorem profile_se (s : ℝ) : profile Kind.se s = Real.exp (-(s / 2)) := by
  show Real.exp (-(s / ((2 : ℕ) : ℝ))) = _
  norm_num
theorem profile_c0 (s : ℝ) : profile Kind.c0 s = Real.exp (-Real.sqrt s) := rfl
theorem profile_c2 (s : ℝ) : profile Kind.c2 s = (1 + Real.sqrt s) * Real.exp (-Real.sqrt s) := rfl
theorem profile_c4 (s : ℝ) :
    profile Kind.c4 s = (1 + Real.sqrt s + s / 3) * Real.exp (-Real.sqrt s) := by
  show (1 + Real.sqrt s + s / ((3 : ℕ) : ℝ)) * Real.exp (-Real.sqrt s) = _
  norm_num

theorem profile_zero (kind : Kind) : profile kind (0 : ℝ) = 1 := by
  cases kind
  · rw [profile_se]; simp
  · rw [profile_c0]; simp
  · rw [profile_c2]; simp
  · rw [profile_c4]; simp

theorem profile_pos (kind : Kind) (s : ℝ) (hs : 0 ≤ s) : 0 < profile kind s := by
  have hr : 0 ≤ Real.sqrt s := Real.sqrt_nonneg s
  cases kind
  · rw [profile_se]; exact Real.exp_pos _
  · rw [profile_c0]; exact Real.exp_pos _
  · rw [profile_c2]; exact mul_pos (by linarith) (Real.exp_pos _)
  · rw [profile_c4]
    have : 0 ≤ s / 3 := div_nonneg hs (by norm_num)
    exact mul_pos (by linarith) (Real.exp_pos _)

theorem profile_le_one (kind : Kind) (s : ℝ) (hs : 0 ≤ s) : profile kind s ≤ 1 := by
  have hr : 0 ≤ Real.sqrt s := Real.sqrt_nonneg s
  have hsq : Real.sqrt s ^ 2 = s := Real.sq_sqrt hs
  have hq := Real.quadratic_le_exp_of_nonneg hr
  have hpos := Real.exp_pos (Real.sqrt s)
  have key : ∀ c : ℝ, c ≤ Real.exp (Real.sqrt s) → c * Real.exp (-Real.sqrt s) ≤ 1 := by
    intro c hc
    rw [Real.exp_neg, ← div_eq_mul_inv, div_le_one hpos]
    exact hc
  cases kind
  · rw [profile_se]
    have : 0 ≤ s / 2 := div_nonneg hs (by norm_num)
    exact Real.exp_le_one_iff.mpr (by linarith)
  · rw [profile_c0]
    exact Real.exp_le_one_iff.mpr (by linarith)
  · rw [profile_c2]
    apply key
    nlinarith
  · rw [profile_c4]
    apply key
    nlinarith

/-! ### scaled squared distance and the radial kernel -/

theorem dist2_nonneg (ls xs zs : List ℝ) : 0 ≤ dist2 ls xs zs := by
  induction ls generalizing xs zs with
  | nil => simp [dist2]
  | cons l ls ih =>
    cases xs with
    | nil => simp [dist2]
    | cons x xs =>
      cases zs with
      | nil => simp [dist2]
      | cons z zs =>
        simp only [dist2]
        have := ih xs zs
        have h2 : 0 ≤ (x - z) / l * ((x - z) / l) := mul_self_nonneg _
        linarith

theorem dist2_self (ls xs : List ℝ) : dist2 ls xs xs = 0 := by
  induction ls generalizing xs with
  | nil => simp [dist2]
  | cons l ls ih =>
    cases xs with
    | nil => simp [dist2]
    | cons x xs => simp [dist2, ih xs]

theorem radialKernel_self (kind : Kind) (a : ℝ) (ls x : List ℝ) :
    radialKernel kind (a :: ls) x x = a := by
  simp [radialKernel, dist2_self, profile_zero]

theorem radialKernel_pos (kind : Kind) (a : ℝ) (ls z x : List ℝ) (ha : 0 < a) :
    0 < radialKernel kind (a :: ls) z x := by
  simp only [radialKernel]
  exact mul_pos ha (profile_pos kind _ (dist2_nonneg ls x z))

theorem radialKernel_le_self (kind : Kind) (a : ℝ) (ls z x : List ℝ) (ha : 0 < a) :
    radialKernel kind (a :: ls) z x ≤ radialKernel kind (a :: ls) x x := by
  rw [radialKernel_self]
  simp only [radialKernel]
  have := profile_le_one kind _ (dist2_nonneg ls x z)
  nlinarith

/-! ### bandwidths -/

theorem colStd_nonneg (xs : List ℝ) : 0 ≤ colStd xs := by
  unfold colStd
  exact Real.sqrt_nonneg _

theorem bandwidth_sq (factor eps : ℝ) (xs : List ℝ) (he : 0 ≤ eps) :
    bandwidth factor eps xs * bandwidth factor eps xs = factor ^ 2 * ((colStd xs + eps) / 2) := by
  unfold bandwidth
  have h : 0 ≤ (colStd xs + eps) / 2 := div_nonneg (add_nonneg (colStd_nonneg xs) he) (by norm_num)
  simp only [Arith.real_sqrt, Arith.real_ofNat]
  push_cast
  have := Real.mul_self_sqrt h
  nlinarith

theorem bandwidth_sq_pos (factor eps : ℝ) (xs : List ℝ) (hf : factor ≠ 0) (he : 0 < eps) :
    0 < bandwidth factor eps xs * bandwidth factor eps xs := by
  rw [bandwidth_sq factor eps xs he.le]
  have h : 0 < (colStd xs + eps) / 2 := div_pos (add_pos_of_nonneg_of_pos (colStd_nonneg xs) he) (by norm_num)
  have : 0 < factor ^ 2 := by positivity
  positivity

end C16
