/- Helper lemmas for C10: element lists of a discrete domain, membership, counting. -/
import Proofs.C10Radix
import Mathlib.Data.Rat.Defs
import Mathlib.Data.Rat.Cast.Defs
import Mathlib.Algebra.Order.Field.Rat
import Mathlib.Tactic.Linarith
import Mathlib.Tactic.Push

namespace C10

/-! ### int ranges -/

theorem intRange_length (lo hi : Int) : (intRange lo hi).length = (hi + 1 - lo).toNat := by
  simp [intRange]

theorem mem_intRange {lo hi : Int} {v : Rat} :
    v ∈ intRange lo hi ↔ v.den = 1 ∧ lo ≤ v.num ∧ v.num ≤ hi := by
  simp only [intRange, List.mem_map, List.mem_range]
  constructor
  · rintro ⟨i, hi', rfl⟩
    refine ⟨Rat.den_intCast _, ?_, ?_⟩ <;> rw [Rat.num_intCast] <;> omega
  · rintro ⟨hd, h1, h2⟩
    refine ⟨(v.num - lo).toNat, by omega, ?_⟩
    have : (lo + ((v.num - lo).toNat : Int)) = v.num := by omega
    rw [this]; exact (Rat.den_eq_one_iff v).mp hd

theorem intRange_nodup (lo hi : Int) : (intRange lo hi).Nodup := by
  unfold intRange
  refine List.Nodup.map ?_ List.nodup_range
  intro a b h
  have := Rat.intCast_injective h
  omega

theorem catVals_nodup {es : List Int} (h : es.Nodup) : (catVals es).Nodup :=
  List.Nodup.map Rat.intCast_injective h

theorem catVals_length (es : List Int) : (catVals es).length = es.length := by simp [catVals]

/-! ### element lists of a well-formed discrete domain -/

theorem elems_nodup {c : Comp} (h : c.WF) : c.elems.Nodup := by
  cases c with
  | dbl lo hi => simp [Comp.elems]
  | int lo hi => exact intRange_nodup lo hi
  | cat es => exact catVals_nodup h.2
  | grid es => exact h.2

theorem elems_length_ge {c : Comp} (h : c.WF) (hd : c.isDiscrete = true) : 2 ≤ c.elems.length := by
  cases c with
  | dbl lo hi => simp [Comp.isDiscrete] at hd
  | int lo hi =>
    have : lo < hi := h
    simp only [Comp.elems, intRange_length]; omega
  | cat es => simpa [Comp.elems, catVals_length] using h.1
  | grid es => exact h.1

theorem des_nodup {dom : Domain} (h : WF dom) : ∀ es ∈ desOf dom, es.Nodup := by
  intro es hes
  obtain ⟨c, hc, rfl⟩ := List.mem_map.mp hes
  exact elems_nodup (h c hc)

theorem des_length_ge {dom : Domain} (h : WF dom) (hd : isDiscrete dom = true) :
    ∀ es ∈ desOf dom, 2 ≤ es.length := by
  intro es hes
  obtain ⟨c, hc, rfl⟩ := List.mem_map.mp hes
  exact elems_length_ge (h c hc) (List.all_eq_true.mp hd c hc)

theorem des_ne_nil {dom : Domain} (h : WF dom) (hd : isDiscrete dom = true) :
    ∀ es ∈ desOf dom, es ≠ [] := by
  intro es hes hnil
  have := des_length_ge h hd es hes
  rw [hnil] at this; simp at this

/-! ### membership -/

theorem admissible1_eq_contains {c : Comp} (hd : c.isDiscrete = true) (v : Rat) :
    admissible1 c v = c.elems.contains v := by
  cases c with
  | dbl lo hi => simp [Comp.isDiscrete] at hd
  | int lo hi =>
    simp only [admissible1, Comp.elems]
    rw [Bool.eq_iff_iff]
    simp only [Bool.and_eq_true, decide_eq_true_eq, List.contains_iff_mem, mem_intRange, and_assoc]
  | cat es => rfl
  | grid es => rfl

theorem admissibleRow_eq_rowIn {dom : Domain} (hd : isDiscrete dom = true) (row : Row) :
    admissibleRow dom row = rowIn (desOf dom) row := by
  induction dom generalizing row with
  | nil => cases row <;> simp [admissibleRow, rowIn, desOf]
  | cons c cs ih =>
    simp only [isDiscrete, List.all_cons, Bool.and_eq_true] at hd
    cases row with
    | nil => simp [admissibleRow, rowIn, desOf]
    | cons v vs =>
      simp only [admissibleRow, desOf, List.map_cons, rowIn]
      rw [admissible1_eq_contains hd.1]
      have := ih (by simpa [isDiscrete] using hd.2) vs
      simp only [desOf] at this
      rw [this]

theorem inDomain1_eq_admissible1 {c : Comp} {v : Rat} (h : wellTyped1 c v = true) :
    inDomain1 c v = admissible1 c v := by
  cases c with
  | dbl lo hi => rfl
  | int lo hi =>
    simp only [wellTyped1, decide_eq_true_eq] at h
    have hv : ((v.num : Int) : Rat) = v := (Rat.den_eq_one_iff v).mp h
    simp only [inDomain1, admissible1, h, decide_true, Bool.true_and]
    rw [← hv, Rat.num_intCast]
    simp only [Int.cast_le]
  | cat es => rfl
  | grid es => rfl

theorem keepRow_eq_admissibleRow {dom : Domain} {row : Row} (h : wellTypedRow dom row = true) :
    keepRow dom row = admissibleRow dom row := by
  induction dom generalizing row with
  | nil => cases row <;> simp [keepRow, admissibleRow]
  | cons c cs ih =>
    cases row with
    | nil => simp [keepRow, admissibleRow]
    | cons v vs =>
      simp only [wellTypedRow, Bool.and_eq_true] at h
      simp only [keepRow, admissibleRow, inDomain1_eq_admissible1 h.1, ih h.2]

theorem admissible1_wellTyped {c : Comp} {v : Rat} (h : admissible1 c v = true) :
    wellTyped1 c v = true := by
  cases c with
  | int lo hi =>
    simp only [admissible1, Bool.and_eq_true, decide_eq_true_eq] at h
    simp [wellTyped1, h.1.1]
  | _ => rfl

theorem admissibleRow_wellTyped {dom : Domain} {row : Row} (h : admissibleRow dom row = true) :
    wellTypedRow dom row = true := by
  induction dom generalizing row with
  | nil => cases row <;> simp_all [admissibleRow, wellTypedRow]
  | cons c cs ih =>
    cases row with
    | nil => simp [admissibleRow] at h
    | cons v vs =>
      simp only [admissibleRow, Bool.and_eq_true] at h
      simp [wellTypedRow, admissible1_wellTyped h.1, ih h.2]

/-- an admissible row is always kept by `remove_points_outside_domain` -/
theorem keepRow_of_admissible {dom : Domain} {row : Row} (h : admissibleRow dom row = true) :
    keepRow dom row = true := by
  rw [keepRow_eq_admissibleRow (admissibleRow_wellTyped h)]; exact h

/-! ### the capped running product -/

theorem cappedProd_some {des : List (List Rat)} {acc N : Nat}
    (h : cappedProd (des.map List.length) acc = some N) : N = acc * numConfigs des := by
  induction des generalizing acc with
  | nil => simp [cappedProd] at h; simp [numConfigs, h]
  | cons es rest ih =>
    simp only [List.map_cons, cappedProd] at h
    split_ifs at h with hc
    rw [ih h, numConfigs, Nat.mul_assoc]

theorem numConfigs_pos {des : List (List Rat)} (h : ∀ es ∈ des, es ≠ []) : 0 < numConfigs des := by
  induction des with
  | nil => simp [numConfigs]
  | cons es rest ih =>
    simp only [numConfigs]
    exact Nat.mul_pos (List.length_pos_iff.mpr (h es (List.mem_cons_self ..)))
      (ih fun e he => h e (List.mem_cons_of_mem _ he))

/-- with non-empty element lists the early exit fires exactly when the domain has at least
    `MAX_DISCRETE_DOMAIN_UNIQUENESS_SEARCH` configurations -/
theorem cappedProd_none_iff {des : List (List Rat)} (hne : ∀ es ∈ des, es ≠ []) (acc : Nat) :
    cappedProd (des.map List.length) acc = none ↔ des ≠ [] ∧ maxSearch ≤ acc * numConfigs des := by
  induction des generalizing acc with
  | nil => simp [cappedProd]
  | cons es rest ih =>
    have hrest : ∀ e ∈ rest, e ≠ [] := fun e he => hne e (List.mem_cons_of_mem _ he)
    have hpos := numConfigs_pos hrest
    simp only [List.map_cons, cappedProd, numConfigs]
    split_ifs with hc
    · simp only [ne_eq, reduceCtorEq, not_false_eq_true, true_and, true_iff]
      calc maxSearch ≤ acc * es.length := hc
        _ = acc * es.length * 1 := by ring
        _ ≤ acc * es.length * numConfigs rest := Nat.mul_le_mul_left _ hpos
        _ = acc * (es.length * numConfigs rest) := by ring
    · rw [ih hrest]
      simp only [ne_eq, reduceCtorEq, not_false_eq_true, true_and]
      constructor
      · rintro ⟨_, h⟩; rw [Nat.mul_assoc] at h; exact h
      · intro h
        refine ⟨?_, by rw [Nat.mul_assoc]; exact h⟩
        rintro rfl
        simp only [numConfigs, Nat.mul_one] at h
        exact hc h

/-! ### available indices -/

theorem mem_availIdx {des : List (List Rat)} {N : Nat} {excl : List Row} {i : Nat} :
    i ∈ availIdx des N excl ↔ i < N ∧ i ∉ excl.map (encodeIdx des) := by
  simp [availIdx, availOf]

theorem availIdx_nodup (des : List (List Rat)) (N : Nat) (excl : List Row) :
    (availIdx des N excl).Nodup :=
  List.Nodup.filter _ List.nodup_range

theorem availIdx_length {des : List (List Rat)} {N : Nat} {excl : List Row}
    (hnd : (excl.map (encodeIdx des)).Nodup) (hlt : ∀ i ∈ excl.map (encodeIdx des), i < N) :
    (availIdx des N excl).length = N - excl.length := by
  set S := excl.map (encodeIdx des) with hS
  have hperm := List.filter_append_perm (fun i => !S.contains i) (List.range N)
  have hlen := hperm.length_eq
  simp only [List.length_append, List.length_range, Bool.not_not] at hlen
  have h2 : ((List.range N).filter fun i => S.contains i).Perm S := by
    rw [List.perm_ext_iff_of_nodup (List.Nodup.filter _ List.nodup_range) hnd]
    intro a
    simp only [List.mem_filter, List.mem_range, List.contains_iff_mem]
    exact ⟨fun h => h.2, fun h => ⟨hlt a h, h⟩⟩
  have h3 := h2.length_eq
  have h4 : S.length = excl.length := by simp [hS]
  have : (availIdx des N excl).length = ((List.range N).filter fun i => !S.contains i).length := rfl
  omega

end C10
