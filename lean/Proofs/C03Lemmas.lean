/-
  Helper lemmas for C03 (covariance kernels) over the `ℝ` instance of `Arith`:
  the three squared-distance formulas, the four radial profiles.
-/
import Model.Kernels
import Proofs.ArithReal
import Mathlib.Analysis.SpecialFunctions.Exp
import Mathlib.Analysis.SpecialFunctions.Sqrt
import Mathlib.Analysis.SpecialFunctions.Pow.Real
import Mathlib.Tactic.Ring
import Mathlib.Tactic.Linarith
import Mathlib.Tactic.NormNum
import Mathlib.Tactic.Positivity
import Mathlib.Tactic.FieldSimp

namespace Kernels

/-! ### the `Arith ℝ` structure projections reduce to the usual operations -/

@[simp] theorem sq_real (a : ℝ) : sq a = a * a := rfl
@[simp] theorem two_real : (two : ℝ) = 2 := by simp [two]
@[simp] theorem three_real : (three : ℝ) = 3 := by simp [three]

/-! ### squared scaled distances -/

@[simp] theorem r2_nil_left (x z : List ℝ) : r2 [] x z = 0 := by simp [r2]
@[simp] theorem r2_nil_mid (ls z : List ℝ) : r2 ls [] z = 0 := by cases ls <;> simp [r2]
@[simp] theorem r2_nil_right (ls x : List ℝ) : r2 ls x [] = 0 := by
  cases ls <;> cases x <;> simp [r2]
@[simp] theorem r2_cons (l a b : ℝ) (ls as bs : List ℝ) :
    r2 (l :: ls) (a :: as) (b :: bs) = (a - b) / l * ((a - b) / l) + r2 ls as bs := by simp [r2]

@[simp] theorem r2Scaled_nil_left (x z : List ℝ) : r2Scaled [] x z = 0 := by simp [r2Scaled]
@[simp] theorem r2Scaled_nil_mid (ls z : List ℝ) : r2Scaled ls [] z = 0 := by
  cases ls <;> simp [r2Scaled]
@[simp] theorem r2Scaled_nil_right (ls x : List ℝ) : r2Scaled ls x [] = 0 := by
  cases ls <;> cases x <;> simp [r2Scaled]
@[simp] theorem r2Scaled_cons (l a b : ℝ) (ls as bs : List ℝ) :
    r2Scaled (l :: ls) (a :: as) (b :: bs) = (a / l - b / l) * (a / l - b / l) + r2Scaled ls as bs := by
  simp [r2Scaled]

@[simp] theorem sumSqScaled_nil_left (x : List ℝ) : sumSqScaled [] x = 0 := by simp [sumSqScaled]
@[simp] theorem sumSqScaled_nil_right (ls : List ℝ) : sumSqScaled ls [] = 0 := by
  cases ls <;> simp [sumSqScaled]
@[simp] theorem sumSqScaled_cons (l a : ℝ) (ls as : List ℝ) :
    sumSqScaled (l :: ls) (a :: as) = a / l * (a / l) + sumSqScaled ls as := by simp [sumSqScaled]

@[simp] theorem dotScaled_nil_left (x z : List ℝ) : dotScaled [] x z = 0 := by simp [dotScaled]
@[simp] theorem dotScaled_nil_mid (ls z : List ℝ) : dotScaled ls [] z = 0 := by
  cases ls <;> simp [dotScaled]
@[simp] theorem dotScaled_nil_right (ls x : List ℝ) : dotScaled ls x [] = 0 := by
  cases ls <;> cases x <;> simp [dotScaled]
@[simp] theorem dotScaled_cons (l a b : ℝ) (ls as bs : List ℝ) :
    dotScaled (l :: ls) (a :: as) (b :: bs) = a / l * (b / l) + dotScaled ls as bs := by
  simp [dotScaled]

theorem r2_nonneg' (ls x z : List ℝ) : 0 ≤ r2 ls x z := by
  induction ls generalizing x z with
  | nil => simp
  | cons l ls ih =>
    cases x with
    | nil => simp
    | cons a as =>
      cases z with
      | nil => simp
      | cons b bs =>
        have := ih as bs
        have h2 := mul_self_nonneg ((a - b) / l)
        simp only [r2_cons]; linarith

theorem r2Scaled_eq (ls x z : List ℝ) : r2Scaled ls x z = r2 ls x z := by
  induction ls generalizing x z with
  | nil => simp
  | cons l ls ih =>
    cases x with
    | nil => simp
    | cons a as =>
      cases z with
      | nil => simp
      | cons b bs => simp only [r2Scaled_cons, r2_cons, ih, sub_div]

/-- the expanded square, before clamping -/
theorem expanded_eq (ls x z : List ℝ) (h : x.length = z.length) :
    sumSqScaled ls x + sumSqScaled ls z - 2 * dotScaled ls x z = r2 ls x z := by
  induction ls generalizing x z with
  | nil => simp
  | cons l ls ih =>
    cases x with
    | nil =>
      cases z with
      | nil => simp
      | cons b bs => simp at h
    | cons a as =>
      cases z with
      | nil => simp at h
      | cons b bs =>
        have h' : as.length = bs.length := by simpa using h
        have := ih as bs h'
        simp only [sumSqScaled_cons, dotScaled_cons, r2_cons]
        rw [← this]; ring

theorem r2Expanded_eq (ls x z : List ℝ) (h : x.length = z.length) :
    r2Expanded ls x z = r2 ls x z := by
  unfold r2Expanded
  simp only [two_real, expanded_eq ls x z h]
  exact max_eq_right (r2_nonneg' ls x z)

theorem r2_self' (ls x : List ℝ) : r2 ls x x = 0 := by
  induction ls generalizing x with
  | nil => simp
  | cons l ls ih =>
    cases x with
    | nil => simp
    | cons a as => simp [ih]

theorem r2_symm' (ls x z : List ℝ) : r2 ls x z = r2 ls z x := by
  induction ls generalizing x z with
  | nil => simp
  | cons l ls ih =>
    cases x with
    | nil => simp
    | cons a as =>
      cases z with
      | nil => simp
      | cons b bs =>
        simp only [r2_cons, ih as bs]; ring

/-- shifting both points by the same vector (as `numpy` does: coordinate-wise `+`) -/
theorem r2_translate' (ls x z t : List ℝ) (hx : t.length = x.length) (hz : t.length = z.length) :
    r2 ls (List.zipWith (· + ·) x t) (List.zipWith (· + ·) z t) = r2 ls x z := by
  induction ls generalizing x z t with
  | nil => simp
  | cons l ls ih =>
    cases x with
    | nil => simp
    | cons a as =>
      cases z with
      | nil => simp
      | cons b bs =>
        cases t with
        | nil => simp at hx
        | cons c cs =>
          have hx' : cs.length = as.length := by simpa using hx
          have hz' : cs.length = bs.length := by simpa using hz
          simp only [List.zipWith_cons_cons, r2_cons, ih as bs cs hx' hz']
          ring

/-! ### radial profiles as functions of r -/

/-- the documented closed forms, as functions of the distance r -/
noncomputable def profile : Kind → ℝ → ℝ
  | .se, r => Real.exp (-(r ^ 2) / 2)
  | .c0, r => Real.exp (-r)
  | .c2, r => (1 + r) * Real.exp (-r)
  | .c4, r => (1 + r + r ^ 2 / 3) * Real.exp (-r)

theorem phiR_eq_profile (k : Kind) (r : ℝ) : phiR k r = profile k r := by
  cases k <;> simp [phiR, profile] <;> ring_nf

theorem phi_eq_profile_sqrt (k : Kind) {d : ℝ} (hd : 0 ≤ d) : phi k d = profile k (Real.sqrt d) := by
  cases k <;> simp [phi, profile, Real.sq_sqrt hd] <;> ring_nf

theorem profile_zero (k : Kind) : profile k 0 = 1 := by
  cases k <;> simp [profile]

theorem profile_pos (k : Kind) {r : ℝ} (hr : 0 ≤ r) : 0 < profile k r := by
  cases k <;> simp only [profile]
  · exact Real.exp_pos _
  · exact Real.exp_pos _
  · have := Real.exp_pos (-r); positivity
  · have := Real.exp_pos (-r); positivity

/-- each profile is non-increasing on [0, ∞): elementary, from `1 + t ≤ exp t` and
    `1 + t + t²/2 ≤ exp t`. -/
theorem profile_antitone (k : Kind) {r s : ℝ} (hr : 0 ≤ r) (hrs : r ≤ s) : profile k s ≤ profile k r := by
  have ht : 0 ≤ s - r := by linarith
  have e1 : (s - r) + 1 ≤ Real.exp (s - r) := Real.add_one_le_exp _
  have e2 : 1 + (s - r) + (s - r) ^ 2 / 2 ≤ Real.exp (s - r) := Real.quadratic_le_exp_of_nonneg ht
  have hs : Real.exp (-r) = Real.exp (s - r) * Real.exp (-s) := by
    rw [← Real.exp_add]; congr 1; ring
  have hpos : 0 < Real.exp (-s) := Real.exp_pos _
  cases k <;> simp only [profile]
  · apply Real.exp_le_exp.mpr
    have : r ^ 2 ≤ s ^ 2 := by nlinarith
    linarith
  · apply Real.exp_le_exp.mpr; linarith
  · rw [hs, ← mul_assoc]
    apply mul_le_mul_of_nonneg_right _ hpos.le
    have h1 : (1 + r) * ((s - r) + 1) ≤ (1 + r) * Real.exp (s - r) :=
      mul_le_mul_of_nonneg_left e1 (by linarith)
    nlinarith
  · rw [hs, ← mul_assoc]
    apply mul_le_mul_of_nonneg_right _ hpos.le
    have hq : 0 ≤ 1 + r + r ^ 2 / 3 := by positivity
    have h1 : (1 + r + r ^ 2 / 3) * (1 + (s - r) + (s - r) ^ 2 / 2) ≤ (1 + r + r ^ 2 / 3) * Real.exp (s - r) :=
      mul_le_mul_of_nonneg_left e2 hq
    have hrt : 0 ≤ r * (s - r) := mul_nonneg hr ht
    have hrt2 : 0 ≤ r * (s - r) ^ 2 := mul_nonneg hr (sq_nonneg _)
    have hr2t : 0 ≤ r ^ 2 * (s - r) := mul_nonneg (sq_nonneg _) ht
    have hr2t2 : 0 ≤ r ^ 2 * (s - r) ^ 2 := mul_nonneg (sq_nonneg _) (sq_nonneg _)
    have ht2 : 0 ≤ (s - r) ^ 2 := sq_nonneg _
    nlinarith

theorem profile_le_one (k : Kind) {r : ℝ} (hr : 0 ≤ r) : profile k r ≤ 1 := by
  have := profile_antitone k (le_refl (0 : ℝ)) hr
  rwa [profile_zero] at this

/-! ### multitask splitting commutes with a shift -/

theorem physPart_shift (x t : List ℝ) (h : t.length = x.length) :
    physPart (List.zipWith (· + ·) x t) = List.zipWith (· + ·) (physPart x) (physPart t) := by
  simp [physPart, List.dropLast_eq_take, List.take_zipWith, h]

theorem taskPart_shift (x t : List ℝ) (h : t.length = x.length) :
    taskPart (List.zipWith (· + ·) x t) = List.zipWith (· + ·) (taskPart x) (taskPart t) := by
  simp [taskPart, List.drop_zipWith, h]

/-! ### hyperparameter validation -/

theorem good_iff (e : ExtNum) : ExtNum.good e = true ↔ ∃ q : Rat, e = .fin q ∧ 0 < q := by
  cases e <;> simp [ExtNum.good]

theorem validHyper_cons (a : ExtNum) (t : List ExtNum) :
    validHyper (a :: t) = (ExtNum.good a && validHyper t) := by
  have hq : ∀ q : Rat, (!decide (q ≤ 0)) = decide (0 < q) := by
    intro q
    by_cases h : q ≤ 0
    · simp [h, not_lt.mpr h]
    · simp [h, not_le.mp h]
  cases a <;> simp only [validHyper, List.any_cons, ExtNum.isNan, ExtNum.isInf, ExtNum.leZero, ExtNum.good] <;>
    generalize t.any ExtNum.isNan = x <;> generalize t.any ExtNum.isInf = y <;>
    generalize t.any ExtNum.leZero = w <;> cases x <;> cases y <;> cases w <;> simp [hq]

theorem validHyper_eq_all (h : List ExtNum) : validHyper h = h.all ExtNum.good := by
  induction h with
  | nil => simp [validHyper]
  | cons a t ih => rw [validHyper_cons, ih]; simp

theorem validHyper_append (l1 l2 : List ExtNum) :
    validHyper (l1 ++ l2) = (validHyper l1 && validHyper l2) := by
  simp [validHyper_eq_all]

theorem Radial.set_cons (a : ExtNum) (t : List ExtNum) :
    Radial.set (a :: t) = if validHyper (a :: t) then .ok ⟨a :: t, a, t⟩ else .error .invalid := by
  unfold Radial.set
  cases validHyper (a :: t) <;> simp

theorem good_one : ExtNum.good ExtNum.one = true := by
  simp [ExtNum.good, ExtNum.one]

theorem Multitask.set_cons (kp kt : Kind) (a : ExtNum) (t : List ExtNum) (ht : t ≠ [])
    (hd : (differentiable kp && differentiable kt) = true) (hl : 2 ≤ t.length) :
    Multitask.set kp kt (a :: t) =
      if (ExtNum.good a && validHyper t.dropLast && ExtNum.good (t.getLast ht)) = true then
        .ok ⟨a, ⟨ExtNum.one :: t.dropLast, ExtNum.one, t.dropLast⟩,
              ⟨[ExtNum.one, t.getLast ht], ExtNum.one, [t.getLast ht]⟩⟩
      else .error .invalid := by
  have hlen : ¬ (a :: t).length < 3 := by simp; omega
  have hdl : (a :: t).dropLast.tail = t.dropLast := by
    rw [List.dropLast_cons_of_ne_nil ht]; rfl
  have hlast : (a :: t).getLastD ExtNum.nan = t.getLast ht := by
    cases t with
    | nil => exact absurd rfl ht
    | cons b t' => simp [List.getLast_eq_getLastD, List.getLast?_cons]
  unfold Multitask.set
  simp only [hd, hlen, hdl, hlast, List.headD_cons, Bool.not_true, if_false, Bool.false_eq_true]
  rw [Radial.set_cons, Radial.set_cons]
  simp only [validHyper_cons, good_one, Bool.true_and]
  cases ExtNum.good a <;> cases validHyper t.dropLast <;> cases ExtNum.good (t.getLast ht) <;>
    simp [validHyper]

end Kernels
