/-
  Helper lemmas for Properties/C05.lean: the ℝ reading of the generated constants, the scan lemmas
  for `argminFrom` / `acceptableFrom`, the chunking lemma for `batched`, and the list product.
-/
import Model.C05
import Proofs.ArithReal
import Mathlib.Tactic.Linarith
import Mathlib.Tactic.Ring
import Mathlib.Tactic.NormNum
import Mathlib.Algebra.BigOperators.Group.List.Basic
import Mathlib.Algebra.Order.BigOperators.Ring.List

namespace C05

/-! ### constants -/

theorem ofRat_real (q : Rat) : (ofRat q : ℝ) = (q : ℝ) := by
  unfold ofRat
  rw [Rat.cast_def]
  simp only [Arith.real_ofNat, Nat.cast_natAbs, Int.cast_abs]
  split_ifs with h
  · have h' : (q.num : ℝ) < 0 := by exact_mod_cast h
    rw [abs_of_neg h']; ring
  · have h' : (0 : ℝ) ≤ (q.num : ℝ) := by exact_mod_cast (not_lt.mp h)
    rw [abs_of_nonneg h']

theorem cap_real : (cap : ℝ) = 40 := by
  unfold cap; rw [ofRat_real]; norm_num

theorem defaultKappa_real : (defaultKappa : ℝ) = 1 := by
  unfold defaultKappa; rw [ofRat_real]; norm_num

theorem minAcceptable_real : (minAcceptable : ℝ) = 1 / 2 := by
  unfold minAcceptable; rw [ofRat_real]; norm_num

/-! ### `foldl min` / `foldl max` over ℝ -/

theorem lmin_le_lmax (x : ℝ) (xs : List ℝ) : lmin x xs ≤ lmax x xs := by
  have h1 : ∀ (l : List ℝ) (a : ℝ), l.foldl Arith.min a ≤ a := by
    intro l
    induction l with
    | nil => intro a; simp
    | cons y ys ih => intro a; exact le_trans (ih _) (min_le_left a y)
  have h2 : ∀ (l : List ℝ) (a : ℝ), a ≤ l.foldl Arith.max a := by
    intro l
    induction l with
    | nil => intro a; simp
    | cons y ys ih => intro a; exact le_trans (le_max_left a y) (ih _)
  exact le_trans (h1 xs x) (h2 xs x)

/-! ### chunked evaluation -/

theorem hom_nil {X Y : Type} (f : List X → List Y) (hf : ∀ a b, f (a ++ b) = f a ++ f b) : f [] = [] := by
  have h := congrArg List.length (hf [] [])
  simp only [List.append_nil, List.length_append] at h
  exact List.eq_nil_of_length_eq_zero (by omega)

/-- chunking is invisible for every function that commutes with concatenation -/
theorem batched_eq_of_hom {X Y : Type} (f : List X → List Y) (hf : ∀ a b, f (a ++ b) = f a ++ f b)
    (bs : Nat) (hbs : 1 ≤ bs) (xs : List X) : batched f bs xs = f xs := by
  generalize hn : xs.length = n
  induction n using Nat.strong_induction_on generalizing xs with
  | _ n ih =>
    unfold batched
    split_ifs with h
    · rcases h with h | h
      · omega
      · subst h; exact (hom_nil f hf).symm
    · have hne : xs ≠ [] := fun e => h (Or.inr e)
      have hpos : 0 < xs.length := List.length_pos_iff.mpr hne
      have hlt : (xs.drop bs).length < n := by
        simp only [List.length_drop]; omega
      rw [ih _ hlt (xs.drop bs) rfl, ← hf, List.take_append_drop]

/-! ### the arg-min scan -/

/-- What the scan `argminFrom best bi i xs` returns: either the incoming candidate survives (nothing in
    `xs` is strictly smaller), or the FIRST position of the minimum of `xs`, which is `< best`. -/
theorem argminFrom_spec (xs : List ℝ) : ∀ (best : ℝ) (bi i : Nat),
    (argminFrom best bi i xs = bi ∧ ∀ y ∈ xs, best ≤ y) ∨
    (∃ k v, argminFrom best bi i xs = i + k ∧ xs[k]? = some v ∧ v < best ∧ (∀ y ∈ xs, v ≤ y) ∧
       ∀ j w, j < k → xs[j]? = some w → v < w) := by
  induction xs with
  | nil => intro best bi i; left; simp [argminFrom]
  | cons x xs ih =>
    intro best bi i
    unfold argminFrom
    split_ifs with hx
    · rcases ih x i (i + 1) with ⟨hr, hall⟩ | ⟨k, v, hr, hk, hv, hall, hfirst⟩
      · right
        refine ⟨0, x, by simpa using hr, by simp, hx, ?_, ?_⟩
        · intro y hy
          rcases List.mem_cons.mp hy with rfl | hy
          · exact le_refl _
          · exact hall y hy
        · intro j w hj; omega
      · right
        refine ⟨k + 1, v, by rw [hr]; omega, by simpa using hk, lt_trans hv hx, ?_, ?_⟩
        · intro y hy
          rcases List.mem_cons.mp hy with rfl | hy
          · exact le_of_lt hv
          · exact hall y hy
        · intro j w hj hw
          cases j with
          | zero => simp at hw; rw [← hw]; exact hv
          | succ j => exact hfirst j w (by omega) (by simpa using hw)
    · have hx' : best ≤ x := not_lt.mp hx
      rcases ih best bi (i + 1) with ⟨hr, hall⟩ | ⟨k, v, hr, hk, hv, hall, hfirst⟩
      · left
        refine ⟨hr, ?_⟩
        intro y hy
        rcases List.mem_cons.mp hy with rfl | hy
        · exact hx'
        · exact hall y hy
      · right
        refine ⟨k + 1, v, by rw [hr]; omega, by simpa using hk, hv, ?_, ?_⟩
        · intro y hy
          rcases List.mem_cons.mp hy with rfl | hy
          · exact le_of_lt (lt_of_lt_of_le hv hx')
          · exact hall y hy
        · intro j w hj hw
          cases j with
          | zero => simp at hw; rw [← hw]; exact lt_of_lt_of_le hv hx'
          | succ j => exact hfirst j w (by omega) (by simpa using hw)

/-- `argmin` of a non-empty list: a valid index, holding the minimum, and the first such index. -/
theorem argmin_spec (vals : List ℝ) (h : vals ≠ []) :
    ∃ v, vals[argmin vals]? = some v ∧ (∀ y ∈ vals, v ≤ y) ∧
      ∀ j w, j < argmin vals → vals[j]? = some w → v < w := by
  cases vals with
  | nil => exact absurd rfl h
  | cons x xs =>
    have hdef : argmin (x :: xs) = argminFrom x 0 1 xs := rfl
    rw [hdef]
    rcases argminFrom_spec xs x 0 1 with ⟨hr, hall⟩ | ⟨k, v, hr, hk, hv, hall, hfirst⟩
    · refine ⟨x, by rw [hr]; simp, ?_, ?_⟩
      · intro y hy
        rcases List.mem_cons.mp hy with rfl | hy
        · exact le_refl _
        · exact hall y hy
      · intro j w hj; rw [hr] at hj; omega
    · refine ⟨v, ?_, ?_, ?_⟩
      · rw [hr, Nat.add_comm]; simpa using hk
      · intro y hy
        rcases List.mem_cons.mp hy with rfl | hy
        · exact le_of_lt hv
        · exact hall y hy
      · intro j w hj hw
        cases j with
        | zero => simp at hw; rw [← hw]; exact hv
        | succ j => exact hfirst j w (by rw [hr] at hj; omega) (by simpa using hw)

/-! ### the "likely successful" filter -/

theorem mem_acceptableFrom (ps : List ℝ) : ∀ (i j : Nat),
    j ∈ acceptableFrom i ps ↔ ∃ k p, j = i + k ∧ ps[k]? = some p ∧ 1 / 2 < p := by
  induction ps with
  | nil => intro i j; simp [acceptableFrom]
  | cons p ps ih =>
    intro i j
    unfold acceptableFrom
    rw [minAcceptable_real]
    split_ifs with hp
    · rw [List.mem_cons, ih]
      constructor
      · rintro (rfl | ⟨k, p', rfl, hk, hp'⟩)
        · exact ⟨0, p, rfl, by simp, hp⟩
        · exact ⟨k + 1, p', by omega, by simpa using hk, hp'⟩
      · rintro ⟨k, p', rfl, hk, hp'⟩
        cases k with
        | zero => left; rfl
        | succ k => right; exact ⟨k, p', by omega, by simpa using hk, hp'⟩
    · rw [ih]
      constructor
      · rintro ⟨k, p', rfl, hk, hp'⟩
        exact ⟨k + 1, p', by omega, by simpa using hk, hp'⟩
      · rintro ⟨k, p', rfl, hk, hp'⟩
        cases k with
        | zero => simp at hk; rw [← hk] at hp'; exact absurd hp' hp
        | succ k => exact ⟨k, p', by omega, by simpa using hk, hp'⟩

theorem acceptableFrom_ge (ps : List ℝ) (i j : Nat) (h : j ∈ acceptableFrom i ps) : i ≤ j := by
  rcases (mem_acceptableFrom ps i j).mp h with ⟨k, _, rfl, _, _⟩
  omega

/-- the accepted indices come out in strictly ascending order -/
theorem acceptableFrom_sorted (ps : List ℝ) : ∀ i : Nat, (acceptableFrom i ps).Pairwise (· < ·) := by
  induction ps with
  | nil => intro i; simp [acceptableFrom]
  | cons p ps ih =>
    intro i
    unfold acceptableFrom
    split_ifs with hp
    · refine List.pairwise_cons.mpr ⟨?_, ih (i + 1)⟩
      intro j hj
      have := acceptableFrom_ge ps (i + 1) j hj
      omega
    · exact ih (i + 1)

/-! ### products -/

theorem pfProduct_eq_prod' (ps : List ℝ) : pfProduct ps = ps.prod := by
  unfold pfProduct
  exact (List.prod_eq_foldl (xs := ps)).symm

end C05
