/- Helper lemmas for C08: hit-and-run, affine map, Latin hypercube, grid, fixed coordinates. -/
import Proofs.C08Basic
import Proofs.ListMinMax
import Mathlib.Tactic.FieldSimp
import Mathlib.Tactic.Positivity
import Mathlib.Data.Rat.Floor
import Mathlib.Data.List.Nodup
import Mathlib.Data.List.Perm.Basic

namespace C08
open Proofs

/-! ### max / min of a list -/

theorem maxOf_spec (l : List Rat) (t : Rat) (h : maxOf l = some t) : t ∈ l ∧ ∀ x ∈ l, x ≤ t := by
  cases l with
  | nil => simp [maxOf] at h
  | cons x xs =>
    simp only [maxOf, Option.some.injEq] at h
    subst h
    constructor
    · rcases foldl_max_mem xs x with h | h
      · rw [h]; exact List.mem_cons_self ..
      · exact List.mem_cons_of_mem _ h
    · intro y hy
      rcases List.mem_cons.mp hy with rfl | hy
      · exact acc_le_foldl_max _ _
      · exact mem_le_foldl_max _ _ _ hy

theorem minOf_spec (l : List Rat) (t : Rat) (h : minOf l = some t) : t ∈ l ∧ ∀ x ∈ l, t ≤ x := by
  cases l with
  | nil => simp [minOf] at h
  | cons x xs =>
    simp only [minOf, Option.some.injEq] at h
    subst h
    constructor
    · rcases foldl_min_mem xs x with h | h
      · rw [h]; exact List.mem_cons_self ..
      · exact List.mem_cons_of_mem _ h
    · intro y hy
      rcases List.mem_cons.mp hy with rfl | hy
      · exact foldl_min_le_acc _ _
      · exact foldl_min_le_mem _ _ _ hy

/-! ### hit-and-run -/

theorem addScaled_dot (a x d : Vec) (t : Rat) (h : x.length = d.length) :
    dot a (addScaled x t d) = dot a x + t * dot a d := by
  unfold addScaled
  rw [dot_zipWith _ 1 t (by intro x y; ring) a x d h]; ring

theorem addScaled_length (x d : Vec) (t : Rat) (h : x.length = d.length) : (addScaled x t d).length = x.length := by
  simp [addScaled, h]

theorem hitAndRunStep_sat (rows : List Row) (x d x' : Vec) (u : Rat) (hl : x.length = d.length)
    (hx : satAll rows x = true) (hu0 : 0 ≤ u) (hu1 : u ≤ 1) (hs : hitAndRunStep rows x d u = some x') :
    satAll rows x' = true ∧ x'.length = x.length := by
  unfold hitAndRunStep at hs
  split at hs
  · rename_i tmin tmax hmin hmax
    simp only [Option.some.injEq] at hs
    subst hs
    obtain ⟨hmin_mem, hmin_le⟩ := maxOf_spec _ _ hmin
    obtain ⟨hmax_mem, hmax_le⟩ := minOf_spec _ _ hmax
    rw [satAll_iff] at hx
    -- tmin ≤ 0 ≤ tmax
    have htmin : tmin ≤ 0 := by
      obtain ⟨r, hr, rfl⟩ := List.mem_map.mp hmin_mem
      rw [List.mem_filter] at hr
      have hz : dot r.a d < 0 := by simpa using hr.2
      exact div_nonpos_of_nonneg_of_nonpos (by linarith [hx r hr.1]) (le_of_lt hz)
    have htmax : 0 ≤ tmax := by
      obtain ⟨r, hr, rfl⟩ := List.mem_map.mp hmax_mem
      rw [List.mem_filter] at hr
      have hz : 0 < dot r.a d := by simpa using hr.2
      exact div_nonneg (by linarith [hx r hr.1]) (le_of_lt hz)
    have ht1 : tmin ≤ tmin + (tmax - tmin) * u := by nlinarith
    have ht2 : tmin + (tmax - tmin) * u ≤ tmax := by nlinarith
    refine ⟨?_, addScaled_length _ _ _ hl⟩
    rw [satAll_iff]
    intro r hr
    rw [addScaled_dot _ _ _ _ hl]
    generalize tmin + (tmax - tmin) * u = t at ht1 ht2
    rcases lt_trichotomy (dot r.a d) 0 with hz | hz | hz
    · have hc : (r.b - dot r.a x) / dot r.a d ≤ tmin := by
        apply hmin_le
        exact List.mem_map.mpr ⟨r, List.mem_filter.mpr ⟨hr, by simpa using hz⟩, rfl⟩
      have hc' : (r.b - dot r.a x) / dot r.a d ≤ t := le_trans hc ht1
      rw [div_le_iff_of_neg hz] at hc'
      linarith
    · rw [hz]; linarith [hx r hr]
    · have hc : tmax ≤ (r.b - dot r.a x) / dot r.a d := by
        apply hmax_le
        exact List.mem_map.mpr ⟨r, List.mem_filter.mpr ⟨hr, by simpa using hz⟩, rfl⟩
      have hc' : t ≤ (r.b - dot r.a x) / dot r.a d := le_trans ht2 hc
      rw [le_div_iff₀ hz] at hc'
      linarith
  · simp at hs

theorem hitAndRun_sat (rows : List Row) : ∀ (steps : List (Vec × Rat)) (x : Vec) (pts : List Vec),
    satAll rows x = true → (∀ s ∈ steps, s.1.length = x.length ∧ 0 ≤ s.2 ∧ s.2 ≤ 1) →
    hitAndRun rows x steps = some pts →
    (∀ q ∈ pts, satAll rows q = true ∧ q.length = x.length) ∧ pts.length = steps.length
  | [], x, pts, _, _, h => by
    simp only [hitAndRun, Option.some.injEq] at h; subst h; simp
  | (d, u) :: rest, x, pts, hx, hs, h => by
    simp only [hitAndRun] at h
    split at h
    · simp at h
    · rename_i x' hstep
      split at h
      · simp at h
      · rename_i pts' hrest
        simp only [Option.some.injEq] at h
        subst h
        have h0 := hs (d, u) (List.mem_cons_self ..)
        obtain ⟨hx', hl'⟩ := hitAndRunStep_sat rows x d x' u h0.1.symm hx h0.2.1 h0.2.2 hstep
        have ih := hitAndRun_sat rows rest x' pts' hx'
          (fun s hs' => by rw [hl']; exact hs s (List.mem_cons_of_mem _ hs')) hrest
        refine ⟨?_, by simp [ih.2]⟩
        intro q hq
        rcases List.mem_cons.mp hq with rfl | hq
        · exact ⟨hx', hl'⟩
        · have := ih.1 q hq
          exact ⟨this.1, by rw [this.2, hl']⟩

/-- In a polytope that contains the rows of a box, every non-zero direction has a row with negative and a
    row with positive `a · d`: the two `amax/amin` of the step are never taken over an empty set. -/
theorem boundRows_both_signs : ∀ (bx : Box) (d : Vec), d.length = bx.length → (∃ t ∈ d, t ≠ 0) →
    (∃ r ∈ boundRows bx, dot r.a d < 0) ∧ (∃ r ∈ boundRows bx, 0 < dot r.a d)
  | [], [], _, h => by simp at h
  | [], _ :: _, h, _ => by simp at h
  | _ :: _, [], h, _ => by simp at h
  | (l, hh) :: bx, d :: ds, hl, hne => by
    by_cases hd : d = 0
    · have hne' : ∃ t ∈ ds, t ≠ 0 := by
        obtain ⟨t, ht, ht0⟩ := hne
        rcases List.mem_cons.mp ht with rfl | ht
        · exact absurd hd ht0
        · exact ⟨t, ht, ht0⟩
      obtain ⟨⟨r1, hr1, h1⟩, ⟨r2, hr2, h2⟩⟩ := boundRows_both_signs bx ds (by simpa using hl) hne'
      have lift : ∀ r ∈ boundRows bx, padRow r ∈ boundRows ((l, hh) :: bx) := by
        intro r hr
        unfold boundRows at hr ⊢
        rcases List.mem_append.mp hr with hr | hr
        · apply List.mem_append_left; simp only [lowerRows]
          exact List.mem_cons_of_mem _ (List.mem_map.mpr ⟨r, hr, rfl⟩)
        · apply List.mem_append_right; simp only [upperRows]
          exact List.mem_cons_of_mem _ (List.mem_map.mpr ⟨r, hr, rfl⟩)
      exact ⟨⟨padRow r1, lift r1 hr1, by simpa [padRow] using h1⟩, ⟨padRow r2, lift r2 hr2, by simpa [padRow] using h2⟩⟩
    · have m1 : (⟨-1 :: zeros bx.length, -l⟩ : Row) ∈ boundRows ((l, hh) :: bx) := by
        unfold boundRows; apply List.mem_append_left; simp [lowerRows]
      have m2 : (⟨1 :: zeros bx.length, hh⟩ : Row) ∈ boundRows ((l, hh) :: bx) := by
        unfold boundRows; apply List.mem_append_right; simp [upperRows]
      rcases lt_or_gt_of_ne hd with hneg | hpos
      · exact ⟨⟨_, m2, by simpa using hneg⟩, ⟨_, m1, by simpa using hneg⟩⟩
      · exact ⟨⟨_, m1, by simpa using hpos⟩, ⟨_, m2, by simpa using hpos⟩⟩

/-! ### affine map from the unit cube -/

theorem affineFromUnit_inBox : ∀ (bx : Box) (t : Vec), boxWF bx = true → t.length = bx.length →
    inUnit t = true → inBox bx (affineFromUnit bx t) = true
  | [], [], _, _, _ => rfl
  | [], _ :: _, _, h, _ => by simp at h
  | _ :: _, [], _, h, _ => by simp at h
  | (l, hh) :: bx, t :: ts, hwf, hl, hu => by
    simp only [boxWF, Bool.and_eq_true, decide_eq_true_eq] at hwf
    simp only [inUnit, List.all_cons, Bool.and_eq_true, decide_eq_true_eq] at hu
    simp only [affineFromUnit]
    rw [inBox_cons]
    refine ⟨?_, ?_, affineFromUnit_inBox bx ts hwf.2 (by simpa using hl) (by simpa [inUnit] using hu.2)⟩
    · nlinarith [hu.1.1, hwf.1]
    · nlinarith [hu.1.2, hwf.1]

/-! ### Latin hypercube -/

theorem stratum_lhs (n p : Nat) (w : Rat) (hn : 0 < n) (hw0 : 0 ≤ w) (hw1 : w < 1) :
    stratum n (((p : Rat) + w) / (n : Rat)) = (p : Int) := by
  unfold stratum
  have hn' : (n : Rat) ≠ 0 := by exact_mod_cast (Nat.pos_iff_ne_zero.mp hn)
  rw [mul_div_cancel₀ _ hn']
  change ⌊(p : Rat) + w⌋ = (p : Int)
  rw [Int.floor_eq_iff]
  push_cast
  constructor <;> linarith

theorem strata_lhsColumn (n : Nat) (hn : 0 < n) : ∀ (perm : List Nat) (ws : List Rat), perm.length = ws.length →
    (∀ w ∈ ws, 0 ≤ w ∧ w < 1) → strata n (lhsColumn n perm ws) = perm.map (fun (p : Nat) => (p : Int))
  | [], [], _, _ => rfl
  | [], _ :: _, h, _ => by simp at h
  | _ :: _, [], h, _ => by simp at h
  | p :: ps, w :: ws, hl, hw => by
    have h0 := hw w (List.mem_cons_self ..)
    have ih := strata_lhsColumn n hn ps ws (by simpa using hl) (fun w' hw' => hw w' (List.mem_cons_of_mem _ hw'))
    unfold strata lhsColumn at ih ⊢
    simp only [List.zipWith_cons_cons, List.map_cons]
    rw [ih, stratum_lhs n p w hn h0.1 h0.2]

theorem isPermOfRange_of_perm (n : Nat) (l : List Int)
    (h : List.Perm l ((List.range n).map (fun (k : Nat) => (k : Int)))) : isPermOfRange n l = true := by
  unfold isPermOfRange
  rw [Bool.and_eq_true]
  constructor
  · have := h.length_eq; simp at this; simp [this]
  · rw [List.all_eq_true]
    intro k hk
    rw [decide_eq_true_eq, h.count_eq]
    apply List.count_eq_one_of_mem
    · exact (List.nodup_range).map (fun a b hab => by exact_mod_cast hab)
    · exact List.mem_map.mpr ⟨k, hk, rfl⟩

/-! ### grid -/

theorem linspace_mem (l h : Rat) (n : Nat) (hlh : l ≤ h) : ∀ x ∈ linspace l h n, l ≤ x ∧ x ≤ h := by
  intro x hx
  unfold linspace at hx
  split_ifs at hx with h1
  · simp only [List.mem_singleton] at hx; subst hx; exact ⟨le_refl _, hlh⟩
  · obtain ⟨i, hi, rfl⟩ := List.mem_map.mp hx
    rw [List.mem_range] at hi
    have hn2 : 2 ≤ n := by omega
    have hpos : (0 : Rat) < (n : Rat) - 1 := by
      have : (2 : Rat) ≤ (n : Rat) := by exact_mod_cast hn2
      linarith
    have hi0 : (0 : Rat) ≤ (i : Rat) / ((n : Rat) - 1) := div_nonneg (by exact_mod_cast Nat.zero_le i) (le_of_lt hpos)
    have hi1 : (i : Rat) / ((n : Rat) - 1) ≤ 1 := by
      rw [div_le_one hpos]
      have : (i : Rat) + 1 ≤ (n : Rat) := by exact_mod_cast hi
      linarith
    constructor <;> nlinarith

theorem linspace_length (l h : Rat) (n : Nat) : (linspace l h n).length = n := by
  unfold linspace
  split_ifs with h1
  · simp [h1]
  · simp

/-! ### fixed coordinates -/

theorem setAt_length : ∀ (x : Vec) (i : Nat) (w : Rat), (setAt x i w).length = x.length
  | [], _, _ => rfl
  | _ :: _, 0, _ => rfl
  | _ :: xs, i + 1, w => by simp [setAt, setAt_length xs i w]

theorem dot_setAt : ∀ (a x : Vec) (i : Nat) (w : Rat), getAt a i = 0 → dot a (setAt x i w) = dot a x
  | [], _, _, _, _ => by simp
  | _ :: _, [], _, _, _ => by simp [setAt]
  | a :: as, x :: xs, 0, w, h => by
    simp only [getAt] at h; simp [setAt, h]
  | a :: as, x :: xs, i + 1, w, h => by
    simp only [getAt] at h; simp [setAt, dot_setAt as xs i w h]

theorem getAt_setAt_same : ∀ (x : Vec) (i : Nat) (w : Rat), i < x.length → getAt (setAt x i w) i = w
  | [], _, _, h => by simp at h
  | _ :: _, 0, _, _ => rfl
  | _ :: xs, i + 1, w, h => by simp [setAt, getAt, getAt_setAt_same xs i w (by simpa using h)]

theorem getAt_setAt_other : ∀ (x : Vec) (i j : Nat) (w : Rat), i ≠ j → getAt (setAt x i w) j = getAt x j
  | [], _, _, _, _ => rfl
  | _ :: _, 0, 0, _, h => absurd rfl h
  | _ :: _, 0, _ + 1, _, _ => rfl
  | _ :: _, _ + 1, 0, _, _ => rfl
  | _ :: xs, i + 1, j + 1, w, h => by
    simp [setAt, getAt, getAt_setAt_other xs i j w (by omega)]

theorem inBox_setAt : ∀ (bx : Box) (x : Vec) (i : Nat) (w : Rat), inBox bx x = true → i < bx.length →
    (bx.getD i (0, 0)).1 ≤ w → w ≤ (bx.getD i (0, 0)).2 → inBox bx (setAt x i w) = true
  | [], _, _, _, _, h, _, _ => by simp at h
  | _ :: _, [], _, _, h, _, _, _ => by simp [inBox] at h
  | (l, hh) :: bx, x :: xs, 0, w, h, _, h1, h2 => by
    rw [inBox_cons] at h
    simp only [setAt]; rw [inBox_cons]
    simp at h1 h2
    exact ⟨h1, h2, h.2.2⟩
  | (l, hh) :: bx, x :: xs, i + 1, w, h, hi, h1, h2 => by
    rw [inBox_cons] at h
    simp only [setAt]; rw [inBox_cons]
    refine ⟨h.1, h.2.1, inBox_setAt bx xs i w h.2.2 (by simpa using hi) ?_ ?_⟩
    · simpa using h1
    · simpa using h2

end C08
