/-
  C14 — floating point takes the same branches as exact arithmetic in the phase selectors.

  Rounding model.  `fl : ℝ → ℝ` stands for "round to the nearest double"; the only thing assumed of it is the
  standard relative-error bound `|fl x − x| ≤ u·|x|`, `u = 2⁻⁵³` (`IsRounding`).  IEEE-754 binary64
  round-to-nearest satisfies it for every real in the normal range (2⁻¹⁰²² ≤ |x| < 2¹⁰²⁴) and for 0; this is the
  textbook model of floating-point arithmetic and is TRUSTED here, not proved.  Because `fl` is a function, equal
  reals round to equal doubles – that settles the comparisons in which a progress fraction sits exactly on a
  threshold; everywhere else the fraction `a/m` and the threshold `p/q` are at least `1/(q·|m|)` apart, which
  dominates the two rounding errors as long as `|a|·q + p·|m| < 2⁵³`.

  The translator (harness/pyfun.py, class TrFl) puts one `fl` after every float operation and every decimal
  literal of the Python source (Model/Generated/PhasesFl.lean); what it relies on about CPython: `int / int` is the
  correctly rounded quotient of the two integers (one rounding), `int → float` is exact below 2⁵³, comparisons
  are exact.
-/
import Model.Generated.PhasesFl
import Mathlib.Data.Real.Basic
import Mathlib.Tactic.Linarith
import Mathlib.Tactic.NormNum
import Mathlib.Tactic.Positivity
import Mathlib.Tactic.FieldSimp
import Mathlib.Tactic.Ring

namespace C14Float

/-- unit roundoff of binary64 -/
noncomputable def unitRoundoff : ℝ := 1 / 2 ^ 53

/-- relative-error model of rounding to nearest -/
structure IsRounding (fl : ℝ → ℝ) : Prop where
  err : ∀ x, |fl x - x| ≤ unitRoundoff * |x|

theorem unitRoundoff_pos : 0 < unitRoundoff := by unfold unitRoundoff; positivity

theorem unitRoundoff_le_one : unitRoundoff ≤ 1 := by unfold unitRoundoff; norm_num

/-- `unitRoundoff · N < 1` for every `N < 2⁵³` -/
theorem unitRoundoff_mul_lt_one {N : ℝ} (hN : N < 2 ^ 53) : unitRoundoff * N < 1 := by
  unfold unitRoundoff
  rw [div_mul_eq_mul_div, one_mul, div_lt_one (by positivity)]
  exact hN

/-! ### Comparisons of perturbed numbers -/

/-- all four order comparisons of `v, t` agree with those of `X, C` -/
structure SameOrder (v t X C : ℝ) : Prop where
  lt : v < t ↔ X < C
  le : v ≤ t ↔ X ≤ C
  gt : v > t ↔ X > C
  ge : v ≥ t ↔ X ≥ C

/-- two numbers that are further apart than the sum of the perturbations keep their order -/
theorem sameOrder_of_close {v t X C e1 e2 : ℝ} (hv : |v - X| ≤ e1) (ht : |t - C| ≤ e2)
    (hgap : e1 + e2 < |X - C|) : SameOrder v t X C := by
  obtain ⟨hv1, hv2⟩ := abs_le.mp hv
  obtain ⟨ht1, ht2⟩ := abs_le.mp ht
  rcases le_total X C with h | h
  · rw [abs_of_nonpos (by linarith)] at hgap
    have hvt : v < t := by linarith
    have hXC : X < C := by linarith
    refine ⟨⟨?_, ?_⟩, ⟨?_, ?_⟩, ⟨?_, ?_⟩, ⟨?_, ?_⟩⟩ <;> intro h' <;> linarith
  · rw [abs_of_nonneg (by linarith)] at hgap
    have hvt : t < v := by linarith
    have hXC : C < X := by linarith
    refine ⟨⟨?_, ?_⟩, ⟨?_, ?_⟩, ⟨?_, ?_⟩, ⟨?_, ?_⟩⟩ <;> intro h' <;> linarith

theorem sameOrder_self (v X : ℝ) : SameOrder v v X X :=
  ⟨by simp, by simp, by simp, by simp⟩

/-- the same, with the exact side stated over `ℚ` (where the generated exact selectors live) -/
structure FlAgrees (v t : ℝ) (x c : ℚ) : Prop where
  lt : v < t ↔ x < c
  le : v ≤ t ↔ x ≤ c
  gt : v > t ↔ x > c
  ge : v ≥ t ↔ x ≥ c

theorem SameOrder.toRat {v t X C : ℝ} {x c : ℚ} (h : SameOrder v t X C) (hX : X = (x : ℝ)) (hC : C = (c : ℝ)) :
    FlAgrees v t x c := by
  subst hX hC
  exact ⟨h.lt.trans Rat.cast_lt, h.le.trans Rat.cast_le, h.gt.trans Rat.cast_lt, h.ge.trans Rat.cast_le⟩

/-! ### A progress fraction against a documented threshold -/

/-- a fraction `a/m` and a threshold `p/q` are equal or at least `1/(q·|m|)` apart -/
theorem ratio_gap (a m : ℤ) (p q : ℕ) (hm : m ≠ 0) (hq : 0 < q) (hne : a * q ≠ p * m) :
    1 / ((q : ℝ) * |(m : ℝ)|) ≤ |(a : ℝ) / m - (p : ℝ) / q| := by
  have hmR : (m : ℝ) ≠ 0 := by exact_mod_cast hm
  have hqR : (0 : ℝ) < q := by exact_mod_cast hq
  have e : (a : ℝ) / m - (p : ℝ) / q = ((a * q - p * m : ℤ) : ℝ) / ((q : ℝ) * m) := by
    push_cast; field_simp
  rw [e, abs_div, abs_mul, abs_of_pos hqR]
  have hpos : (0 : ℝ) < (q : ℝ) * |(m : ℝ)| := mul_pos hqR (abs_pos.mpr hmR)
  apply div_le_div_of_nonneg_right _ (le_of_lt hpos)
  have hz : (a * q - p * m : ℤ) ≠ 0 := sub_ne_zero.mpr hne
  have h1 : (1 : ℤ) ≤ |a * q - p * m| := Int.one_le_abs hz
  exact_mod_cast h1

/-- the two rounding errors together stay below that gap while `|a|·q + p·|m| < 2⁵³` -/
theorem ratio_err_lt (a m : ℤ) (p q : ℕ) (hm : m ≠ 0) (hq : 0 < q)
    (hsz : |a| * q + p * |m| < 2 ^ 53) :
    unitRoundoff * |(a : ℝ) / m| + unitRoundoff * |(p : ℝ) / q| < 1 / ((q : ℝ) * |(m : ℝ)|) := by
  have hmR : (m : ℝ) ≠ 0 := by exact_mod_cast hm
  have hM : (0 : ℝ) < |(m : ℝ)| := abs_pos.mpr hmR
  have hqR : (0 : ℝ) < q := by exact_mod_cast hq
  have hN : |(a : ℝ)| * q + p * |(m : ℝ)| < 2 ^ 53 := by exact_mod_cast hsz
  rw [abs_div, abs_div, Nat.abs_cast q, Nat.abs_cast p]
  have e : unitRoundoff * (|(a : ℝ)| / |(m : ℝ)|) + unitRoundoff * ((p : ℝ) / q)
      = (unitRoundoff * (|(a : ℝ)| * q + p * |(m : ℝ)|)) / ((q : ℝ) * |(m : ℝ)|) := by
    field_simp
  rw [e]
  exact div_lt_div_of_pos_right (unitRoundoff_mul_lt_one hN) (mul_pos hqR hM)

/-- KEY LEMMA.  For integers `a`, `m ≠ 0` and a threshold `p/q` with `|a|·q + p·|m| < 2⁵³`, comparing the rounded
    quotient with the rounded threshold gives the same answer as comparing the exact numbers (`<, ≤, >, ≥`). -/
theorem ratio_sameOrder {fl : ℝ → ℝ} (h : IsRounding fl) (a m : ℤ) (p q : ℕ) (hm : m ≠ 0) (hq : 0 < q)
    (hsz : |a| * q + p * |m| < 2 ^ 53) :
    SameOrder (fl ((a : ℝ) / m)) (fl ((p : ℝ) / q)) ((a : ℝ) / m) ((p : ℝ) / q) := by
  have hmR : (m : ℝ) ≠ 0 := by exact_mod_cast hm
  have hqR : (q : ℝ) ≠ 0 := by exact_mod_cast hq.ne'
  by_cases heq : a * q = p * m
  · have e : (a : ℝ) / m = (p : ℝ) / q := by
      rw [div_eq_div_iff hmR hqR]; exact_mod_cast heq
    rw [e]; exact sameOrder_self _ _
  · exact sameOrder_of_close (h.err _) (h.err _)
      (lt_of_lt_of_le (ratio_err_lt a m p q hm hq hsz) (ratio_gap a m p q hm hq heq))

theorem ratio_agrees {fl : ℝ → ℝ} (h : IsRounding fl) (a m : ℤ) (p q : ℕ) (hm : m ≠ 0) (hq : 0 < q)
    (hsz : |a| * q + p * |m| < 2 ^ 53) :
    FlAgrees (fl ((a : ℝ) / m)) (fl ((p : ℝ) / q)) ((a : ℚ) / m) ((p : ℚ) / q) :=
  (ratio_sameOrder h a m p q hm hq hsz).toRat (by push_cast; rfl) (by push_cast; rfl)

/-! ### `1 - f / m > 0.1` (two roundings on the left) -/

/-- Away from `f/m = 9/10` the comparison `fl (1 − fl (f/m)) > fl (1/10)` agrees with `1 − f/m > 1/10`; exactly at
    `f/m = 9/10` the answer depends on how the two constants round, and is supplied as the hypothesis `h910`
    (binary64: `1 - 0.9 = 0.09999999999999998 ≤ 0.1`). -/
theorem one_sub_ratio_gt {fl : ℝ → ℝ} (h : IsRounding fl) (h910 : fl (1 - fl (9 / 10)) ≤ fl (1 / 10))
    (f m : ℤ) (hm : m ≠ 0) (hsz : 11 * |m| + 30 * |f| < 2 ^ 53) :
    fl (1 - fl ((f : ℝ) / m)) > fl ((1 : ℝ) / 10) ↔ 1 - (f : ℚ) / m > (1 : ℚ) / 10 := by
  have hmR : (m : ℝ) ≠ 0 := by exact_mod_cast hm
  have hmQ : (m : ℚ) ≠ 0 := by exact_mod_cast hm
  by_cases heq : f * ((10 : ℕ) : ℤ) = ((9 : ℕ) : ℤ) * m
  · have eR : (f : ℝ) / m = 9 / 10 := by
      rw [div_eq_div_iff hmR (by norm_num)]; exact_mod_cast heq
    have eQ : (f : ℚ) / m = 9 / 10 := by
      rw [div_eq_div_iff hmQ (by norm_num)]; exact_mod_cast heq
    rw [eR, eQ]
    constructor
    · intro h'; exact absurd h' (not_lt.mpr h910)
    · intro h'; norm_num at h'
  · -- the generic case
    set r : ℝ := (f : ℝ) / m with hr
    have hM : (0 : ℝ) < |(m : ℝ)| := abs_pos.mpr hmR
    have hu := unitRoundoff_pos
    have hu1 := unitRoundoff_le_one
    have hrabs : |r| = |(f : ℝ)| / |(m : ℝ)| := by rw [hr, abs_div]
    have hr0 : 0 ≤ |r| := abs_nonneg r
    -- first rounding
    obtain ⟨hw1, hw2⟩ := abs_le.mp (h.err r)
    have hwabs : |fl r| ≤ 2 * |r| := by
      have : unitRoundoff * |r| ≤ |r| := by nlinarith
      exact abs_le.mpr ⟨by linarith [neg_abs_le r], by linarith [le_abs_self r]⟩
    -- second rounding
    have h1w : |1 - fl r| ≤ 1 + 2 * |r| :=
      abs_le.mpr ⟨by linarith [le_abs_self (fl r)], by linarith [neg_abs_le (fl r)]⟩
    obtain ⟨hv1, hv2⟩ := abs_le.mp (h.err (1 - fl r))
    have hmul : unitRoundoff * |1 - fl r| ≤ unitRoundoff * (1 + 2 * |r|) :=
      mul_le_mul_of_nonneg_left h1w hu.le
    have hv : |fl (1 - fl r) - (1 - r)| ≤ unitRoundoff * (1 + 3 * |r|) :=
      abs_le.mpr ⟨by nlinarith, by nlinarith⟩
    have ht : |fl ((1 : ℝ) / 10) - 1 / 10| ≤ unitRoundoff * (1 / 10) := by
      have := h.err ((1 : ℝ) / 10)
      rwa [abs_of_pos (by norm_num : (0 : ℝ) < 1 / 10)] at this
    -- the gap
    have hgap := ratio_gap f m 9 10 hm (by norm_num) heq
    have hN : 11 * |(m : ℝ)| + 30 * |(f : ℝ)| < 2 ^ 53 := by exact_mod_cast hsz
    have herr : unitRoundoff * (1 + 3 * |r|) + unitRoundoff * (1 / 10) < 1 / (((10 : ℕ) : ℝ) * |(m : ℝ)|) := by
      have e : unitRoundoff * (1 + 3 * |r|) + unitRoundoff * (1 / 10)
          = (unitRoundoff * (11 * |(m : ℝ)| + 30 * |(f : ℝ)|)) / (((10 : ℕ) : ℝ) * |(m : ℝ)|) := by
        rw [hrabs]; push_cast; field_simp; ring
      rw [e]
      exact div_lt_div_of_pos_right (unitRoundoff_mul_lt_one hN) (by positivity)
    have hXC : |(1 - r) - 1 / 10| = |r - ((9 : ℕ) : ℝ) / ((10 : ℕ) : ℝ)| := by
      rw [← abs_neg]; congr 1; push_cast; ring
    have hso : SameOrder (fl (1 - fl r)) (fl ((1 : ℝ) / 10)) (1 - r) (1 / 10) :=
      sameOrder_of_close hv ht (by rw [hXC]; exact lt_of_lt_of_le herr hgap)
    have hag : FlAgrees (fl (1 - fl r)) (fl ((1 : ℝ) / 10)) (1 - (f : ℚ) / m) ((1 : ℚ) / 10) :=
      hso.toRat (by rw [hr]; push_cast; rfl) (by push_cast; rfl)
    exact hag.gt

/-! ### Facts about two concrete doubles used by the Parzen selector -/

/-- What `get_experiment_phase` needs beyond the relative-error bound: at the two places where a progress
    fraction can sit exactly on a threshold that is itself COMPUTED in floating point, the outcome depends on how
    particular constants round.  Both facts are true of binary64 and are checked against CPython's floats by
    the harness on every run (`2 * 0.15 == 0.3`, `1 - 9 / 10 <= 0.1`). -/
structure SPEDoubles (fl : ℝ → ℝ) : Prop where
  two_mul_limit : fl (2 * fl (3 / 20)) = fl (3 / 10)
  one_sub_nine_tenths : fl (1 - fl (9 / 10)) ≤ fl (1 / 10)

/-- the first fact follows from two structural properties of binary floating point: doubling is exact and
    rounding is idempotent -/
theorem two_mul_limit_of_exact_doubling {fl : ℝ → ℝ} (hdbl : ∀ x, fl (2 * x) = 2 * fl x) (hidem : ∀ x, fl (fl x) = fl x) :
    fl (2 * fl (3 / 20)) = fl (3 / 10) := by
  rw [hdbl, hidem, ← hdbl]; norm_num

/-- the second fact follows from monotonicity of rounding and `0.9` rounding upwards -/
theorem one_sub_nine_tenths_of_mono {fl : ℝ → ℝ} (hmono : Monotone fl) (h : 9 / 10 ≤ fl (9 / 10)) :
    fl (1 - fl (9 / 10)) ≤ fl (1 / 10) :=
  hmono (by linarith)

/-! ### Roundings that move a single point (counter-models) -/

/-- exact everywhere except at `c`, which is rounded down by the full relative error -/
noncomputable def pert (c : ℝ) : ℝ → ℝ := fun x => if x = c then c * (1 - unitRoundoff) else x

theorem isRounding_pert (c : ℝ) : IsRounding (pert c) := by
  refine ⟨fun x => ?_⟩
  unfold pert
  split_ifs with hx
  · subst hx
    have e : x * (1 - unitRoundoff) - x = -(unitRoundoff * x) := by ring
    rw [e, abs_neg, abs_mul, abs_of_pos unitRoundoff_pos]
  · simp only [sub_self, abs_zero]; exact mul_nonneg unitRoundoff_pos.le (abs_nonneg x)

theorem pert_self (c : ℝ) : pert c c = c * (1 - unitRoundoff) := by simp [pert]

theorem pert_of_ne {c x : ℝ} (h : x ≠ c) : pert c x = x := by simp [pert, h]

/-! ### Non-vacuity of the assumptions -/

theorem isRounding_id : IsRounding id :=
  ⟨fun x => by simp only [id, sub_self, abs_zero]; exact mul_nonneg unitRoundoff_pos.le (abs_nonneg x)⟩

theorem speDoubles_id : SPEDoubles id := ⟨by norm_num, by norm_num⟩

end C14Float
