/-
  Helper lemmas for C04, part 8: the list encoding of a symmetric matrix is self-adjoint for `dot`/`matVec`
  on ALL lists (whatever their lengths): `dot` stops at the shorter list, which for a row of length n is
  the same as truncating / zero-padding the other list to length n.
-/
import Model.C04
import Proofs.ArithReal
import Proofs.C04Lists
import Proofs.C04Jacobi
import Mathlib.Algebra.BigOperators.Fin
import Mathlib.Data.List.OfFn
import Mathlib.LinearAlgebra.Matrix.NonsingularInverse
import Mathlib.LinearAlgebra.Matrix.Symmetric
import Mathlib.LinearAlgebra.Matrix.PosDef
import Mathlib.LinearAlgebra.Matrix.Notation
import Mathlib.Tactic.Ring
import Mathlib.Tactic.Linarith
import Mathlib.Tactic.FinCases
import Mathlib.Tactic.NormNum
import Mathlib.Tactic.Positivity

namespace C04
open Matrix

/-- a list read as a vector of length n: truncated, or padded with zeros -/
noncomputable def padVec (n : ℕ) (v : List ℝ) : Fin n → ℝ := fun i => v.getD i 0

@[simp] theorem padVec_nil (n : ℕ) : padVec n [] = 0 := by
  funext i; simp [padVec]

@[simp] theorem padVec_cons_zero (n : ℕ) (b : ℝ) (bs : List ℝ) : padVec (n + 1) (b :: bs) 0 = b := by
  simp [padVec]

@[simp] theorem padVec_cons_succ (n : ℕ) (b : ℝ) (bs : List ℝ) (i : Fin n) :
    padVec (n + 1) (b :: bs) i.succ = padVec n bs i := by
  simp [padVec]

/-- a list of the right length is not changed -/
theorem padVec_ofFn {n : ℕ} (f : Fin n → ℝ) : padVec n (List.ofFn f) = f := by
  funext i
  simp [padVec, List.getD_eq_getElem?_getD]

theorem ofFn_padVec {n : ℕ} (v : List ℝ) (h : v.length = n) : List.ofFn (padVec n v) = v := by
  subst h
  apply List.ext_getElem
  · simp
  · intro i h1 h2
    simp [padVec, List.getD_eq_getElem?_getD, h2]

/-- `dot` against a list of length n only sees the first n entries of the other list, and zeros beyond its end -/
theorem dot_ofFn_left : ∀ {n : ℕ} (f : Fin n → ℝ) (v : List ℝ), dot (List.ofFn f) v = f ⬝ᵥ padVec n v
  | 0, f, v => by simp [dotProduct]
  | n + 1, f, [] => by simp
  | n + 1, f, b :: bs => by
    rw [List.ofFn_succ, dot_cons, dot_ofFn_left]
    simp only [dotProduct, Fin.sum_univ_succ, padVec_cons_zero, padVec_cons_succ]

theorem dot_ofFn_right {n : ℕ} (u : List ℝ) (f : Fin n → ℝ) : dot u (List.ofFn f) = padVec n u ⬝ᵥ f := by
  rw [dot_comm, dot_ofFn_left, dotProduct_comm]

/-- `matVec` of an encoded matrix on any list -/
theorem matVec_ofFnM_pad {m k : ℕ} (M : Matrix (Fin m) (Fin k) ℝ) (v : List ℝ) :
    matVec (ofFnM M) v = List.ofFn (M *ᵥ padVec k v) := by
  rw [matVec, ofFnM, List.map_ofFn]
  congr 1
  funext i
  simp only [Function.comp_apply, dot_ofFn_left]
  rfl

/-- the bilinear form of the list model is the bilinear form of the matrix on the padded vectors -/
theorem dot_matVec_ofFnM {m k : ℕ} (M : Matrix (Fin m) (Fin k) ℝ) (u v : List ℝ) :
    dot u (matVec (ofFnM M) v) = padVec m u ⬝ᵥ (M *ᵥ padVec k v) := by
  rw [matVec_ofFnM_pad, dot_ofFn_right]

/-- **the encoding of a symmetric matrix is self-adjoint on all lists**, of any lengths -/
theorem dot_matVec_ofFnM_symm {n : ℕ} (B : Matrix (Fin n) (Fin n) ℝ) (hB : B.IsSymm) :
    ∀ u v : List ℝ, dot u (matVec (ofFnM B) v) = dot v (matVec (ofFnM B) u) := by
  intro u v
  rw [dot_matVec_ofFnM, dot_matVec_ofFnM, Matrix.dotProduct_mulVec, ← Matrix.mulVec_transpose, hB.eq,
    dotProduct_comm]

/-- conversely, self-adjointness on lists of length n already forces the matrix to be symmetric -/
theorem isSymm_of_selfAdjoint {n : ℕ} (B : Matrix (Fin n) (Fin n) ℝ)
    (h : ∀ u v : List ℝ, u.length = n → v.length = n →
      dot u (matVec (ofFnM B) v) = dot v (matVec (ofFnM B) u)) : B.IsSymm := by
  ext i j
  have := h (List.ofFn (Pi.single j 1)) (List.ofFn (Pi.single i 1)) (by simp) (by simp)
  rw [matVec_ofFnM, matVec_ofFnM, dot_ofFn, dot_ofFn] at this
  simpa [Matrix.transpose_apply] using this

/-- the inverse of a symmetric matrix, encoded, is self-adjoint on all lists -/
theorem selfAdjoint_inv_of_isSymm {n : ℕ} (K : Matrix (Fin n) (Fin n) ℝ) (hK : K.IsSymm) :
    ∀ u v : List ℝ, dot u (matVec (ofFnM K⁻¹) v) = dot v (matVec (ofFnM K⁻¹) u) :=
  dot_matVec_ofFnM_symm K⁻¹ hK.inv

theorem isSymm_of_posDef {n : ℕ} {K : Matrix (Fin n) (Fin n) ℝ} (hK : K.PosDef) : K.IsSymm := by
  have := hK.1
  rwa [Matrix.IsHermitian, Matrix.conjTranspose_eq_transpose_of_trivial] at this

/-- the inverse of a positive definite matrix, encoded, is self-adjoint on all lists -/
theorem selfAdjoint_inv_of_posDef {n : ℕ} (K : Matrix (Fin n) (Fin n) ℝ) (hK : K.PosDef) :
    ∀ u v : List ℝ, dot u (matVec (ofFnM K⁻¹) v) = dot v (matVec (ofFnM K⁻¹) u) :=
  selfAdjoint_inv_of_isSymm K (isSymm_of_posDef hK)

/-- a 3 × 3 positive definite matrix (identity plus the all-ones matrix) used for non-vacuity -/
noncomputable def exK3 : Matrix (Fin 3) (Fin 3) ℝ := !![2, 1, 1; 1, 2, 1; 1, 1, 2]

theorem exK3_posDef : exK3.PosDef := by
  refine Matrix.PosDef.of_dotProduct_mulVec_pos ?_ fun x hx => ?_
  · ext i j
    fin_cases i <;> fin_cases j <;> simp [exK3]
  · have hx' : x 0 ≠ 0 ∨ x 1 ≠ 0 ∨ x 2 ≠ 0 := by
      by_contra h
      rw [not_or, not_or, not_not, not_not, not_not] at h
      exact hx (funext fun i => by fin_cases i <;> simp [h.1, h.2.1, h.2.2])
    have : star x ⬝ᵥ (exK3 *ᵥ x) = x 0 ^ 2 + x 1 ^ 2 + x 2 ^ 2 + (x 0 + x 1 + x 2) ^ 2 := by
      simp [exK3, dotProduct, Matrix.mulVec, Fin.sum_univ_three]
      ring
    rw [this]
    rcases hx' with h | h | h <;> positivity

theorem exK3_inv : exK3⁻¹ = (4 : ℝ)⁻¹ • !![3, -1, -1; -1, 3, -1; -1, -1, 3] := by
  refine Matrix.inv_eq_right_inv ?_
  ext i j
  fin_cases i <;> fin_cases j <;>
    simp [exK3, Matrix.mul_apply, Fin.sum_univ_three] <;> norm_num

end C04
