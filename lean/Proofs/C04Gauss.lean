/-
  Helper lemmas for C04, part 4 (stretch): the standard normal CDF of Mathlib,
  Φ(z) = ∫_{(-∞, z]} gaussianPDFReal 0 1, has derivative the model's `pdf (sqrt(2π)) z` at every z.
  This instantiates the hypothesis `HasDerivAt Φ (pdf C z) z` of the EI / CDF-probability theorems.
-/
import Model.C04
import Proofs.ArithReal
import Proofs.C04Chain
import Mathlib.Probability.Distributions.Gaussian.Real
import Mathlib.MeasureTheory.Integral.IntervalIntegral.FundThmCalculus

namespace C04
open MeasureTheory ProbabilityTheory

/-- the standard normal CDF -/
noncomputable def stdNormalCdf (z : ℝ) : ℝ := ∫ x in Set.Iic z, gaussianPDFReal 0 1 x

/-- sqrt(2π), the constant `_norm_pdf_C` of scipy -/
noncomputable def sqrt2pi : ℝ := Real.sqrt (2 * Real.pi)

theorem sqrt2pi_pos : 0 < sqrt2pi := Real.sqrt_pos.mpr (by positivity)

theorem gaussianPDFReal_std_eq (z : ℝ) : gaussianPDFReal 0 1 z = pdf sqrt2pi z := by
  rw [pdf_real, gaussianPDFReal, sqrt2pi]
  simp only [NNReal.coe_one, mul_one, sub_zero]
  have h1 : -z ^ 2 / 2 = -(z * z / 2) := by ring
  rw [h1]; ring

theorem continuous_gaussianPDFReal_std : Continuous (gaussianPDFReal 0 1) := by
  have : gaussianPDFReal 0 1 = fun z => Real.exp (-(z * z / 2)) / sqrt2pi := by
    funext z; rw [gaussianPDFReal_std_eq, pdf_real]
  rw [this]
  fun_prop

theorem stdNormalCdf_hasDerivAt (z : ℝ) : HasDerivAt stdNormalCdf (pdf sqrt2pi z) z := by
  have hint : Integrable (gaussianPDFReal 0 1) := integrable_gaussianPDFReal 0 1
  have hsplit : ∀ u, stdNormalCdf u = stdNormalCdf 0 + ∫ x in (0 : ℝ)..u, gaussianPDFReal 0 1 x := by
    intro u
    have := intervalIntegral.integral_Iic_sub_Iic (μ := volume) (f := gaussianPDFReal 0 1) (a := 0) (b := u)
      hint.integrableOn hint.integrableOn
    unfold stdNormalCdf
    linarith
  have hfun : stdNormalCdf = fun u => stdNormalCdf 0 + ∫ x in (0 : ℝ)..u, gaussianPDFReal 0 1 x := funext hsplit
  rw [hfun, ← gaussianPDFReal_std_eq]
  have hcont := continuous_gaussianPDFReal_std
  have := intervalIntegral.integral_hasDerivAt_right (f := gaussianPDFReal 0 1) (a := 0) (b := z)
    (hint.intervalIntegrable) (hcont.stronglyMeasurableAtFilter _ _) hcont.continuousAt
  exact this.const_add _

end C04
