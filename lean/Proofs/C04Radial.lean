/-
  Helper lemmas for C04, part 1: a radial profile composed with the square root of a squared
  distance is differentiable along every coordinate and every length scale — including the
  coincident point, where the square root itself is not differentiable.
-/
import Model.C04
import Proofs.ArithReal
import Proofs.C03Lemmas
import Mathlib.Analysis.Calculus.Deriv.Basic
import Mathlib.Analysis.Calculus.Deriv.Add
import Mathlib.Analysis.Calculus.Deriv.Mul
import Mathlib.Analysis.Calculus.Deriv.Inv
import Mathlib.Analysis.Calculus.Deriv.Comp
import Mathlib.Analysis.Calculus.Deriv.Pow
import Mathlib.Analysis.SpecialFunctions.ExpDeriv
import Mathlib.Analysis.SpecialFunctions.Sqrt
import Mathlib.Tactic.Ring
import Mathlib.Tactic.Linarith
import Mathlib.Tactic.FieldSimp
import Mathlib.Tactic.Positivity

namespace C04
open Kernels

/-! ### `g ∘ sqrt ∘ s` -/

/-- chain rule through the square root where the argument is positive -/
theorem hasDerivAt_comp_sqrt_of_pos {g h : ℝ → ℝ} (hg : ∀ r, HasDerivAt g (r * h r) r)
    {s : ℝ → ℝ} {s' t : ℝ} (hs : HasDerivAt s s' t) (hpos : 0 < s t) :
    HasDerivAt (fun u => g (Real.sqrt (s u))) (h (Real.sqrt (s t)) * s' / 2) t := by
  have h1 := hs.sqrt hpos.ne'
  have h2 := (hg (Real.sqrt (s t))).comp t h1
  refine h2.congr_deriv ?_
  have hne : Real.sqrt (s t) ≠ 0 := (Real.sqrt_pos.mpr hpos).ne'
  field_simp

/-- a function with vanishing derivative at 0 stays differentiable (with derivative 0) after
    composition with the absolute value -/
theorem hasDerivAt_comp_abs_zero {g : ℝ → ℝ} (hg : HasDerivAt g 0 0) :
    HasDerivAt (fun u => g |u|) 0 0 := by
  rw [hasDerivAt_iff_isLittleO_nhds_zero] at hg ⊢
  simp only [zero_add, smul_zero, sub_zero, abs_zero] at hg ⊢
  have ht : Filter.Tendsto (fun u : ℝ => |u|) (nhds 0) (nhds 0) := by
    have := (continuous_abs : Continuous fun u : ℝ => |u|).tendsto 0
    simpa using this
  have h1 := hg.comp_tendsto ht
  have h2 : (fun u : ℝ => g |u| - g 0) =o[nhds 0] fun u : ℝ => |u| := h1
  exact Asymptotics.isLittleO_abs_right.mp h2

/-- one coordinate of the first point varies: `g (sqrt (((u − b)/l)² + c))`, any `c ≥ 0`, any `l`,
    at EVERY `t` (also where the square root vanishes) -/
theorem radial_x_hasDerivAt {g h : ℝ → ℝ} (hg : ∀ r, HasDerivAt g (r * h r) r) {c : ℝ} (hc : 0 ≤ c)
    (b l t : ℝ) :
    HasDerivAt (fun u => g (Real.sqrt ((u - b) / l * ((u - b) / l) + c)))
      (h (Real.sqrt ((t - b) / l * ((t - b) / l) + c)) * (t - b) / (l * l)) t := by
  have hlin : HasDerivAt (fun u : ℝ => (u - b) / l) (1 / l) t := by
    simpa using ((hasDerivAt_id t).sub_const b).div_const l
  have hs : HasDerivAt (fun u : ℝ => (u - b) / l * ((u - b) / l) + c)
      (1 / l * ((t - b) / l) + (t - b) / l * (1 / l)) t := (hlin.mul hlin).add_const c
  have hnn : 0 ≤ (t - b) / l * ((t - b) / l) := mul_self_nonneg _
  rcases (add_nonneg hnn hc).lt_or_eq with hpos | hzero
  · have := hasDerivAt_comp_sqrt_of_pos hg hs hpos
    refine this.congr_deriv ?_
    ring
  · -- the coincident case: c = 0 and (t − b)/l = 0
    have hc0 : c = 0 := by linarith
    have hq : (t - b) / l * ((t - b) / l) = 0 := by linarith
    have hq0 : (t - b) / l = 0 := mul_self_eq_zero.mp hq
    subst hc0
    have hfun : (fun u : ℝ => g (Real.sqrt ((u - b) / l * ((u - b) / l) + 0)))
        = (fun v : ℝ => g |v|) ∘ (fun u : ℝ => (u - b) / l) := by
      funext u
      simp [Real.sqrt_mul_self_eq_abs]
    rw [hfun]
    have hg0 : HasDerivAt g 0 0 := by simpa using hg 0
    have houter : HasDerivAt (fun v : ℝ => g |v|) 0 ((t - b) / l) := by
      rw [hq0]; exact hasDerivAt_comp_abs_zero hg0
    have := houter.comp t hlin
    refine this.congr_deriv ?_
    have : (t - b) / (l * l) = (t - b) / l / l := by rw [div_div]
    rw [mul_div_assoc, this, hq0]
    simp

/-- one length scale varies: `g (sqrt ((d/u)² + c))` at `t ≠ 0` -/
theorem radial_l_hasDerivAt {g h : ℝ → ℝ} (hg : ∀ r, HasDerivAt g (r * h r) r) {c : ℝ} (hc : 0 ≤ c)
    (d t : ℝ) (ht : t ≠ 0) :
    HasDerivAt (fun u => g (Real.sqrt (d / u * (d / u) + c)))
      (-(h (Real.sqrt (d / t * (d / t) + c))) * (d * d) / (t * t * t)) t := by
  have hinv : HasDerivAt (fun u : ℝ => d / u) (-d / t ^ 2) t := by
    have := (hasDerivAt_inv ht).const_mul d
    simpa [div_eq_mul_inv, neg_div, mul_neg] using this
  have hs : HasDerivAt (fun u : ℝ => d / u * (d / u) + c)
      (-d / t ^ 2 * (d / t) + d / t * (-d / t ^ 2)) t := (hinv.mul hinv).add_const c
  have hnn : 0 ≤ d / t * (d / t) := mul_self_nonneg _
  rcases (add_nonneg hnn hc).lt_or_eq with hpos | hzero
  · have := hasDerivAt_comp_sqrt_of_pos hg hs hpos
    refine this.congr_deriv ?_
    field_simp
    ring
  · have hc0 : c = 0 := by linarith
    have hq : d / t * (d / t) = 0 := by linarith
    have hq0 : d / t = 0 := mul_self_eq_zero.mp hq
    have hd : d = 0 := by
      rcases div_eq_zero_iff.mp hq0 with h | h
      · exact h
      · exact absurd h ht
    subst hc0; subst hd
    have hfun : (fun u : ℝ => g (Real.sqrt ((0 : ℝ) / u * (0 / u) + 0))) = fun _ => g (Real.sqrt 0) := by
      funext u; simp
    rw [hfun]
    have := hasDerivAt_const t (g (Real.sqrt 0))
    refine this.congr_deriv ?_
    simp

/-! ### the four profiles -/

/-- derivative of the radial profile: `profile' r = r · dphiR r` (no division by r anywhere) -/
theorem profile_hasDerivAt (k : Kind) (hk : differentiable k = true) (r : ℝ) :
    HasDerivAt (profile k) (r * dphiR k r) r := by
  cases k
  · -- SE: exp(−r²/2)
    have h1 : HasDerivAt (fun r : ℝ => -(r ^ 2) / 2) (-(2 * r) / 2) r := by
      have := ((hasDerivAt_pow 2 r).neg).div_const 2
      simpa using this
    have := h1.exp
    refine (this.congr_deriv ?_)
    simp [dphiR]
    ring_nf
  · simp [differentiable] at hk
  · -- C2: (1 + r) exp(−r)
    have h1 : HasDerivAt (fun r : ℝ => 1 + r) 1 r := by simpa using (hasDerivAt_id r).const_add 1
    have h2 : HasDerivAt (fun r : ℝ => Real.exp (-r)) (Real.exp (-r) * (-1)) r := (hasDerivAt_neg r).exp
    have := h1.mul h2
    refine (this.congr_deriv ?_)
    simp [dphiR]
    ring
  · -- C4: (1 + r + r²/3) exp(−r)
    have h1 : HasDerivAt (fun r : ℝ => 1 + r + r ^ 2 / 3) (1 + 2 * r / 3) r := by
      have a := (hasDerivAt_id r).const_add 1
      have b := (hasDerivAt_pow 2 r).div_const 3
      have := a.fun_add b
      simpa using this
    have h2 : HasDerivAt (fun r : ℝ => Real.exp (-r)) (Real.exp (-r) * (-1)) r := (hasDerivAt_neg r).exp
    have := h1.mul h2
    refine (this.congr_deriv ?_)
    simp [dphiR]
    ring

theorem hphiR_eq_neg (k : Kind) (r : ℝ) : hphiR k r = -(dphiR k r) := by
  cases k <;> simp [hphiR, dphiR]

theorem dphi_eq_dphiR_sqrt (k : Kind) {d : ℝ} (hd : 0 ≤ d) : dphi k d = dphiR k (Real.sqrt d) := by
  cases k <;> simp [dphi, dphiR, Real.mul_self_sqrt hd]

theorem hphi_eq_hphiR_sqrt (k : Kind) {d : ℝ} (hd : 0 ≤ d) : hphi k d = hphiR k (Real.sqrt d) := by
  cases k <;> simp [hphi, hphiR, Real.mul_self_sqrt hd]

/-! ### lists: one coordinate / one length scale replaced -/

@[simp] theorem gradCoords_nil_left (c : ℝ) (x z : List ℝ) : gradCoords c [] x z = [] := by simp [gradCoords]
@[simp] theorem gradCoords_nil_mid (c : ℝ) (ls z : List ℝ) : gradCoords c ls [] z = [] := by
  cases ls <;> simp [gradCoords]
@[simp] theorem gradCoords_nil_right (c : ℝ) (ls x : List ℝ) : gradCoords c ls x [] = [] := by
  cases ls <;> cases x <;> simp [gradCoords]
@[simp] theorem gradCoords_cons (c l a b : ℝ) (ls as bs : List ℝ) :
    gradCoords c (l :: ls) (a :: as) (b :: bs) = (c * (a - b)) / (l * l) :: gradCoords c ls as bs := by
  simp [gradCoords]

@[simp] theorem hparamCoords_nil_left (c : ℝ) (x z : List ℝ) : hparamCoords c [] x z = [] := by
  simp [hparamCoords]
@[simp] theorem hparamCoords_nil_mid (c : ℝ) (ls z : List ℝ) : hparamCoords c ls [] z = [] := by
  cases ls <;> simp [hparamCoords]
@[simp] theorem hparamCoords_nil_right (c : ℝ) (ls x : List ℝ) : hparamCoords c ls x [] = [] := by
  cases ls <;> cases x <;> simp [hparamCoords]
@[simp] theorem hparamCoords_cons (c l a b : ℝ) (ls as bs : List ℝ) :
    hparamCoords c (l :: ls) (a :: as) (b :: bs) =
      (c * ((a - b) * (a - b))) / (l * l * l) :: hparamCoords c ls as bs := by
  simp [hparamCoords]

theorem gradCoords_length (c : ℝ) (ls x z : List ℝ) (hx : x.length = ls.length) (hz : z.length = ls.length) :
    (gradCoords c ls x z).length = ls.length := by
  induction ls generalizing x z with
  | nil => simp
  | cons l ls ih =>
    cases x with
    | nil => simp at hx
    | cons a as =>
      cases z with
      | nil => simp at hz
      | cons b bs =>
        simp only [gradCoords_cons, List.length_cons]
        rw [ih as bs (by simpa using hx) (by simpa using hz)]

theorem hparamCoords_length (c : ℝ) (ls x z : List ℝ) (hx : x.length = ls.length) (hz : z.length = ls.length) :
    (hparamCoords c ls x z).length = ls.length := by
  induction ls generalizing x z with
  | nil => simp
  | cons l ls ih =>
    cases x with
    | nil => simp at hx
    | cons a as =>
      cases z with
      | nil => simp at hz
      | cons b bs =>
        simp only [hparamCoords_cons, List.length_cons]
        rw [ih as bs (by simpa using hx) (by simpa using hz)]

theorem scaleBy_getD (alpha : ℝ) (v : List ℝ) (j : Nat) : (scaleBy alpha v).getD j 0 = alpha * v.getD j 0 := by
  unfold scaleBy
  by_cases h : j < v.length
  · simp [List.getD_eq_getElem?_getD, h]
  · simp [List.getD_eq_getElem?_getD, Nat.not_lt.mp h]

@[simp] theorem scaleBy_length (alpha : ℝ) (v : List ℝ) : (scaleBy alpha v).length = v.length := by
  simp [scaleBy]

/-- Varying coordinate `j` of the first point: for `G`, `H` with the one-coordinate derivative fact
    (`radial_x_hasDerivAt`), `u ↦ G (r2 ls (x.set j u) z + c)` has derivative
    `gradCoords (H (…)) … [j]` at every `t` — for all list lengths, `j` in or out of range. -/
theorem r2_set_x_hasDerivAt (G H : ℝ → ℝ)
    (hGH : ∀ c : ℝ, 0 ≤ c → ∀ b l t : ℝ,
      HasDerivAt (fun u => G ((u - b) / l * ((u - b) / l) + c)) (H ((t - b) / l * ((t - b) / l) + c) * (t - b) / (l * l)) t)
    (ls x z : List ℝ) (j : Nat) (c : ℝ) (hc : 0 ≤ c) (t : ℝ) :
    HasDerivAt (fun u => G (r2 ls (x.set j u) z + c))
      ((gradCoords (H (r2 ls (x.set j t) z + c)) ls (x.set j t) z).getD j 0) t := by
  induction ls generalizing x z j c with
  | nil => simpa using hasDerivAt_const t (G (0 + c))
  | cons l ls ih =>
    cases x with
    | nil => simpa using hasDerivAt_const t (G (0 + c))
    | cons a as =>
      cases z with
      | nil => simpa using hasDerivAt_const t (G (0 + c))
      | cons b bs =>
        cases j with
        | zero =>
          simp only [List.set_cons_zero, r2_cons, gradCoords_cons, List.getD_cons_zero]
          have hc' : 0 ≤ r2 ls as bs + c := add_nonneg (r2_nonneg' ls as bs) hc
          have := hGH (r2 ls as bs + c) hc' b l t
          simpa [add_assoc] using this
        | succ j =>
          simp only [List.set_cons_succ, r2_cons, gradCoords_cons, List.getD_cons_succ]
          have hA : 0 ≤ (a - b) / l * ((a - b) / l) := mul_self_nonneg _
          have := ih as bs j ((a - b) / l * ((a - b) / l) + c) (add_nonneg hA hc)
          have e : ∀ u : ℝ, (a - b) / l * ((a - b) / l) + r2 ls (as.set j u) bs + c
              = r2 ls (as.set j u) bs + ((a - b) / l * ((a - b) / l) + c) := fun u => by ring
          simp only [e]
          exact this

/-- Varying length scale `j` (away from 0). -/
theorem r2_set_l_hasDerivAt (G H : ℝ → ℝ)
    (hGH : ∀ c : ℝ, 0 ≤ c → ∀ d t : ℝ, t ≠ 0 →
      HasDerivAt (fun u => G (d / u * (d / u) + c)) (H (d / t * (d / t) + c) * (d * d) / (t * t * t)) t)
    (ls x z : List ℝ) (j : Nat) (c : ℝ) (hc : 0 ≤ c) (t : ℝ) (ht : t ≠ 0) :
    HasDerivAt (fun u => G (r2 (ls.set j u) x z + c))
      ((hparamCoords (H (r2 (ls.set j t) x z + c)) (ls.set j t) x z).getD j 0) t := by
  induction ls generalizing x z j c with
  | nil => simpa using hasDerivAt_const t (G (0 + c))
  | cons l ls ih =>
    cases x with
    | nil =>
      cases j <;> simpa using hasDerivAt_const t (G (0 + c))
    | cons a as =>
      cases z with
      | nil => cases j <;> simpa using hasDerivAt_const t (G (0 + c))
      | cons b bs =>
        cases j with
        | zero =>
          simp only [List.set_cons_zero, r2_cons, hparamCoords_cons, List.getD_cons_zero]
          have hc' : 0 ≤ r2 ls as bs + c := add_nonneg (r2_nonneg' ls as bs) hc
          have := hGH (r2 ls as bs + c) hc' (a - b) t ht
          simpa [add_assoc] using this
        | succ j =>
          simp only [List.set_cons_succ, r2_cons, hparamCoords_cons, List.getD_cons_succ]
          have hA : 0 ≤ (a - b) / l * ((a - b) / l) := mul_self_nonneg _
          have := ih as bs j ((a - b) / l * ((a - b) / l) + c) (add_nonneg hA hc)
          have e : ∀ u : ℝ, (a - b) / l * ((a - b) / l) + r2 (ls.set j u) as bs + c
              = r2 (ls.set j u) as bs + ((a - b) / l * ((a - b) / l) + c) := fun u => by ring
          simp only [e]
          exact this

/-- the radial profile as a function of r² -/
noncomputable def profSq (k : Kind) (d : ℝ) : ℝ := profile k (Real.sqrt d)

theorem phi_eq_profSq (k : Kind) {d : ℝ} (hd : 0 ≤ d) : phi k d = profSq k d := phi_eq_profile_sqrt k hd

/-- **profile along a coordinate** -/
theorem profSq_x_hasDerivAt (k : Kind) (hk : differentiable k = true) (ls x z : List ℝ) (j : Nat) (t : ℝ) :
    HasDerivAt (fun u => profSq k (r2 ls (x.set j u) z))
      ((gradCoords (dphi k (r2 ls (x.set j t) z)) ls (x.set j t) z).getD j 0) t := by
  have h := r2_set_x_hasDerivAt (profSq k) (fun d => dphiR k (Real.sqrt d))
    (fun c hc b l t => radial_x_hasDerivAt (profile_hasDerivAt k hk) hc b l t) ls x z j 0 le_rfl t
  simp only [add_zero] at h
  rw [dphi_eq_dphiR_sqrt k (r2_nonneg' _ _ _)]
  exact h

/-- **profile along a length scale** -/
theorem profSq_l_hasDerivAt (k : Kind) (hk : differentiable k = true) (ls x z : List ℝ) (j : Nat) (t : ℝ)
    (ht : t ≠ 0) :
    HasDerivAt (fun u => profSq k (r2 (ls.set j u) x z))
      ((hparamCoords (hphi k (r2 (ls.set j t) x z)) (ls.set j t) x z).getD j 0) t := by
  have h := r2_set_l_hasDerivAt (profSq k) (fun d => hphiR k (Real.sqrt d))
    (fun c hc d t ht => by
      have := radial_l_hasDerivAt (profile_hasDerivAt k hk) hc d t ht
      simpa [hphiR_eq_neg, profSq] using this) ls x z j 0 le_rfl t ht
  simp only [add_zero] at h
  rw [hphi_eq_hphiR_sqrt k (r2_nonneg' _ _ _)]
  exact h

end C04
