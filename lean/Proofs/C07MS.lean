/- C07 helper lemmas: the multistart selection loop computes `selectSpec` of the runs it consumed. -/
import Proofs.C07

namespace C07
universe u v
variable {P : Type u} {V : Type v}

/-- `best_function_value` as a function of the best successful run so far -/
def valOf : Option (P × V) → FVal V
  | none => .ninf
  | some b => .fin b.2

theorem succVals_append (l1 l2 : List (Run P V)) : succVals (l1 ++ l2) = succVals l1 ++ succVals l2 := by
  induction l1 with
  | nil => simp [succVals]
  | cons r rs ih =>
    simp only [List.cons_append, succVals]
    split <;> simp [ih]

theorem mem_succVals {l : List (Run P V)} {e : P × Option V} (h : e ∈ succVals l) :
    ∃ r ∈ l, ∃ x, r.effSuccess = true ∧ r.effValue = .fin x ∧ e = (r.stop, some x) := by
  induction l with
  | nil => simp [succVals] at h
  | cons r rs ih =>
    simp only [succVals] at h
    split at h
    · rename_i x hs hv
      rcases List.mem_cons.mp h with rfl | h
      · exact ⟨r, List.mem_cons_self .., x, hs, hv, rfl⟩
      · obtain ⟨r', hr', x', h1, h2, h3⟩ := ih h
        exact ⟨r', List.mem_cons_of_mem _ hr', x', h1, h2, h3⟩
    · obtain ⟨r', hr', x', h1, h2, h3⟩ := ih h
      exact ⟨r', List.mem_cons_of_mem _ hr', x', h1, h2, h3⟩

theorem succVals_mem {l : List (Run P V)} {r : Run P V} {x : V} (hr : r ∈ l)
    (hs : r.effSuccess = true) (hv : r.effValue = .fin x) : (r.stop, some x) ∈ succVals l := by
  induction l with
  | nil => cases hr
  | cons r' rs ih =>
    rcases List.mem_cons.mp hr with rfl | hr
    · simp [succVals, hs, hv]
    · simp only [succVals]
      split
      · exact List.mem_cons_of_mem _ (ih hr)
      · exact ih hr

section
variable [LinearOrder V]

theorem argmaxFirst_append (a b : List (P × Option V)) :
    argmaxFirst (a ++ b) = b.foldl upd (argmaxFirst a) := by
  simp [argmaxFirst, List.foldl_append]

/-- invariant of the selection loop after consuming `pre` -/
structure MSInv (pre : List (Run P V)) (st : MS P V) : Prop where
  best : st.best = selectSpec pre
  val : st.bestVal = valOf (argmaxFirst (succVals pre))
  count : st.count = pre.length
  succ : st.succ = pre.countP (fun r => r.effSuccess)

theorem MSInv.init : MSInv ([] : List (Run P V)) msInit :=
  ⟨by simp [msInit, selectSpec, succVals, argmaxFirst], by simp [msInit, succVals, argmaxFirst, valOf],
   rfl, rfl⟩

theorem selectSpec_eq_none {l : List (Run P V)} : selectSpec l = none ↔ l = [] := by
  constructor
  · intro h
    cases l with
    | nil => rfl
    | cons r rs =>
      simp only [selectSpec] at h
      split at h <;> simp at h
  · rintro rfl; simp [selectSpec, succVals, argmaxFirst]

theorem argmaxFirst_succVals_some_ne_nil {l : List (Run P V)} {b : P × V}
    (h : argmaxFirst (succVals l) = some b) : l ≠ [] := by
  rintro rfl; simp [succVals, argmaxFirst] at h

theorem argmax_succVals_append_nil {pre : List (Run P V)} {r : Run P V} (hsv : succVals [r] = []) :
    argmaxFirst (succVals (pre ++ [r])) = argmaxFirst (succVals pre) := by
  rw [succVals_append, hsv, List.append_nil]

theorem selectSpec_append_nil {pre : List (Run P V)} {r : Run P V} (hsv : succVals [r] = [])
    (hp : pre ≠ []) : selectSpec (pre ++ [r]) = selectSpec pre := by
  cases pre with
  | nil => exact absurd rfl hp
  | cons r1 rs =>
    have h1 := argmax_succVals_append_nil (pre := r1 :: rs) hsv
    simp only [List.cons_append] at h1
    simp only [selectSpec, List.cons_append, h1]

/-- the state part of `msStep` when no successful finite run is added -/
theorem msStep_noadd {st : MS P V} {r : Run P V} {p0 : P} (hp0 : st.best = some p0)
    (hng : (r.effSuccess && r.effValue.gt st.bestVal) = false) :
    (msStep st r).1.best = st.best ∧ (msStep st r).1.bestVal = st.bestVal := by
  simp [msStep, hp0, hng]

theorem msStep_first {st : MS P V} {r : Run P V} (hn : st.best = none) :
    (msStep st r).1.best = some (if r.effSuccess then r.stop else r.start) ∧
    (msStep st r).1.bestVal =
      (if r.effSuccess then FVal.unlessNaN st.bestVal r.effValue else st.bestVal) := by
  cases hok : r.effSuccess <;> simp [msStep, hn, hok]

theorem msStep_inv {pre : List (Run P V)} {st : MS P V} (h : MSInv pre st) (r : Run P V) :
    MSInv (pre ++ [r]) (msStep st r).1 := by
  obtain ⟨hb, hv, hc, hs⟩ := h
  have hcnt : (msStep st r).1.count = (pre ++ [r]).length := by
    simp only [msStep]; split <;> [split; skip] <;> simp [hc]
  have hsuc : (msStep st r).1.succ = (pre ++ [r]).countP (fun r => r.effSuccess) := by
    simp only [msStep]
    split <;> [split; skip] <;> simp [hs, List.countP_append, List.countP_cons]
  -- does `r` contribute a successful finite value?
  cases hsv : succVals [r] with
  | nil =>
    have hng : ∀ bv : FVal V, (r.effSuccess && r.effValue.gt bv) = false := by
      intro bv
      cases hok : r.effSuccess with
      | false => rfl
      | true =>
        cases hfv : r.effValue with
        | nan => simp [FVal.gt]
        | ninf => simp [FVal.gt]
        | fin x => simp [succVals, hok, hfv] at hsv
    by_cases hp : pre = []
    · subst hp
      have hn : st.best = none := by rw [hb]; exact selectSpec_eq_none.mpr rfl
      have hbv : st.bestVal = .ninf := by rw [hv]; simp [succVals, argmaxFirst, valOf]
      obtain ⟨h1, h2⟩ := msStep_first (r := r) hn
      refine ⟨?_, ?_, hcnt, hsuc⟩
      · rw [h1]; simp [selectSpec, hsv, argmaxFirst]
      · rw [h2, List.nil_append, hsv, hbv]
        cases hok : r.effSuccess with
        | false => simp [argmaxFirst, valOf]
        | true =>
          cases hfv : r.effValue with
          | nan => simp [argmaxFirst, valOf, FVal.unlessNaN]
          | ninf => simp [argmaxFirst, valOf, FVal.unlessNaN]
          | fin x => simp [succVals, hok, hfv] at hsv
    · obtain ⟨p0, hp0⟩ : ∃ p0, st.best = some p0 := by
        cases hsel : st.best with
        | none => rw [hb] at hsel; exact absurd (selectSpec_eq_none.mp hsel) hp
        | some p0 => exact ⟨p0, rfl⟩
      obtain ⟨h1, h2⟩ := msStep_noadd hp0 (hng st.bestVal)
      refine ⟨?_, ?_, hcnt, hsuc⟩
      · rw [h1, hb, selectSpec_append_nil hsv hp]
      · rw [h2, hv, argmax_succVals_append_nil hsv]
  | cons e es =>
    -- then r is successful with a finite value x and e = (r.stop, some x)
    obtain ⟨hok, x, hfv⟩ : r.effSuccess = true ∧ ∃ x, r.effValue = .fin x := by
      cases hok : r.effSuccess with
      | false => simp [succVals, hok] at hsv
      | true =>
        cases hfv : r.effValue with
        | nan => simp [succVals, hok, hfv] at hsv
        | ninf => simp [succVals, hok, hfv] at hsv
        | fin x => exact ⟨rfl, x, rfl⟩
    have hsv' : succVals [r] = [(r.stop, some x)] := by simp [succVals, hok, hfv]
    have hA' : argmaxFirst (succVals (pre ++ [r])) = upd (argmaxFirst (succVals pre)) (r.stop, some x) := by
      rw [succVals_append, hsv', argmaxFirst_append]; rfl
    have hsel : selectSpec (pre ++ [r]) =
        (upd (argmaxFirst (succVals pre)) (r.stop, some x)).map Prod.fst := by
      have hsome : ∃ b, upd (argmaxFirst (succVals pre)) (r.stop, some x) = some b := by
        cases argmaxFirst (succVals pre) with
        | none => exact ⟨_, rfl⟩
        | some b => simp only [upd]; split <;> exact ⟨_, rfl⟩
      obtain ⟨b, hb'⟩ := hsome
      simp only [selectSpec, hA', hb', Option.map_some]
    refine ⟨?_, ?_, hcnt, hsuc⟩
    · rw [hsel]
      cases hA : argmaxFirst (succVals pre) with
      | none =>
        have hval : st.bestVal = .ninf := by rw [hv, hA]; rfl
        simp [msStep, hok, hfv, hval, FVal.gt, upd, FVal.unlessNaN]
      | some b =>
        have hval : st.bestVal = .fin b.2 := by rw [hv, hA]; rfl
        have hbs : st.best = some b.1 := by rw [hb]; simp [selectSpec, hA]
        by_cases hlt : b.2 < x <;> simp [msStep, hok, hfv, hval, hbs, FVal.gt, hlt, upd, FVal.unlessNaN]
    · rw [hA']
      cases hA : argmaxFirst (succVals pre) with
      | none =>
        have hval : st.bestVal = .ninf := by rw [hv, hA]; rfl
        simp [msStep, hok, hfv, hval, FVal.gt, upd, valOf, FVal.unlessNaN]
      | some b =>
        have hval : st.bestVal = .fin b.2 := by rw [hv, hA]; rfl
        have hbs : st.best = some b.1 := by rw [hb]; simp [selectSpec, hA]
        by_cases hlt : b.2 < x <;> simp [msStep, hok, hfv, hval, hbs, FVal.gt, hlt, upd, valOf, FVal.unlessNaN]

/-- the `continue` is taken exactly when the very first run fails -/
theorem msStep_skip {pre : List (Run P V)} {st : MS P V} (h : MSInv pre st) (r : Run P V) :
    (msStep st r).2 = true ↔ (pre = [] ∧ r.effSuccess = false) := by
  have hb : st.best.isNone = true ↔ pre = [] := by
    rw [h.best]
    cases hsel : selectSpec pre with
    | none => simp [selectSpec_eq_none.mp hsel]
    | some p =>
      simp only [Option.isNone_some, Bool.false_eq_true, false_iff]
      intro hp; rw [selectSpec_eq_none.mpr hp] at hsel; cases hsel
  simp only [msStep]
  by_cases hn : st.best.isNone = true
  · have hp := hb.mp hn
    cases hok : r.effSuccess <;> simp [hn, hp]
  · have hp : pre ≠ [] := fun hp => hn (hb.mpr hp)
    simp only [Bool.not_eq_true] at hn
    split <;> simp [hn, hp]

theorem msLoop_inv {nm nsel minSucc : Nat} {runs pre : List (Run P V)} {st stf : MS P V}
    {used : List (Run P V)} (h : MSInv pre st)
    (hl : msLoop nm nsel minSucc runs st = some (stf, used)) :
    ∃ rest, runs = used ++ rest ∧ used ≠ [] ∧ MSInv (pre ++ used) stf ∧
      msDone nm nsel minSucc stf = true := by
  induction runs generalizing pre st used with
  | nil => simp [msLoop] at hl
  | cons r rs ih =>
    simp only [msLoop] at hl
    split at hl
    · rename_i hdone
      simp only [Option.some.injEq, Prod.mk.injEq] at hl
      obtain ⟨rfl, rfl⟩ := hl
      refine ⟨rs, rfl, by simp, msStep_inv h r, ?_⟩
      simp only [Bool.and_eq_true] at hdone
      exact hdone.2
    · split at hl
      · simp at hl
      · rename_i stf' used' hrec
        simp only [Option.some.injEq, Prod.mk.injEq] at hl
        obtain ⟨rfl, rfl⟩ := hl
        obtain ⟨rest, hr, -, hinv, hd⟩ := ih (msStep_inv h r) hrec
        refine ⟨rest, by simp [hr], by simp, ?_, hd⟩
        simpa [List.append_assoc] using hinv

end
end C07
