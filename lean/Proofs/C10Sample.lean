/- Helper lemmas for C10: plain per-parameter sampling (admissibility and support). -/
import Proofs.C10Domain
import Mathlib.Tactic.FieldSimp
import Mathlib.Tactic.Positivity

namespace C10

theorem catVals_getD {es : List Int} {i : Nat} (h : i < es.length) :
    (catVals es).getD i 0 = ((es[i] : Int) : Rat) := by
  rw [List.getD_eq_getElem?_getD]
  simp [catVals, List.getElem?_map, List.getElem?_eq_getElem h]

theorem sample1d_admissible {c : Comp} (hwf : c.WF) {d : Draw} (hd : d.ok) :
    admissible1 c (sample1d c d) = true := by
  cases c with
  | dbl lo hi =>
    have hlt : lo < hi := hwf
    obtain ⟨h0, h1⟩ := hd
    have e1 : lo ≤ lo + (hi - lo) * d.t := by nlinarith
    have e2 : lo + (hi - lo) * d.t ≤ hi := by nlinarith
    simp [sample1d, admissible1, e1, e2]
  | int lo hi =>
    have hlt : lo < hi := hwf
    have hpos : 0 < (hi + 1 - lo).toNat := by omega
    have hm := Nat.mod_lt d.n hpos
    have hcast : (((hi + 1 - lo).toNat : Nat) : Int) = hi + 1 - lo := Int.toNat_of_nonneg (by omega)
    have hm' : ((d.n % (hi + 1 - lo).toNat : Nat) : Int) < hi + 1 - lo := by
      rw [← hcast]; exact_mod_cast hm
    have h0 : (0 : Int) ≤ ((d.n % (hi + 1 - lo).toNat : Nat) : Int) := Int.natCast_nonneg _
    simp only [sample1d, admissible1, Bool.and_eq_true, decide_eq_true_eq, Rat.den_intCast,
      Rat.num_intCast, true_and]
    exact ⟨decide_eq_true (by linarith), decide_eq_true (by linarith)⟩
  | cat es =>
    have hpos : 0 < es.length := by have := hwf.1; omega
    simp only [sample1d, admissible1, List.contains_iff_mem]
    exact getD_mem (by rw [catVals_length]; exact Nat.mod_lt _ hpos) 0
  | grid es =>
    have hpos : 0 < es.length := by have := hwf.1; omega
    simp only [sample1d, admissible1, List.contains_iff_mem]
    exact getD_mem (Nat.mod_lt _ hpos) 0

theorem default_draw_ok : (⟨0, 0⟩ : Draw).ok := by
  constructor <;> simp

theorem headD_ok {ds : List Draw} (h : ∀ d ∈ ds, d.ok) : (ds.headD ⟨0, 0⟩).ok := by
  cases ds with
  | nil => exact default_draw_ok
  | cons d ds => exact h d (List.mem_cons_self ..)

theorem sampleRow_admissible {dom : Domain} (hwf : WF dom) {ds : List Draw} (h : ∀ d ∈ ds, d.ok) :
    admissibleRow dom (sampleRow dom ds) = true := by
  induction dom generalizing ds with
  | nil => simp [sampleRow, admissibleRow]
  | cons c cs ih =>
    simp only [sampleRow, admissibleRow, Bool.and_eq_true]
    refine ⟨sample1d_admissible (hwf c (List.mem_cons_self ..)) (headD_ok h), ?_⟩
    apply ih (fun c' hc' => hwf c' (List.mem_cons_of_mem _ hc'))
    intro d hd; exact h d (List.mem_of_mem_tail hd)

/-- every admissible value (doubles: below the upper bound) is the image of some draw -/
theorem sample1d_support {c : Comp} (hwf : c.WF) {v : Rat} (ha : admissible1 c v = true)
    (ho : openAtHi1 c v = true) : ∃ d : Draw, d.ok ∧ sample1d c d = v := by
  cases c with
  | dbl lo hi =>
    have hlt : lo < hi := hwf
    simp only [admissible1, Bool.and_eq_true, decide_eq_true_eq] at ha
    simp only [openAtHi1, decide_eq_true_eq] at ho
    have hpos : 0 < hi - lo := by linarith
    refine ⟨⟨0, (v - lo) / (hi - lo)⟩, ⟨?_, ?_⟩, ?_⟩
    · exact div_nonneg (by linarith) hpos.le
    · rw [div_lt_one hpos]; linarith
    · simp only [sample1d]; field_simp; ring
  | int lo hi =>
    simp only [admissible1, Bool.and_eq_true, decide_eq_true_eq] at ha
    obtain ⟨⟨hden, h1⟩, h2⟩ := ha
    refine ⟨⟨(v.num - lo).toNat, 0⟩, default_draw_ok, ?_⟩
    simp only [sample1d]
    have hm : (v.num - lo).toNat % (hi + 1 - lo).toNat = (v.num - lo).toNat :=
      Nat.mod_eq_of_lt (by omega)
    rw [hm]
    have : lo + ((v.num - lo).toNat : Int) = v.num := by omega
    rw [this]; exact (Rat.den_eq_one_iff v).mp hden
  | cat es =>
    simp only [admissible1, List.contains_iff_mem] at ha
    have hl : (catVals es).idxOf v < (catVals es).length := List.idxOf_lt_length_iff.mpr ha
    refine ⟨⟨(catVals es).idxOf v, 0⟩, default_draw_ok, ?_⟩
    simp only [sample1d]
    rw [← catVals_length es, Nat.mod_eq_of_lt hl]
    exact getD_idxOf ha 0
  | grid es =>
    simp only [admissible1, List.contains_iff_mem] at ha
    have hl : es.idxOf v < es.length := List.idxOf_lt_length_iff.mpr ha
    refine ⟨⟨es.idxOf v, 0⟩, default_draw_ok, ?_⟩
    simp only [sample1d]
    rw [Nat.mod_eq_of_lt hl]
    exact getD_idxOf ha 0

theorem sampleRow_support {dom : Domain} (hwf : WF dom) {row : Row}
    (ha : admissibleRow dom row = true) (ho : openAtHiRow dom row = true) :
    ∃ ds : List Draw, (∀ d ∈ ds, d.ok) ∧ sampleRow dom ds = row := by
  induction dom generalizing row with
  | nil =>
    cases row with
    | nil => exact ⟨[], by simp, by simp [sampleRow]⟩
    | cons v vs => simp [admissibleRow] at ha
  | cons c cs ih =>
    cases row with
    | nil => simp [admissibleRow] at ha
    | cons v vs =>
      simp only [admissibleRow, Bool.and_eq_true] at ha
      simp only [openAtHiRow, Bool.and_eq_true] at ho
      obtain ⟨d, hd, hv⟩ := sample1d_support (hwf c (List.mem_cons_self ..)) ha.1 ho.1
      obtain ⟨ds, hds, hrow⟩ := ih (fun c' hc' => hwf c' (List.mem_cons_of_mem _ hc')) ha.2 ho.2
      refine ⟨d :: ds, ?_, ?_⟩
      · intro d' hd'
        rcases List.mem_cons.mp hd' with rfl | h
        · exact hd
        · exact hds d' h
      · simp [sampleRow, hv, hrow]

theorem plainSample_length (dom : Domain) (k : Nat) (draws : List (List Draw)) :
    (plainSample dom k draws).length = k := by simp [plainSample]

theorem getD_ok {draws : List (List Draw)} (h : ∀ ds ∈ draws, ∀ d ∈ ds, d.ok) (i : Nat) :
    ∀ d ∈ draws.getD i [], d.ok := by
  rw [List.getD_eq_getElem?_getD]
  intro d hd
  cases hg : draws[i]? with
  | none => simp [hg] at hd
  | some ds =>
    simp only [hg, Option.getD_some] at hd
    exact h ds (List.mem_of_getElem? hg) d hd

theorem plainSample_admissible {dom : Domain} (hwf : WF dom) (k : Nat) {draws : List (List Draw)}
    (h : ∀ ds ∈ draws, ∀ d ∈ ds, d.ok) : ∀ p ∈ plainSample dom k draws, admissibleRow dom p = true := by
  intro p hp
  simp only [plainSample, List.mem_map, List.mem_range] at hp
  obtain ⟨i, _, rfl⟩ := hp
  exact sampleRow_admissible hwf (getD_ok h i)

/-- a discrete component never looks at the `t` part of a draw -/
theorem sample1d_admissible_discrete {c : Comp} (hwf : c.WF) (hd : c.isDiscrete = true) (d : Draw) :
    admissible1 c (sample1d c d) = true := by
  have h : sample1d c d = sample1d c ⟨d.n, 0⟩ := by
    cases c with
    | dbl lo hi => simp [Comp.isDiscrete] at hd
    | int lo hi => rfl
    | cat es => rfl
    | grid es => rfl
  rw [h]
  exact sample1d_admissible hwf ⟨le_refl _, by norm_num⟩

theorem sampleRow_admissible_discrete {dom : Domain} (hwf : WF dom) (hd : isDiscrete dom = true)
    (ds : List Draw) : admissibleRow dom (sampleRow dom ds) = true := by
  induction dom generalizing ds with
  | nil => simp [sampleRow, admissibleRow]
  | cons c cs ih =>
    simp only [isDiscrete, List.all_cons, Bool.and_eq_true] at hd
    simp only [sampleRow, admissibleRow, Bool.and_eq_true]
    exact ⟨sample1d_admissible_discrete (hwf c (List.mem_cons_self ..)) hd.1 _,
      ih (fun c' hc' => hwf c' (List.mem_cons_of_mem _ hc')) (by simpa [isDiscrete] using hd.2) _⟩

end C10
