/-
  Real-analysis input for the Matérn kernels of C03 (no model imports):
  the Cauchy–Schlömilch integral  ∫_0^∞ exp(−x² − b²/x²) dx = (√π/2) e^{−2b}  (b ≥ 0)
  through Glasser's substitution u = x − b/x, its second and fourth moments by integration by parts,
  and the substitution s = 1/(4x²) that turns them into the usual inverse-gamma rate mixtures.
-/
import Mathlib.MeasureTheory.Function.JacobianOneDim
import Mathlib.Analysis.SpecialFunctions.Gaussian.GaussianIntegral
import Mathlib.MeasureTheory.Integral.IntegralEqImproper

open Real MeasureTheory Set Filter Topology

namespace MaternInt

/-! ### substitution x ↦ b / x on (0, ∞) -/

theorem inv_image_Ioi {b : ℝ} (hb : 0 < b) : (fun x : ℝ => b / x) '' Ioi 0 = Ioi 0 := by
  ext y
  constructor
  · rintro ⟨x, hx, rfl⟩
    exact div_pos hb hx
  · intro hy
    refine ⟨b / y, div_pos hb hy, ?_⟩
    have : y ≠ 0 := ne_of_gt hy
    field_simp

theorem inv_hasDeriv {b : ℝ} (x : ℝ) (hx : x ∈ Ioi (0 : ℝ)) :
    HasDerivWithinAt (fun x : ℝ => b / x) (-b / x ^ 2) (Ioi 0) x := by
  have hx0 : x ≠ 0 := ne_of_gt hx
  have h : HasDerivAt (fun x : ℝ => b / x) ((0 * x - b * 1) / x ^ 2) x :=
    (hasDerivAt_const x b).div (hasDerivAt_id' x) hx0
  have e : (0 * x - b * 1) / x ^ 2 = -b / x ^ 2 := by ring
  rw [e] at h
  exact h.hasDerivWithinAt

theorem inv_injOn {b : ℝ} (hb : 0 < b) : InjOn (fun x : ℝ => b / x) (Ioi 0) := by
  intro x hx y hy h
  have hx0 : x ≠ 0 := ne_of_gt hx
  have hy0 : y ≠ 0 := ne_of_gt hy
  have hb0 : b ≠ 0 := ne_of_gt hb
  simp only at h
  field_simp at h
  linarith

theorem integral_comp_inv {b : ℝ} (hb : 0 < b) (k : ℝ → ℝ) :
    ∫ x in Ioi 0, k x = ∫ x in Ioi 0, b / x ^ 2 * k (b / x) := by
  have h := integral_image_eq_integral_abs_deriv_smul measurableSet_Ioi
    (fun x hx => inv_hasDeriv (b := b) x hx) (inv_injOn hb) k
  rw [inv_image_Ioi hb] at h
  rw [h]
  refine setIntegral_congr_fun measurableSet_Ioi fun x hx => ?_
  simp only [smul_eq_mul]
  rw [neg_div, abs_neg, abs_of_nonneg (by positivity)]

theorem integrableOn_comp_inv {b : ℝ} (hb : 0 < b) (k : ℝ → ℝ) :
    IntegrableOn k (Ioi 0) ↔ IntegrableOn (fun x => b / x ^ 2 * k (b / x)) (Ioi 0) := by
  have h := integrableOn_image_iff_integrableOn_abs_deriv_smul measurableSet_Ioi
    (fun x hx => inv_hasDeriv (b := b) x hx) (inv_injOn hb) k
  rw [inv_image_Ioi hb] at h
  rw [h]
  refine integrableOn_congr_fun (fun x hx => ?_) measurableSet_Ioi
  simp only [smul_eq_mul]
  rw [neg_div, abs_neg, abs_of_nonneg (by positivity)]

/-! ### Glasser's substitution u = x − b / x from (0, ∞) onto ℝ -/

theorem glasser_image {b : ℝ} (hb : 0 < b) : (fun x : ℝ => x - b / x) '' Ioi 0 = univ := by
  ext u
  simp only [mem_univ, iff_true]
  have hs : 0 ≤ u ^ 2 + 4 * b := by positivity
  have hs2 : sqrt (u ^ 2 + 4 * b) ^ 2 = u ^ 2 + 4 * b := Real.sq_sqrt hs
  have hlt : |u| < sqrt (u ^ 2 + 4 * b) := by
    rw [← Real.sqrt_sq (abs_nonneg u), sq_abs]
    exact Real.sqrt_lt_sqrt (sq_nonneg u) (by linarith)
  have hpos : 0 < (u + sqrt (u ^ 2 + 4 * b)) / 2 := by
    have := neg_abs_le u
    linarith
  refine ⟨(u + sqrt (u ^ 2 + 4 * b)) / 2, hpos, ?_⟩
  have hne : (u + sqrt (u ^ 2 + 4 * b)) / 2 ≠ 0 := ne_of_gt hpos
  have hq : (u + sqrt (u ^ 2 + 4 * b)) / 2 * ((u + sqrt (u ^ 2 + 4 * b)) / 2)
      - u * ((u + sqrt (u ^ 2 + 4 * b)) / 2) - b = 0 := by nlinarith [hs2]
  generalize (u + sqrt (u ^ 2 + 4 * b)) / 2 = x at hne hq
  show x - b / x = u
  field_simp
  linarith

theorem glasser_hasDeriv {b : ℝ} (x : ℝ) (hx : x ∈ Ioi (0 : ℝ)) :
    HasDerivWithinAt (fun x : ℝ => x - b / x) (1 + b / x ^ 2) (Ioi 0) x := by
  have hx0 : x ≠ 0 := ne_of_gt hx
  have h : HasDerivAt (fun x : ℝ => x - b / x) (1 - (0 * x - b * 1) / x ^ 2) x :=
    (hasDerivAt_id' x).sub ((hasDerivAt_const x b).div (hasDerivAt_id' x) hx0)
  have e : 1 - (0 * x - b * 1) / x ^ 2 = 1 + b / x ^ 2 := by ring
  rw [e] at h
  exact h.hasDerivWithinAt

theorem glasser_injOn {b : ℝ} (hb : 0 < b) : InjOn (fun x : ℝ => x - b / x) (Ioi 0) := by
  have hmono : StrictMonoOn (fun x : ℝ => x - b / x) (Ioi 0) := by
    intro x hx y _ hxy
    have : b / y < b / x := div_lt_div_of_pos_left hb hx hxy
    show x - b / x < y - b / y
    linarith
  exact hmono.injOn

theorem integral_glasser {b : ℝ} (hb : 0 < b) (h : ℝ → ℝ) :
    ∫ u, h u = ∫ x in Ioi 0, (1 + b / x ^ 2) * h (x - b / x) := by
  have e := integral_image_eq_integral_abs_deriv_smul measurableSet_Ioi
    (fun x hx => glasser_hasDeriv (b := b) x hx) (glasser_injOn hb) h
  rw [glasser_image hb, Measure.restrict_univ] at e
  rw [e]
  refine setIntegral_congr_fun measurableSet_Ioi fun x hx => ?_
  simp only [smul_eq_mul]
  rw [abs_of_nonneg (by positivity)]

theorem integrable_glasser {b : ℝ} (hb : 0 < b) (h : ℝ → ℝ) :
    Integrable h ↔ IntegrableOn (fun x => (1 + b / x ^ 2) * h (x - b / x)) (Ioi 0) := by
  have e := integrableOn_image_iff_integrableOn_abs_deriv_smul measurableSet_Ioi
    (fun x hx => glasser_hasDeriv (b := b) x hx) (glasser_injOn hb) h
  rw [glasser_image hb, integrableOn_univ] at e
  rw [e]
  refine integrableOn_congr_fun (fun x hx => ?_) measurableSet_Ioi
  simp only [smul_eq_mul]
  rw [abs_of_nonneg (by positivity)]

/-! ### The Cauchy–Schlömilch integral ∫_0^∞ exp(−(x − b/x)²) dx = √π / 2 -/

theorem F_inv {b : ℝ} (hb : 0 < b) {x : ℝ} (hx : 0 < x) :
    exp (-(b / x - b / (b / x)) ^ 2) = exp (-(x - b / x) ^ 2) := by
  have hx0 : x ≠ 0 := ne_of_gt hx
  have hb0 : b ≠ 0 := ne_of_gt hb
  have : b / (b / x) = x := by field_simp
  rw [this]
  congr 1
  ring

theorem integrableOn_glasser_F {b : ℝ} (hb : 0 < b) :
    IntegrableOn (fun x : ℝ => (1 + b / x ^ 2) * exp (-(x - b / x) ^ 2)) (Ioi 0) := by
  refine (integrable_glasser hb (fun u => exp (-u ^ 2))).mp ?_
  simpa using integrable_exp_neg_mul_sq one_pos

theorem integrableOn_F {b : ℝ} (hb : 0 < b) :
    IntegrableOn (fun x : ℝ => exp (-(x - b / x) ^ 2)) (Ioi 0) := by
  refine Integrable.mono' (integrableOn_glasser_F hb) ?_ ?_
  · exact (by fun_prop : Measurable fun x : ℝ => exp (-(x - b / x) ^ 2)).aestronglyMeasurable
  · refine (ae_restrict_iff' measurableSet_Ioi).mpr (Filter.Eventually.of_forall fun x hx => ?_)
    rw [Real.norm_of_nonneg (exp_pos _).le]
    have : 0 ≤ b / x ^ 2 := by positivity
    nlinarith [exp_pos (-(x - b / x) ^ 2)]

theorem integral_F {b : ℝ} (hb : 0 < b) :
    ∫ x in Ioi 0, exp (-(x - b / x) ^ 2) = sqrt π / 2 := by
  have hI := integrableOn_glasser_F hb
  have hF := integrableOn_F hb
  have hv : ∫ x in Ioi 0, (1 + b / x ^ 2) * exp (-(x - b / x) ^ 2) = sqrt π := by
    rw [← integral_glasser hb (fun u => exp (-u ^ 2))]
    simpa using integral_gaussian 1
  have hinv : ∫ x in Ioi 0, exp (-(x - b / x) ^ 2)
      = ∫ x in Ioi 0, b / x ^ 2 * exp (-(x - b / x) ^ 2) := by
    rw [integral_comp_inv hb (fun x => exp (-(x - b / x) ^ 2))]
    refine setIntegral_congr_fun measurableSet_Ioi fun x hx => ?_
    rw [F_inv hb hx]
  have hF2 : IntegrableOn (fun x : ℝ => b / x ^ 2 * exp (-(x - b / x) ^ 2)) (Ioi 0) := by
    have := (integrableOn_comp_inv hb (fun x => exp (-(x - b / x) ^ 2))).mp hF
    refine this.congr_fun (fun x hx => ?_) measurableSet_Ioi
    simp only
    rw [F_inv hb hx]
  have hsum : ∫ x in Ioi 0, (1 + b / x ^ 2) * exp (-(x - b / x) ^ 2)
      = (∫ x in Ioi 0, exp (-(x - b / x) ^ 2))
        + ∫ x in Ioi 0, b / x ^ 2 * exp (-(x - b / x) ^ 2) := by
    rw [← integral_add hF hF2]
    refine setIntegral_congr_fun measurableSet_Ioi fun x _ => ?_
    ring
  rw [hv, ← hinv] at hsum
  linarith

/-! ### The family E b x = exp(−x² − b²/x²) and its even moments on (0, ∞) -/

/-- `exp(−x² − b²/x²)` -/
noncomputable def E (b x : ℝ) : ℝ := exp (-x ^ 2 - b ^ 2 / x ^ 2)

theorem E_pos (b x : ℝ) : 0 < E b x := exp_pos _

theorem E_le_gauss (b x : ℝ) : E b x ≤ exp (-x ^ 2) := by
  unfold E
  refine exp_le_exp.mpr ?_
  have : 0 ≤ b ^ 2 / x ^ 2 := by positivity
  linarith

theorem E_le_one (b x : ℝ) : E b x ≤ 1 := by
  refine (E_le_gauss b x).trans ?_
  rw [← exp_zero]
  exact exp_le_exp.mpr (by nlinarith [sq_nonneg x])

theorem E_eq_F {b x : ℝ} (hx : 0 < x) : E b x = exp (-(2 * b)) * exp (-(x - b / x) ^ 2) := by
  have hx0 : x ≠ 0 := ne_of_gt hx
  unfold E
  rw [← exp_add]
  congr 1
  field_simp
  ring

theorem E_inv {b : ℝ} (hb : 0 < b) {x : ℝ} (hx : 0 < x) : E b (b / x) = E b x := by
  have hx0 : x ≠ 0 := ne_of_gt hx
  have hb0 : b ≠ 0 := ne_of_gt hb
  unfold E
  congr 1
  field_simp
  ring

theorem measurable_pow_mul_E (m : ℕ) (b : ℝ) : Measurable fun x : ℝ => x ^ m * E b x := by
  unfold E
  fun_prop

theorem integrableOn_pow_mul_E (m : ℕ) (b : ℝ) :
    IntegrableOn (fun x : ℝ => x ^ m * E b x) (Ioi 0) := by
  have h := integrableOn_rpow_mul_exp_neg_mul_sq (b := 1) one_pos (s := (m : ℝ))
    (by have := Nat.cast_nonneg (α := ℝ) m; linarith)
  refine Integrable.mono' h (measurable_pow_mul_E m b).aestronglyMeasurable ?_
  refine (ae_restrict_iff' measurableSet_Ioi).mpr (Filter.Eventually.of_forall fun x hx => ?_)
  have hx0 : (0 : ℝ) < x := hx
  rw [Real.norm_of_nonneg (mul_nonneg (pow_nonneg hx0.le m) (E_pos b x).le), Real.rpow_natCast]
  refine mul_le_mul_of_nonneg_left ?_ (pow_nonneg hx0.le m)
  simpa using E_le_gauss b x

theorem integrableOn_E (b : ℝ) : IntegrableOn (fun x : ℝ => E b x) (Ioi 0) := by
  simpa using integrableOn_pow_mul_E 0 b

/-- `∫_0^∞ exp(−x² − b²/x²) dx = (√π/2) e^{−2b}` for `b ≥ 0`. -/
theorem integral_E {b : ℝ} (hb : 0 ≤ b) : ∫ x in Ioi 0, E b x = sqrt π / 2 * exp (-(2 * b)) := by
  rcases hb.eq_or_lt with rfl | hb
  · have h := integral_gaussian_Ioi 1
    simp only [E]
    simpa using h
  · have e : ∫ x in Ioi 0, E b x = ∫ x in Ioi 0, exp (-(2 * b)) * exp (-(x - b / x) ^ 2) :=
      setIntegral_congr_fun measurableSet_Ioi fun x hx => E_eq_F hx
    rw [e, integral_const_mul, integral_F hb]
    ring

/-! ### Integration by parts: the second and fourth moments -/

theorem hasDerivAt_E (b : ℝ) {x : ℝ} (hx : x ≠ 0) :
    HasDerivAt (fun x => E b x) (E b x * (-(2 * x) + 2 * b ^ 2 / x ^ 3)) x := by
  have h0 : HasDerivAt (fun x : ℝ => x ^ 2) (2 * x) x := by
    simpa using hasDerivAt_pow 2 x
  have h1 : HasDerivAt (fun x : ℝ => -x ^ 2) (-(2 * x)) x := h0.neg
  have h2 : HasDerivAt (fun x : ℝ => b ^ 2 / x ^ 2) ((0 * x ^ 2 - b ^ 2 * (2 * x)) / (x ^ 2) ^ 2) x :=
    (hasDerivAt_const x (b ^ 2)).fun_div h0 (pow_ne_zero 2 hx)
  have h3 : HasDerivAt (fun x : ℝ => exp (-x ^ 2 - b ^ 2 / x ^ 2))
      (exp (-x ^ 2 - b ^ 2 / x ^ 2) * (-(2 * x) - (0 * x ^ 2 - b ^ 2 * (2 * x)) / (x ^ 2) ^ 2)) x :=
    (h1.sub h2).exp
  have e : -(2 * x) - (0 * x ^ 2 - b ^ 2 * (2 * x)) / (x ^ 2) ^ 2 = -(2 * x) + 2 * b ^ 2 / x ^ 3 := by
    field_simp
    ring
  rw [e] at h3
  exact h3

theorem hasDerivAt_pow_mul_E (m : ℕ) (b : ℝ) {x : ℝ} (hx : x ≠ 0) :
    HasDerivAt (fun x => x ^ m * E b x)
      (m * x ^ (m - 1) * E b x + x ^ m * (E b x * (-(2 * x) + 2 * b ^ 2 / x ^ 3))) x :=
  (hasDerivAt_pow m x).mul (hasDerivAt_E b hx)

theorem continuousWithinAt_pow_mul_E {m : ℕ} (hm : m ≠ 0) (b : ℝ) :
    ContinuousWithinAt (fun x => x ^ m * E b x) (Ici 0) 0 := by
  refine ContinuousAt.continuousWithinAt ?_
  show Tendsto (fun x => x ^ m * E b x) (𝓝 0) (𝓝 (0 ^ m * E b 0))
  rw [zero_pow hm, zero_mul]
  refine squeeze_zero_norm (a := fun x : ℝ => |x| ^ m) (fun x => ?_) ?_
  · rw [norm_mul, norm_pow, Real.norm_eq_abs, Real.norm_of_nonneg (E_pos b x).le]
    exact mul_le_of_le_one_right (pow_nonneg (abs_nonneg x) m) (E_le_one b x)
  · have : Continuous fun x : ℝ => |x| ^ m := by fun_prop
    have h := this.tendsto 0
    simpa [hm] using h

theorem tendsto_pow_mul_E_atTop (m : ℕ) (b : ℝ) :
    Tendsto (fun x => x ^ m * E b x) atTop (𝓝 0) := by
  refine squeeze_zero_norm' (a := fun x : ℝ => x ^ m * exp (-x)) ?_
    (Real.tendsto_pow_mul_exp_neg_atTop_nhds_zero m)
  filter_upwards [eventually_ge_atTop (1 : ℝ)] with x hx
  have hx0 : 0 ≤ x := by linarith
  rw [Real.norm_of_nonneg (mul_nonneg (pow_nonneg hx0 m) (E_pos b x).le)]
  refine mul_le_mul_of_nonneg_left ((E_le_gauss b x).trans ?_) (pow_nonneg hx0 m)
  exact exp_le_exp.mpr (by nlinarith)

/-- integration by parts on (0, ∞): the derivative of `x^m · E b x` (m ≥ 1) integrates to zero -/
theorem integral_deriv_pow_mul_E {m : ℕ} (hm : m ≠ 0) (b : ℝ)
    (hint : IntegrableOn (fun x : ℝ =>
      m * x ^ (m - 1) * E b x + x ^ m * (E b x * (-(2 * x) + 2 * b ^ 2 / x ^ 3))) (Ioi 0)) :
    ∫ x in Ioi 0, (m * x ^ (m - 1) * E b x + x ^ m * (E b x * (-(2 * x) + 2 * b ^ 2 / x ^ 3))) = 0 := by
  have h := integral_Ioi_of_hasDerivAt_of_tendsto (continuousWithinAt_pow_mul_E hm b)
    (fun x hx => hasDerivAt_pow_mul_E m b (ne_of_gt hx)) hint (tendsto_pow_mul_E_atTop m b)
  rw [h, zero_pow hm]
  ring

/-- the one negative power that occurs: `(b/x²)·E b x`, obtained from `E b` by `x ↦ b/x` -/
theorem integrableOn_inv_sq_mul_E {b : ℝ} (hb : 0 ≤ b) :
    IntegrableOn (fun x : ℝ => b / x ^ 2 * E b x) (Ioi 0) := by
  rcases hb.eq_or_lt with rfl | hb
  · simp
  · have := (integrableOn_comp_inv hb (fun x => E b x)).mp (integrableOn_E b)
    refine this.congr_fun (fun x hx => ?_) measurableSet_Ioi
    show b / x ^ 2 * E b (b / x) = b / x ^ 2 * E b x
    rw [E_inv hb hx]

theorem integral_inv_sq_mul_E {b : ℝ} (hb : 0 ≤ b) :
    b * ∫ x in Ioi 0, b / x ^ 2 * E b x = b * ∫ x in Ioi 0, E b x := by
  rcases hb.eq_or_lt with rfl | hb
  · simp
  · congr 1
    rw [integral_comp_inv hb (fun x => E b x)]
    refine setIntegral_congr_fun measurableSet_Ioi fun x hx => ?_
    show b / x ^ 2 * E b x = b / x ^ 2 * E b (b / x)
    rw [E_inv hb hx]

/-- `∫_0^∞ x² exp(−x² − b²/x²) dx = (√π/4)(1 + 2b) e^{−2b}` -/
theorem integral_sq_mul_E {b : ℝ} (hb : 0 ≤ b) :
    ∫ x in Ioi 0, x ^ 2 * E b x = sqrt π / 4 * (1 + 2 * b) * exp (-(2 * b)) := by
  have h0 := integrableOn_E b
  have h2 := integrableOn_pow_mul_E 2 b
  have hH := integrableOn_inv_sq_mul_E hb
  have i2 : IntegrableOn (fun x : ℝ => 2 * (x ^ 2 * E b x)) (Ioi 0) := h2.const_mul 2
  have i1 : IntegrableOn (fun x : ℝ => E b x - 2 * (x ^ 2 * E b x)) (Ioi 0) := h0.sub i2
  have i3 : IntegrableOn (fun x : ℝ => 2 * b * (b / x ^ 2 * E b x)) (Ioi 0) := hH.const_mul (2 * b)
  have hcomb : IntegrableOn (fun x : ℝ => E b x - 2 * (x ^ 2 * E b x) + 2 * b * (b / x ^ 2 * E b x))
      (Ioi 0) := i1.add i3
  have hcongr : ∀ x ∈ Ioi (0 : ℝ),
      E b x - 2 * (x ^ 2 * E b x) + 2 * b * (b / x ^ 2 * E b x)
      = ((1 : ℕ) : ℝ) * x ^ (1 - 1) * E b x + x ^ 1 * (E b x * (-(2 * x) + 2 * b ^ 2 / x ^ 3)) := by
    intro x hx
    have hx0 : x ≠ 0 := ne_of_gt hx
    field_simp
    ring
  have hz := integral_deriv_pow_mul_E one_ne_zero b (hcomb.congr_fun hcongr measurableSet_Ioi)
  rw [← setIntegral_congr_fun measurableSet_Ioi hcongr,
    integral_add i1 i3, integral_sub h0 i2, integral_const_mul, integral_const_mul, mul_assoc,
    integral_inv_sq_mul_E hb, integral_E hb] at hz
  linarith

/-- `∫_0^∞ x⁴ exp(−x² − b²/x²) dx = (√π/8)(3 + 6b + 4b²) e^{−2b}` -/
theorem integral_pow_four_mul_E {b : ℝ} (hb : 0 ≤ b) :
    ∫ x in Ioi 0, x ^ 4 * E b x = sqrt π / 8 * (3 + 6 * b + 4 * b ^ 2) * exp (-(2 * b)) := by
  have h0 := integrableOn_E b
  have h2 := integrableOn_pow_mul_E 2 b
  have h4 := integrableOn_pow_mul_E 4 b
  have i2 : IntegrableOn (fun x : ℝ => 3 * (x ^ 2 * E b x)) (Ioi 0) := h2.const_mul 3
  have i4 : IntegrableOn (fun x : ℝ => 2 * (x ^ 4 * E b x)) (Ioi 0) := h4.const_mul 2
  have i1 : IntegrableOn (fun x : ℝ => 3 * (x ^ 2 * E b x) - 2 * (x ^ 4 * E b x)) (Ioi 0) := i2.sub i4
  have i3 : IntegrableOn (fun x : ℝ => 2 * b ^ 2 * E b x) (Ioi 0) := h0.const_mul (2 * b ^ 2)
  have hcomb : IntegrableOn (fun x : ℝ => 3 * (x ^ 2 * E b x) - 2 * (x ^ 4 * E b x) + 2 * b ^ 2 * E b x)
      (Ioi 0) := i1.add i3
  have hcongr : ∀ x ∈ Ioi (0 : ℝ),
      3 * (x ^ 2 * E b x) - 2 * (x ^ 4 * E b x) + 2 * b ^ 2 * E b x
      = ((3 : ℕ) : ℝ) * x ^ (3 - 1) * E b x + x ^ 3 * (E b x * (-(2 * x) + 2 * b ^ 2 / x ^ 3)) := by
    intro x hx
    have hx0 : x ≠ 0 := ne_of_gt hx
    field_simp
    push_cast
    ring
  have hz := integral_deriv_pow_mul_E (by norm_num : (3 : ℕ) ≠ 0) b
    (hcomb.congr_fun hcongr measurableSet_Ioi)
  rw [← setIntegral_congr_fun measurableSet_Ioi hcongr,
    integral_add i1 i3, integral_sub i2 i4, integral_const_mul, integral_const_mul,
    integral_const_mul, integral_sq_mul_E hb, integral_E hb] at hz
  linarith

/-! ### substitution s = 1/(4x²) -/

theorem rate_image : (fun x : ℝ => 1 / (4 * x ^ 2)) '' Ioi 0 = Ioi 0 := by
  ext y
  constructor
  · rintro ⟨x, hx, rfl⟩
    have : (0 : ℝ) < x := hx
    show (0 : ℝ) < 1 / (4 * x ^ 2)
    positivity
  · intro hy
    have hy0 : (0 : ℝ) < y := hy
    have hsp : 0 < sqrt y := Real.sqrt_pos.mpr hy0
    refine ⟨1 / (2 * sqrt y), (by positivity : (0 : ℝ) < 1 / (2 * sqrt y)), ?_⟩
    show 1 / (4 * (1 / (2 * sqrt y)) ^ 2) = y
    have hs : sqrt y ^ 2 = y := Real.sq_sqrt hy0.le
    have hs0 : sqrt y ≠ 0 := (Real.sqrt_pos.mpr hy0).ne'
    field_simp
    linarith

theorem rate_hasDeriv (x : ℝ) (hx : x ∈ Ioi (0 : ℝ)) :
    HasDerivWithinAt (fun x : ℝ => 1 / (4 * x ^ 2)) (-(1 / (2 * x ^ 3))) (Ioi 0) x := by
  have hx0 : x ≠ 0 := ne_of_gt hx
  have h0 : HasDerivAt (fun x : ℝ => x ^ 2) (2 * x) x := by
    simpa using hasDerivAt_pow 2 x
  have h1 : HasDerivAt (fun x : ℝ => 4 * x ^ 2) (4 * (2 * x)) x := h0.const_mul 4
  have h2 : HasDerivAt (fun x : ℝ => 1 / (4 * x ^ 2)) ((0 * (4 * x ^ 2) - 1 * (4 * (2 * x))) / (4 * x ^ 2) ^ 2) x :=
    (hasDerivAt_const x (1 : ℝ)).fun_div h1 (by positivity)
  have e : (0 * (4 * x ^ 2) - 1 * (4 * (2 * x))) / (4 * x ^ 2) ^ 2 = -(1 / (2 * x ^ 3)) := by
    field_simp
    ring
  rw [e] at h2
  exact h2.hasDerivWithinAt

theorem rate_injOn : InjOn (fun x : ℝ => 1 / (4 * x ^ 2)) (Ioi 0) := by
  intro x hx y hy h
  have hx0 : (0 : ℝ) < x := hx
  have hy0 : (0 : ℝ) < y := hy
  simp only at h
  have h2 : x ^ 2 = y ^ 2 := by
    field_simp at h
    linarith
  exact (sq_eq_sq₀ hx0.le hy0.le).mp h2

theorem integral_comp_rate (W : ℝ → ℝ) :
    ∫ s in Ioi 0, W s = ∫ x in Ioi 0, 1 / (2 * x ^ 3) * W (1 / (4 * x ^ 2)) := by
  have h := integral_image_eq_integral_abs_deriv_smul measurableSet_Ioi rate_hasDeriv rate_injOn W
  rw [rate_image] at h
  rw [h]
  refine setIntegral_congr_fun measurableSet_Ioi fun x hx => ?_
  have hx0 : (0 : ℝ) < x := hx
  simp only [smul_eq_mul]
  rw [abs_neg, abs_of_nonneg (by positivity)]

theorem integrableOn_comp_rate (W : ℝ → ℝ) :
    IntegrableOn W (Ioi 0) ↔ IntegrableOn (fun x => 1 / (2 * x ^ 3) * W (1 / (4 * x ^ 2))) (Ioi 0) := by
  have h := integrableOn_image_iff_integrableOn_abs_deriv_smul measurableSet_Ioi rate_hasDeriv
    rate_injOn W
  rw [rate_image] at h
  rw [h]
  refine integrableOn_congr_fun (fun x hx => ?_) measurableSet_Ioi
  have hx0 : (0 : ℝ) < x := hx
  simp only [smul_eq_mul]
  rw [abs_neg, abs_of_nonneg (by positivity)]

/-- `(1/(4x²))^(−p/2) = (2x)^p` -/
theorem rate_rpow {x : ℝ} (hx : 0 < x) (p : ℕ) :
    (1 / (4 * x ^ 2)) ^ (-((p : ℝ) / 2)) = (2 * x) ^ p := by
  have hy : 0 < 2 * x := by positivity
  have e : 1 / (4 * x ^ 2) = ((2 * x) ^ (2 : ℝ))⁻¹ := by
    rw [show (2 : ℝ) = ((2 : ℕ) : ℝ) by norm_num, Real.rpow_natCast]
    rw [one_div]; congr 1; ring
  rw [e, Real.inv_rpow (by positivity), Real.rpow_neg (by positivity), inv_inv, ← Real.rpow_mul hy.le,
    show (2 : ℝ) * ((p : ℝ) / 2) = (p : ℝ) by ring, Real.rpow_natCast]

/-- inverse-gamma type weight `a · s^(−p/2) · exp(−1/(4s))` -/
noncomputable def wRate (a : ℝ) (p : ℕ) (s : ℝ) : ℝ := a * s ^ (-((p : ℝ) / 2)) * exp (-(1 / (4 * s)))

theorem wRate_nonneg {a : ℝ} (ha : 0 ≤ a) (p : ℕ) {s : ℝ} (hs : 0 < s) : 0 ≤ wRate a p s := by
  unfold wRate
  have := Real.rpow_pos_of_pos hs (-((p : ℝ) / 2))
  positivity

/-- after `s = 1/(4x²)` the rate-form integrand becomes the `x`-form integrand -/
theorem rate_integrand (a : ℝ) (k : ℕ) (d : ℝ) {x : ℝ} (hx : 0 < x) :
    1 / (2 * x ^ 3) * (wRate a (2 * k + 3) (1 / (4 * x ^ 2)) * exp (-(1 / (4 * x ^ 2) * d)))
      = a * 4 ^ (k + 1) * x ^ (2 * k) * exp (-x ^ 2) * exp (-(1 / (4 * x ^ 2) * d)) := by
  have hx0 : x ≠ 0 := ne_of_gt hx
  unfold wRate
  rw [rate_rpow hx]
  have e1 : 1 / (4 * (1 / (4 * x ^ 2))) = x ^ 2 := by field_simp
  rw [e1]
  have e2 : (2 * x) ^ (2 * k + 3) = 2 * x ^ 3 * (4 ^ (k + 1) * x ^ (2 * k)) := by
    rw [mul_pow, pow_add, pow_add, pow_succ (4 : ℝ), pow_mul]
    norm_num
    ring
  rw [e2]
  field_simp

end MaternInt
