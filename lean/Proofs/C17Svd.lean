/-
  C17 — the singular value decomposition of a symmetric positive semi-definite matrix is an
  eigendecomposition: from `S = U diag(E) Vᵀ` (U, V orthogonal, E ≥ 0) and `S` PSD follows
  `S = U diag(E) Uᵀ`.  Uniqueness of the positive semi-definite square root (Mathlib's continuous
  functional calculus on real matrices) applied to `S² = U diag(E²) Uᵀ = (U diag(E) Uᵀ)²`.
-/
import Mathlib.Analysis.Matrix.Order
import Mathlib.Analysis.SpecialFunctions.ContinuousFunctionalCalculus.Rpow.Basic
import Mathlib.Topology.Algebra.Order.Archimedean
import Mathlib.Topology.Instances.Matrix

open Matrix
open scoped MatrixOrder

namespace C17

/-- `U diag(E) Uᵀ` is positive semi-definite when `E ≥ 0` (any `U`). -/
theorem posSemidef_conj_diagonal {n : Type*} [Fintype n] [DecidableEq n]
    (U : Matrix n n ℝ) (E : n → ℝ) (hE : ∀ i, 0 ≤ E i) :
    (U * diagonal E * Uᵀ).PosSemidef := by
  have h := (PosSemidef.diagonal (n := n) (R := ℝ) (d := E) hE).mul_mul_conjTranspose_same U
  rwa [conjTranspose_eq_transpose_of_trivial] at h

/-- Two real positive semi-definite matrices with the same square are equal. -/
theorem posSemidef_eq_of_mul_self_eq {n : Type*} [Fintype n] [DecidableEq n]
    {A B : Matrix n n ℝ} (hA : A.PosSemidef) (hB : B.PosSemidef) (h : A * A = B * B) : A = B :=
  (CFC.mul_self_eq_mul_self_iff A B hA.nonneg hB.nonneg).1 h

/-- An SVD of a symmetric positive semi-definite matrix is an eigendecomposition: `V` may be replaced
    by `U`.  (For singular `S` one need not have `V = U` — columns belonging to singular value 0 are
    arbitrary — but `U diag(E) Vᵀ = U diag(E) Uᵀ` all the same.) -/
theorem svd_symm_of_posSemidef {n : Type*} [Fintype n] [DecidableEq n]
    (S U V : Matrix n n ℝ) (E : n → ℝ)
    (hS : S.PosSemidef) (hsvd : S = U * diagonal E * Vᵀ)
    (hU : Uᵀ * U = 1) (hV : Vᵀ * V = 1) (hE : ∀ i, 0 ≤ E i) :
    S = U * diagonal E * Uᵀ := by
  have hsymm : Sᵀ = S := by
    have := hS.1
    rwa [IsHermitian, conjTranspose_eq_transpose_of_trivial] at this
  have hSS : S * S = U * (diagonal E * diagonal E) * Uᵀ := by
    nth_rewrite 2 [← hsymm]
    rw [hsvd, transpose_mul, transpose_mul, transpose_transpose, diagonal_transpose]
    calc U * diagonal E * Vᵀ * (V * (diagonal E * Uᵀ))
        = U * diagonal E * (Vᵀ * V) * (diagonal E * Uᵀ) := by simp only [Matrix.mul_assoc]
      _ = U * (diagonal E * diagonal E) * Uᵀ := by
          rw [hV, Matrix.mul_one]; simp only [Matrix.mul_assoc]
  have hTT : (U * diagonal E * Uᵀ) * (U * diagonal E * Uᵀ) = U * (diagonal E * diagonal E) * Uᵀ := by
    calc (U * diagonal E * Uᵀ) * (U * diagonal E * Uᵀ)
        = U * diagonal E * (Uᵀ * U) * (diagonal E * Uᵀ) := by simp only [Matrix.mul_assoc]
      _ = U * (diagonal E * diagonal E) * Uᵀ := by
          rw [hU, Matrix.mul_one]; simp only [Matrix.mul_assoc]
  exact posSemidef_eq_of_mul_self_eq hS (posSemidef_conj_diagonal U E hE) (hSS.trans hTT.symm)

/-! ### The same for rational matrices (the list model of `Model/C17.lean` is over `ℚ`) -/

/-- cast of a rational matrix to a real one -/
noncomputable def toReal {n m : Type*} (A : Matrix n m ℚ) : Matrix n m ℝ := A.map (Rat.castHom ℝ)

theorem toReal_injective {n m : Type*} : Function.Injective (toReal : Matrix n m ℚ → Matrix n m ℝ) :=
  Matrix.map_injective (Rat.castHom ℝ).injective

theorem toReal_mul {n m k : Type*} [Fintype m] (A : Matrix n m ℚ) (B : Matrix m k ℚ) :
    toReal (A * B) = toReal A * toReal B := Matrix.map_mul

theorem toReal_transpose {n m : Type*} (A : Matrix n m ℚ) : toReal Aᵀ = (toReal A)ᵀ := rfl

theorem toReal_diagonal {n : Type*} [DecidableEq n] (d : n → ℚ) :
    toReal (diagonal d) = diagonal fun i => (d i : ℝ) := by
  unfold toReal
  rw [diagonal_map (map_zero _)]
  rfl

theorem toReal_one {n : Type*} [DecidableEq n] : toReal (1 : Matrix n n ℚ) = 1 := by
  unfold toReal
  rw [Matrix.map_one _ (map_zero _) (map_one _)]

/-- A symmetric rational matrix whose quadratic form is non-negative on RATIONAL vectors is positive
    semi-definite as a real matrix (the form is continuous and `ℚⁿ` is dense in `ℝⁿ`). -/
theorem posSemidef_toReal_of_rat {n : Type*} [Fintype n] (S : Matrix n n ℚ) (hsymm : Sᵀ = S)
    (hpsd : ∀ x : n → ℚ, 0 ≤ x ⬝ᵥ (S *ᵥ x)) : (toReal S).PosSemidef := by
  refine PosSemidef.of_dotProduct_mulVec_nonneg ?_ ?_
  · rw [IsHermitian, conjTranspose_eq_transpose_of_trivial, ← toReal_transpose, hsymm]
  · intro x
    rw [star_trivial]
    have hdense : DenseRange (fun q : n → ℚ => fun i => ((q i : ℚ) : ℝ)) :=
      DenseRange.piMap fun _ => Rat.denseRange_cast
    have hcont : Continuous fun y : n → ℝ => y ⬝ᵥ (toReal S *ᵥ y) := by
      unfold dotProduct mulVec dotProduct
      fun_prop
    have hclosed : IsClosed {y : n → ℝ | 0 ≤ y ⬝ᵥ (toReal S *ᵥ y)} :=
      isClosed_le continuous_const hcont
    refine hdense.induction_on (p := fun y => 0 ≤ y ⬝ᵥ (toReal S *ᵥ y)) x hclosed fun q => ?_
    have : (fun i => ((q i : ℚ) : ℝ)) ⬝ᵥ (toReal S *ᵥ fun i => ((q i : ℚ) : ℝ))
        = ((q ⬝ᵥ (S *ᵥ q) : ℚ) : ℝ) := by
      simp [dotProduct, mulVec, toReal]
    rw [this]
    exact_mod_cast hpsd q

/-- `svd_symm_of_posSemidef` for rational data. -/
theorem svd_symm_of_posSemidef_rat {n : Type*} [Fintype n] [DecidableEq n]
    (S U V : Matrix n n ℚ) (E : n → ℚ)
    (hS : (toReal S).PosSemidef) (hsvd : S = U * diagonal E * Vᵀ)
    (hU : Uᵀ * U = 1) (hV : Vᵀ * V = 1) (hE : ∀ i, 0 ≤ E i) :
    S = U * diagonal E * Uᵀ := by
  apply toReal_injective
  rw [toReal_mul, toReal_mul, toReal_transpose, toReal_diagonal]
  refine svd_symm_of_posSemidef (toReal S) (toReal U) (toReal V) _ hS ?_ ?_ ?_ ?_
  · rw [hsvd, toReal_mul, toReal_mul, toReal_transpose, toReal_diagonal]
  · rw [← toReal_transpose, ← toReal_mul, hU, toReal_one]
  · rw [← toReal_transpose, ← toReal_mul, hV, toReal_one]
  · intro i; exact_mod_cast hE i

end C17
