/-
  C17 — helper definitions and lemmas: the bridge between the executable list model (Model/C17.lean)
  and Mathlib's `Matrix`, and the abstract expectation used for the sampling-moment theorems.
-/
import Model.C17
import Proofs.ListMinMax
import Mathlib.Data.Matrix.Mul
import Mathlib.Data.Matrix.Diagonal
import Mathlib.Algebra.BigOperators.Fin
import Mathlib.Algebra.Order.Field.Rat
import Mathlib.Tactic.Linarith
import Mathlib.Algebra.Module.LinearMap.Defs
import Mathlib.Algebra.BigOperators.Pi
import Mathlib.Data.Real.Basic
import Mathlib.Tactic.Ring

open Matrix

namespace C17

/-- the list matrix as a Mathlib matrix (entries outside the stored shape read as 0) -/
def toM (n m : ℕ) (a : Mat) : Matrix (Fin n) (Fin m) ℚ := fun i j => entry a i j

def vec (n : ℕ) (v : Vec) : Fin n → ℚ := fun i => v.getD i 0

theorem dot_eq_sum : ∀ (n : ℕ) (x y : Vec), x.length = n → y.length = n →
    dot x y = ∑ k : Fin n, x.getD k 0 * y.getD k 0
  | 0, [], [], _, _ => by simp [dot]
  | n + 1, x :: xs, y :: ys, hx, hy => by
    have hx' : xs.length = n := by simpa using hx
    have hy' : ys.length = n := by simpa using hy
    rw [dot, dot_eq_sum n xs ys hx' hy', Fin.sum_univ_succ]
    simp

theorem getD_zipWith_mul (r s : Vec) (j : ℕ) :
    (List.zipWith (fun x y => x * y) r s).getD j 0 = r.getD j 0 * s.getD j 0 := by
  induction r generalizing s j with
  | nil => simp
  | cons x xs ih =>
    cases s with
    | nil => simp
    | cons y ys =>
      cases j with
      | zero => simp
      | succ j => simpa using ih ys j

end C17

namespace C17

theorem isShape_iff (n m : ℕ) (a : Mat) :
    isShape n m a = true ↔ a.length = n ∧ ∀ r ∈ a, r.length = m := by
  simp [isShape]

theorem row_length {n m : ℕ} {a : Mat} (h : isShape n m a = true) {i : ℕ} (hi : i < n) :
    (a.getD i []).length = m := by
  obtain ⟨hl, hr⟩ := (isShape_iff n m a).1 h
  have hi' : i < a.length := by omega
  have : a.getD i [] = a[i] := by simp [List.getD_eq_getElem?_getD, hi']
  rw [this]
  exact hr _ (List.getElem_mem hi')

theorem entry_mulT (a b : Mat) (i j : ℕ) (hi : i < a.length) (hj : j < b.length) :
    entry (mulT a b) i j = dot (a.getD i []) (b.getD j []) := by
  simp [entry, mulT, List.getD_eq_getElem?_getD, hi, hj]

theorem toM_mulT {n m k : ℕ} {a b : Mat} (ha : isShape n k a = true) (hb : isShape m k b = true) :
    toM n m (mulT a b) = toM n k a * (toM m k b)ᵀ := by
  ext i j
  have hla := ((isShape_iff n k a).1 ha).1
  have hlb := ((isShape_iff m k b).1 hb).1
  rw [toM, entry_mulT a b i j (by omega) (by omega),
    dot_eq_sum k _ _ (row_length ha i.2) (row_length hb j.2)]
  simp [Matrix.mul_apply, toM, entry]

theorem entry_transpose (n : ℕ) (a : Mat) (i j : ℕ) (hi : i < n) :
    entry (transpose n a) i j = entry a j i := by
  simp only [entry, transpose, col, List.getD_eq_getElem?_getD, List.getElem?_map,
    List.getElem?_range hi, Option.map_some, Option.getD_some]
  cases h : a[j]? <;> simp

theorem toM_transpose (n m : ℕ) (a : Mat) : toM n m (transpose n a) = (toM m n a)ᵀ := by
  ext i j
  simp [toM, entry_transpose n a i j i.2]

theorem entry_scaleCols (u : Mat) (s : Vec) (i j : ℕ) :
    entry (scaleCols u s) i j = entry u i j * s.getD j 0 := by
  simp only [entry, scaleCols, List.getD_eq_getElem?_getD, List.getElem?_map]
  cases h : u[i]? with
  | none => simp
  | some r => simpa [List.getD_eq_getElem?_getD] using getD_zipWith_mul r s j

theorem toM_scaleCols (n m : ℕ) (u : Mat) (s : Vec) :
    toM n m (scaleCols u s) = toM n m u * diagonal (vec m s) := by
  ext i j
  simp [toM, entry_scaleCols, Matrix.mul_diagonal, vec]

end C17

namespace C17

theorem getD_zipWith_sub (r s : Vec) (j : ℕ) (h : r.length = s.length) :
    (List.zipWith (fun x y => x - y) r s).getD j 0 = r.getD j 0 - s.getD j 0 := by
  induction r generalizing s j with
  | nil =>
    cases s with
    | nil => simp
    | cons y ys => simp at h
  | cons x xs ih =>
    cases s with
    | nil => simp at h
    | cons y ys =>
      cases j with
      | zero => simp
      | succ j => simpa using ih ys j (by simpa using h)

theorem entry_sub {n m : ℕ} {a b : Mat} (ha : isShape n m a = true) (hb : isShape n m b = true)
    (i j : ℕ) (hi : i < n) : entry (sub a b) i j = entry a i j - entry b i j := by
  have hla := ((isShape_iff n m a).1 ha).1
  have hlb := ((isShape_iff n m b).1 hb).1
  have h1 : (sub a b).getD i [] = List.zipWith (fun x y => x - y) (a.getD i []) (b.getD i []) := by
    simp [sub, List.getD_eq_getElem?_getD, show i < a.length by omega,
      show i < b.length by omega]
  rw [entry, h1, getD_zipWith_sub _ _ _ (by rw [row_length ha hi, row_length hb hi])]
  rfl

theorem toM_sub {n m : ℕ} {a b : Mat} (ha : isShape n m a = true) (hb : isShape n m b = true) :
    toM n m (sub a b) = toM n m a - toM n m b := by
  ext i j
  simp [toM, entry_sub ha hb i j i.2]

theorem rabs_eq_abs (x : ℚ) : rabs x = |x| := by
  unfold rabs
  split
  · rw [abs_of_neg (by assumption)]
  · rw [abs_of_nonneg (by linarith)]

theorem rabs_le_maxAbs (a : Mat) (x : ℚ) (h : x ∈ a.flatten) : |x| ≤ maxAbs a := by
  rw [← rabs_eq_abs]
  exact Proofs.mem_le_foldl_max _ 0 _ (List.mem_map_of_mem h)

theorem maxAbs_nonneg (a : Mat) : 0 ≤ maxAbs a := Proofs.acc_le_foldl_max _ 0

theorem maxAbs_le (a : Mat) (t : ℚ) (ht : 0 ≤ t) (h : ∀ x ∈ a.flatten, |x| ≤ t) : maxAbs a ≤ t := by
  rcases Proofs.foldl_max_mem (a.flatten.map rabs) 0 with h0 | hm
  · unfold maxAbs; rw [h0]; exact ht
  · obtain ⟨x, hx, hxe⟩ := List.mem_map.1 hm
    unfold maxAbs; rw [← hxe, rabs_eq_abs]; exact h x hx

theorem entry_mem_flatten {a : Mat} {i j : ℕ} (hi : i < a.length) (hj : j < (a.getD i []).length) :
    entry a i j ∈ a.flatten := by
  have h1 : a.getD i [] = a[i] := by simp [List.getD_eq_getElem?_getD, hi]
  rw [h1] at hj
  have h2 : entry a i j = a[i][j] := by simp [entry, List.getD_eq_getElem?_getD, hi, hj]
  rw [h2]
  exact List.mem_flatten.2 ⟨a[i], List.getElem_mem hi, List.getElem_mem hj⟩

theorem mem_flatten_entry {a : Mat} {x : ℚ} (h : x ∈ a.flatten) :
    ∃ i j, i < a.length ∧ j < (a.getD i []).length ∧ x = entry a i j := by
  obtain ⟨r, hr, hx⟩ := List.mem_flatten.1 h
  obtain ⟨i, hi, rfl⟩ := List.getElem_of_mem hr
  obtain ⟨j, hj, rfl⟩ := List.getElem_of_mem hx
  refine ⟨i, j, hi, ?_, ?_⟩ <;> simp [entry, List.getD_eq_getElem?_getD, hi, hj]

end C17

namespace C17

theorem isShape_mulT {n m : ℕ} {a b : Mat} (ha : a.length = n) (hb : b.length = m) :
    isShape n m (mulT a b) = true := by
  simp [isShape_iff, mulT, ha, hb]

theorem isShape_transpose (n : ℕ) (a : Mat) : isShape n a.length (transpose n a) = true := by
  simp [isShape_iff, transpose, col]

theorem isShape_sub {n m : ℕ} {a b : Mat} (ha : isShape n m a = true) (hb : isShape n m b = true) :
    isShape n m (sub a b) = true := by
  obtain ⟨hla, hra⟩ := (isShape_iff n m a).1 ha
  obtain ⟨hlb, hrb⟩ := (isShape_iff n m b).1 hb
  refine (isShape_iff n m _).2 ⟨by simp [sub, hla, hlb], ?_⟩
  intro r hr
  obtain ⟨i, hi, rfl⟩ := List.getElem_of_mem hr
  have hi' : i < a.length ∧ i < b.length := by simpa [sub] using hi
  simp [sub, hra _ (List.getElem_mem hi'.1), hrb _ (List.getElem_mem hi'.2)]

theorem isShape_scaleCols {n m : ℕ} {u : Mat} {s : Vec} (hu : isShape n m u = true) (hs : s.length = m) :
    isShape n m (scaleCols u s) = true := by
  obtain ⟨hl, hr⟩ := (isShape_iff n m u).1 hu
  refine (isShape_iff n m _).2 ⟨by simp [scaleCols, hl], ?_⟩
  intro r hr'
  obtain ⟨r0, hr0, rfl⟩ := List.mem_map.1 hr'
  simp [hr _ hr0, hs]

/-- entries of an in-shape matrix are bounded by `maxAbs`, and `maxAbs` is the least such bound -/
theorem maxAbs_le_iff {n m : ℕ} {a : Mat} (ha : isShape n m a = true) (t : ℚ) (ht : 0 ≤ t) :
    maxAbs a ≤ t ↔ ∀ (i : Fin n) (j : Fin m), |toM n m a i j| ≤ t := by
  obtain ⟨hl, hr⟩ := (isShape_iff n m a).1 ha
  constructor
  · intro h i j
    refine le_trans (rabs_le_maxAbs a _ (entry_mem_flatten (i := i) (j := j) (by omega) ?_)) h
    rw [row_length ha i.2]; exact j.2
  · intro h
    refine maxAbs_le a t ht ?_
    intro x hx
    obtain ⟨i, j, hi, hj, rfl⟩ := mem_flatten_entry hx
    rw [row_length ha (by omega)] at hj
    exact h ⟨i, by omega⟩ ⟨j, hj⟩

/-- The number the driver reports, `residual l sigma`, bounds every entry of `L Lᵀ − Σ` computed with
    Mathlib's matrix product, and is attained as a bound (`≤ t` iff every entry is). -/
theorem residual_le_iff {n k : ℕ} {l sigma : Mat} (hl : isShape n k l = true)
    (hs : isShape n n sigma = true) (t : ℚ) (ht : 0 ≤ t) :
    residual l sigma ≤ t ↔
      ∀ i j : Fin n, |(toM n k l * (toM n k l)ᵀ - toM n n sigma) i j| ≤ t := by
  have hll : isShape n n (llt l) = true :=
    isShape_mulT ((isShape_iff n k l).1 hl).1 ((isShape_iff n k l).1 hl).1
  unfold residual
  rw [maxAbs_le_iff (isShape_sub hll hs) t ht, toM_sub hll hs, llt, toM_mulT hl hl]

theorem residual_eq_zero_iff {n k : ℕ} {l sigma : Mat} (hl : isShape n k l = true)
    (hs : isShape n n sigma = true) :
    residual l sigma = 0 ↔ toM n k l * (toM n k l)ᵀ = toM n n sigma := by
  have h0 : residual l sigma = 0 ↔ residual l sigma ≤ 0 :=
    ⟨fun h => h.le, fun h => le_antisymm h (maxAbs_nonneg _)⟩
  rw [h0, residual_le_iff hl hs 0 le_rfl]
  constructor
  · intro h
    ext i j
    have := h i j
    have h2 : (toM n k l * (toM n k l)ᵀ - toM n n sigma) i j = 0 := abs_nonpos_iff.1 this
    simpa [sub_eq_zero] using h2
  · intro h i j
    simp [h]

end C17

/-! ### Abstract expectation: what "mean" and "covariance" of `m + L z` mean in the theorems -/

namespace C17

section moments
variable {Ω ι κ γ : Type*} [Fintype κ] [Fintype γ]

/-- An expectation: any linear functional on real random variables that maps constants to themselves
    (a probability integral restricted to a space of integrable functions, a finite average, …). -/
structure Expectation (Ω : Type*) where
  Ex : (Ω → ℝ) →ₗ[ℝ] ℝ
  const : ∀ c : ℝ, Ex (fun _ => c) = c

def centered (P : Expectation Ω) (x : Ω → ℝ) : Ω → ℝ := fun ω => x ω - P.Ex x

def covar (P : Expectation Ω) (x y : Ω → ℝ) : ℝ := P.Ex (fun ω => centered P x ω * centered P y ω)

def meanVec (P : Expectation Ω) (X : ι → Ω → ℝ) : ι → ℝ := fun i => P.Ex (X i)

def covMat (P : Expectation Ω) (X : ι → Ω → ℝ) : Matrix ι ι ℝ := fun i j => covar P (X i) (X j)

/-- `mean + L z`: one posterior draw as a function of the latent standard-normal vector `z` -/
def affine (m : ι → ℝ) (L : Matrix ι κ ℝ) (z : κ → Ω → ℝ) : ι → Ω → ℝ :=
  fun i ω => m i + ∑ k, L i k * z k ω

/-- `Σ_g w_g (m_g + L_g z_g)`: one draw of `GaussianProcessSum.draw_posterior_samples_of_points` -/
def sumAffine (w : γ → ℝ) (m : γ → ι → ℝ) (L : γ → Matrix ι κ ℝ) (z : γ → κ → Ω → ℝ) : ι → Ω → ℝ :=
  fun i ω => ∑ g, w g * affine (m g) (L g) (z g) i ω

/-- the block row `[w₁ L₁ | w₂ L₂ | …]` -/
def blockFactor (w : γ → ℝ) (L : γ → Matrix ι κ ℝ) : Matrix ι (γ × κ) ℝ :=
  fun i p => w p.1 * L p.1 i p.2

/-- all latent variables of all components as one vector -/
def joint (z : γ → κ → Ω → ℝ) : γ × κ → Ω → ℝ := fun p => z p.1 p.2

theorem affine_eq (m : ι → ℝ) (L : Matrix ι κ ℝ) (z : κ → Ω → ℝ) (i : ι) :
    affine m L z i = (fun _ => m i) + ∑ k, L i k • z k := by
  funext ω
  simp [affine, Finset.sum_apply]

theorem Ex_affine (P : Expectation Ω) (m : ι → ℝ) (L : Matrix ι κ ℝ) (z : κ → Ω → ℝ) (i : ι) :
    P.Ex (affine m L z i) = m i + ∑ k, L i k * P.Ex (z k) := by
  rw [affine_eq, map_add, P.const, map_sum]
  simp

theorem centered_affine (P : Expectation Ω) (m : ι → ℝ) (L : Matrix ι κ ℝ) (z : κ → Ω → ℝ) (i : ι) :
    centered P (affine m L z i) = fun ω => ∑ k, L i k * centered P (z k) ω := by
  funext ω
  simp only [centered, Ex_affine, affine, mul_sub, Finset.sum_sub_distrib]
  ring

end moments
end C17

namespace C17
/-- oracles of the non-vacuity example in Properties/C17.lean: Cholesky fails, exact rational SVD of the
    rank-1 matrix [[9,12],[12,16]] (U = [[3/5,4/5],[4/5,−3/5]], E = (25, 0)), `sqrt` exact on E, QR with Q = 1. -/
def exampleOracles : Oracles :=
  { chol := fun _ => { factor := none, buffer := [] }
    svd := fun _ => ([[3/5, 4/5], [4/5, -3/5]], [25, 0])
    sqrt := fun x => if x = 25 then 5 else 0
    qrR := fun b => b }
end C17
