/- Helper lemmas about `foldl min/max` over `Rat` lists (shared by C12, C13, C16 …). -/
import Model.C12
import Mathlib.Algebra.Order.Field.Rat
import Mathlib.Tactic.Linarith

namespace Proofs

theorem foldl_min_le_acc (xs : List Rat) (a : Rat) : xs.foldl min a ≤ a := by
  induction xs generalizing a with
  | nil => simp
  | cons x xs ih => exact le_trans (ih _) (min_le_left _ _)

theorem foldl_min_le_mem (xs : List Rat) (a v : Rat) (h : v ∈ xs) : xs.foldl min a ≤ v := by
  induction xs generalizing a with
  | nil => cases h
  | cons x xs ih =>
    rcases List.mem_cons.mp h with rfl | h
    · exact le_trans (foldl_min_le_acc xs (min a v)) (min_le_right _ _)
    · exact ih _ h

theorem foldl_min_mem (xs : List Rat) (a : Rat) : xs.foldl min a = a ∨ xs.foldl min a ∈ xs := by
  induction xs generalizing a with
  | nil => simp
  | cons x xs ih =>
    rcases ih (min a x) with h | h
    · rcases min_choice a x with h' | h'
      · left; simpa [h'] using h
      · right; rw [List.foldl_cons, h, h']; exact List.mem_cons_self ..
    · right; exact List.mem_cons_of_mem _ h

theorem acc_le_foldl_max (xs : List Rat) (a : Rat) : a ≤ xs.foldl max a := by
  induction xs generalizing a with
  | nil => simp
  | cons x xs ih => exact le_trans (le_max_left _ _) (ih _)

theorem mem_le_foldl_max (xs : List Rat) (a v : Rat) (h : v ∈ xs) : v ≤ xs.foldl max a := by
  induction xs generalizing a with
  | nil => cases h
  | cons x xs ih =>
    rcases List.mem_cons.mp h with rfl | h
    · exact le_trans (le_max_right _ _) (acc_le_foldl_max xs (max a v))
    · exact ih _ h

theorem foldl_max_mem (xs : List Rat) (a : Rat) : xs.foldl max a = a ∨ xs.foldl max a ∈ xs := by
  induction xs generalizing a with
  | nil => simp
  | cons x xs ih =>
    rcases ih (max a x) with h | h
    · rcases max_choice a x with h' | h'
      · left; simpa [h'] using h
      · right; rw [List.foldl_cons, h, h']; exact List.mem_cons_self ..
    · right; exact List.mem_cons_of_mem _ h

open C12 in
theorem lmin_le (x : Rat) (xs : List Rat) (v : Rat) (h : v ∈ x :: xs) : lmin x xs ≤ v := by
  rcases List.mem_cons.mp h with rfl | h
  · exact foldl_min_le_acc _ _
  · exact foldl_min_le_mem _ _ _ h

open C12 in
theorem le_lmax (x : Rat) (xs : List Rat) (v : Rat) (h : v ∈ x :: xs) : v ≤ lmax x xs := by
  rcases List.mem_cons.mp h with rfl | h
  · exact acc_le_foldl_max _ _
  · exact mem_le_foldl_max _ _ _ h

open C12 in
theorem lmin_mem (x : Rat) (xs : List Rat) : lmin x xs ∈ x :: xs := by
  rcases foldl_min_mem xs x with h | h
  · simp [lmin, h]
  · exact List.mem_cons_of_mem _ h

open C12 in
theorem lmax_mem (x : Rat) (xs : List Rat) : lmax x xs ∈ x :: xs := by
  rcases foldl_max_mem xs x with h | h
  · simp [lmax, h]
  · exact List.mem_cons_of_mem _ h

open C12 in
theorem lmin_le_lmax (x : Rat) (xs : List Rat) : lmin x xs ≤ lmax x xs :=
  le_trans (lmin_le x xs x (List.mem_cons_self ..)) (le_lmax x xs x (List.mem_cons_self ..))

end Proofs
