/-
  Helper lemmas for C04, part 2: the list-level linear algebra of the model over ℝ
  (dot products, matrix–vector products, sums, products, means, powers) and its calculus:
  a finite sum / product / bilinear form of differentiable entries is differentiable entry-wise.
-/
import Model.C04
import Proofs.ArithReal
import Proofs.C03Lemmas
import Mathlib.Analysis.Calculus.Deriv.Basic
import Mathlib.Analysis.Calculus.Deriv.Add
import Mathlib.Analysis.Calculus.Deriv.Mul
import Mathlib.Analysis.Calculus.Deriv.Pow
import Mathlib.Data.List.Forall2
import Mathlib.Tactic.Ring
import Mathlib.Tactic.Linarith

namespace C04
open Kernels

/-! ### unfolding the `Arith ℝ` instance -/

@[simp] theorem half_real : (half : ℝ) = 1 / 2 := by simp [half]

@[simp] theorem dot_nil_left (b : List ℝ) : dot [] b = 0 := by simp [dot]
@[simp] theorem dot_nil_right (a : List ℝ) : dot a [] = 0 := by cases a <;> simp [dot]
@[simp] theorem dot_cons (a b : ℝ) (as bs : List ℝ) : dot (a :: as) (b :: bs) = a * b + dot as bs := by
  simp [dot]

theorem dot_comm (a b : List ℝ) : dot a b = dot b a := by
  induction a generalizing b with
  | nil => simp
  | cons x xs ih =>
    cases b with
    | nil => simp
    | cons y ys => simp [ih ys, mul_comm]

@[simp] theorem sum_nil : Arith.sum ([] : List ℝ) = 0 := by simp [Arith.sum]
@[simp] theorem sum_cons (a : ℝ) (as : List ℝ) : Arith.sum (a :: as) = a + Arith.sum as := by
  simp [Arith.sum]
@[simp] theorem prod_nil : Arith.prod ([] : List ℝ) = 1 := by simp [Arith.prod]
@[simp] theorem prod_cons (a : ℝ) (as : List ℝ) : Arith.prod (a :: as) = a * Arith.prod as := by
  simp [Arith.prod]

theorem prod_append (a b : List ℝ) : Arith.prod (a ++ b) = Arith.prod a * Arith.prod b := by
  induction a with
  | nil => simp
  | cons x xs ih => simp [ih, mul_assoc]

@[simp] theorem npow_real (a : ℝ) (n : Nat) : npow a n = a ^ n := by
  induction n with
  | zero => simp [npow]
  | succ n ih => simp [npow, ih, pow_succ, mul_comm]

@[simp] theorem matVec_nil (v : List ℝ) : matVec ([] : List (List ℝ)) v = [] := by simp [matVec]
@[simp] theorem matVec_cons (r : List ℝ) (B : List (List ℝ)) (v : List ℝ) :
    matVec (r :: B) v = dot r v :: matVec B v := by simp [matVec]

/-! ### calculus over lists.  `Forall₂ (fun f d => HasDerivAt f d t) fs dfs` = "entry i of fs has
    derivative entry i of dfs at t". -/

abbrev DerivList (fs : List (ℝ → ℝ)) (dfs : List ℝ) (t : ℝ) : Prop :=
  List.Forall₂ (fun f d => HasDerivAt f d t) fs dfs

/-- evaluation of a list of functions -/
def evalAt (fs : List (ℝ → ℝ)) (u : ℝ) : List ℝ := fs.map fun f => f u

@[simp] theorem evalAt_nil (u : ℝ) : evalAt [] u = [] := rfl
@[simp] theorem evalAt_cons (f : ℝ → ℝ) (fs : List (ℝ → ℝ)) (u : ℝ) : evalAt (f :: fs) u = f u :: evalAt fs u := rfl
@[simp] theorem evalAt_length (fs : List (ℝ → ℝ)) (u : ℝ) : (evalAt fs u).length = fs.length := by
  simp [evalAt]

/-- linear: weights constant -/
theorem dot_const_hasDerivAt {fs : List (ℝ → ℝ)} {dfs : List ℝ} {t : ℝ} (h : DerivList fs dfs t) (w : List ℝ) :
    HasDerivAt (fun u => dot (evalAt fs u) w) (dot dfs w) t := by
  induction h generalizing w with
  | nil => simpa using hasDerivAt_const t (0 : ℝ)
  | cons hfd _ ih =>
    cases w with
    | nil => simpa using hasDerivAt_const t (0 : ℝ)
    | cons c cs =>
      simp only [evalAt_cons, dot_cons]
      exact (hfd.mul_const c).add (ih cs)

/-- bilinear: both factors vary -/
theorem dot_hasDerivAt {fs gs : List (ℝ → ℝ)} {dfs dgs : List ℝ} {t : ℝ}
    (hf : DerivList fs dfs t) (hg : DerivList gs dgs t) :
    HasDerivAt (fun u => dot (evalAt fs u) (evalAt gs u))
      (dot dfs (evalAt gs t) + dot (evalAt fs t) dgs) t := by
  induction hf generalizing gs dgs with
  | nil => simpa using hasDerivAt_const t (0 : ℝ)
  | cons hfd _ ih =>
    cases hg with
    | nil => simpa using hasDerivAt_const t (0 : ℝ)
    | cons hge hrest =>
      simp only [evalAt_cons, dot_cons]
      have := (hfd.mul hge).add (ih hrest)
      refine this.congr_deriv ?_
      ring

/-- sums -/
theorem sum_hasDerivAt {fs : List (ℝ → ℝ)} {dfs : List ℝ} {t : ℝ} (h : DerivList fs dfs t) :
    HasDerivAt (fun u => Arith.sum (evalAt fs u)) (Arith.sum dfs) t := by
  induction h with
  | nil => simpa using hasDerivAt_const t (0 : ℝ)
  | cons hfd _ ih =>
    simp only [evalAt_cons, sum_cons]
    exact hfd.add ih

/-- `numpy.mean` -/
theorem mean_hasDerivAt {fs : List (ℝ → ℝ)} {dfs : List ℝ} {t : ℝ} (h : DerivList fs dfs t) :
    HasDerivAt (fun u => C16.mean (evalAt fs u)) (C16.mean dfs) t := by
  have hl : dfs.length = fs.length := h.length_eq.symm
  unfold C16.mean
  simp only [evalAt_length, hl]
  exact (sum_hasDerivAt h).div_const _

/-- rows of a constant matrix applied to a varying vector -/
theorem matVec_derivList {fs : List (ℝ → ℝ)} {dfs : List ℝ} {t : ℝ} (h : DerivList fs dfs t) (B : List (List ℝ)) :
    DerivList (B.map fun row => fun u => dot row (evalAt fs u)) (matVec B dfs) t := by
  induction B with
  | nil => simp [DerivList]
  | cons r B ih =>
    simp only [List.map_cons, matVec_cons]
    refine List.Forall₂.cons ?_ ih
    have := dot_const_hasDerivAt h r
    simpa [dot_comm] using this

theorem evalAt_matVec (fs : List (ℝ → ℝ)) (B : List (List ℝ)) (u : ℝ) :
    evalAt (B.map fun row => fun u => dot row (evalAt fs u)) u = matVec B (evalAt fs u) := by
  simp [evalAt, matVec]

/-- a quadratic form kᵀ B k with constant self-adjoint B -/
theorem quadForm_hasDerivAt {fs : List (ℝ → ℝ)} {dfs : List ℝ} {t : ℝ} (h : DerivList fs dfs t)
    (B : List (List ℝ)) (hB : ∀ u v : List ℝ, dot u (matVec B v) = dot v (matVec B u)) :
    HasDerivAt (fun u => dot (evalAt fs u) (matVec B (evalAt fs u)))
      (2 * dot dfs (matVec B (evalAt fs t))) t := by
  have := dot_hasDerivAt h (matVec_derivList h B)
  simp only [evalAt_matVec] at this
  refine this.congr_deriv ?_
  rw [hB (evalAt fs t) dfs]
  ring

/-- products (Leibniz), in the recursive form -/
theorem prod_hasDerivAt {fs : List (ℝ → ℝ)} {dfs : List ℝ} {t : ℝ} (h : DerivList fs dfs t) :
    HasDerivAt (fun u => Arith.prod (evalAt fs u)) (pfProductGrad ((evalAt fs t).zip dfs)) t := by
  have key : ∀ (pre : List ℝ) (l : List (ℝ × ℝ)),
      pfProductGradFrom pre l = Arith.prod pre * pfProductGradFrom [] l := by
    intro pre l
    induction l generalizing pre with
    | nil => simp [pfProductGradFrom]
    | cons pg rest ih =>
      obtain ⟨p, g⟩ := pg
      simp only [pfProductGradFrom, List.nil_append]
      rw [ih (pre ++ [p]), ih [p], prod_append, prod_append]
      simp
      ring
  unfold pfProductGrad
  induction h with
  | nil => simpa [pfProductGradFrom] using hasDerivAt_const t (1 : ℝ)
  | @cons f d fs' dfs' hfd hrest ih =>
    simp only [evalAt_cons, prod_cons, List.zip_cons_cons, pfProductGradFrom, List.nil_append]
    rw [key [f t]]
    have hfst : (List.map Prod.fst ((evalAt fs' t).zip dfs')) = evalAt fs' t := by
      apply List.map_fst_zip
      simp [hrest.length_eq]
    rw [hfst]
    have := hfd.mul ih
    refine this.congr_deriv ?_
    simp

/-- a function clamped from below has the same derivative where the clamp is inactive -/
theorem max_hasDerivAt_of_lt {f : ℝ → ℝ} {f' t m : ℝ} (hf : HasDerivAt f f' t) (hm : m < f t) :
    HasDerivAt (fun u => max m (f u)) f' t := by
  refine hf.congr_of_eventuallyEq ?_
  have : ∀ᶠ u in nhds t, m < f u := hf.continuousAt.eventually (lt_mem_nhds hm)
  filter_upwards [this] with u hu
  exact max_eq_right hu.le

theorem min_hasDerivAt_of_lt {f : ℝ → ℝ} {f' t m : ℝ} (hf : HasDerivAt f f' t) (hm : f t < m) :
    HasDerivAt (fun u => min (f u) m) f' t := by
  refine hf.congr_of_eventuallyEq ?_
  have : ∀ᶠ u in nhds t, f u < m := hf.continuousAt.eventually (gt_mem_nhds hm)
  filter_upwards [this] with u hu
  exact min_eq_left hu.le

theorem min_const_of_gt {f : ℝ → ℝ} {f' t m : ℝ} (hf : HasDerivAt f f' t) (hm : m < f t) :
    (fun u => min (f u) m) =ᶠ[nhds t] fun _ => m := by
  have : ∀ᶠ u in nhds t, m < f u := hf.continuousAt.eventually (lt_mem_nhds hm)
  filter_upwards [this] with u hu
  exact min_eq_right hu.le

/-! ### polynomial terms -/

@[simp] theorem polyTerm_nil_left (x : List ℝ) : polyTerm [] x = 1 := by simp [polyTerm]
@[simp] theorem polyTerm_nil_right (es : List Nat) : polyTerm es ([] : List ℝ) = 1 := by
  cases es <;> simp [polyTerm]
@[simp] theorem polyTerm_cons (e : Nat) (es : List Nat) (a : ℝ) (as : List ℝ) :
    polyTerm (e :: es) (a :: as) = a ^ e * polyTerm es as := by simp [polyTerm]

theorem polyTerm_hasDerivAt (es : List Nat) (x : List ℝ) (d : Nat) (t : ℝ) :
    HasDerivAt (fun u => polyTerm es (x.set d u)) (polyGradTerm es (x.set d t) d) t := by
  induction es generalizing x d with
  | nil => simpa [polyGradTerm] using hasDerivAt_const t (1 : ℝ)
  | cons e es ih =>
    cases x with
    | nil => simpa [polyGradTerm] using hasDerivAt_const t (1 : ℝ)
    | cons a as =>
      cases d with
      | zero =>
        simp only [List.set_cons_zero, polyTerm_cons, polyGradTerm]
        have := (hasDerivAt_pow e t).mul_const (polyTerm es as)
        refine this.congr_deriv ?_
        by_cases he : e = 0
        · simp [he]
        · simp [he]
      | succ d =>
        simp only [List.set_cons_succ, polyTerm_cons, polyGradTerm]
        have := (ih as d).const_mul (a ^ e)
        simpa using this

end C04
