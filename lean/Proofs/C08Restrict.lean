/- Helper lemmas for C08: the segment move of `restrict_points_using_constraints`. -/
import Proofs.C08Basic
import Proofs.ListMinMax
import Mathlib.Tactic.FieldSimp
import Mathlib.Tactic.Positivity

namespace C08
open Proofs

theorem validMult_iff (m : Rat) : validMult m = true ↔ 0 < m ∧ m < 1 := by simp [validMult]

/-- entries of the masked multiplier list lie in [0, 1) -/
theorem masked_range (m : Rat) : 0 ≤ (if validMult m then m else 0) ∧ (if validMult m then m else 0) < 1 := by
  by_cases h : validMult m = true
  · rw [if_pos h]; rw [validMult_iff] at h; exact ⟨le_of_lt h.1, h.2⟩
  · rw [if_neg h]; norm_num

theorem maxCorrection_nonneg (rows : List Row) (p v : Vec) : 0 ≤ maxCorrection rows p v :=
  acc_le_foldl_max _ _

theorem maxCorrection_lt_one (rows : List Row) (p v : Vec) : maxCorrection rows p v < 1 := by
  unfold maxCorrection
  rcases foldl_max_mem ((multipliers rows p v).map (fun m => if validMult m then m else 0)) 0 with h | h
  · rw [h]; norm_num
  · obtain ⟨m, _, hm⟩ := List.mem_map.mp h
    rw [← hm]; exact (masked_range m).2

theorem valid_le_maxCorrection (rows : List Row) (p v : Vec) (r : Row) (hr : r ∈ rows)
    (hv : validMult (multiplier r p v) = true) : multiplier r p v ≤ maxCorrection rows p v := by
  unfold maxCorrection
  apply mem_le_foldl_max
  apply List.mem_map.mpr
  refine ⟨multiplier r p v, ?_, by rw [if_pos hv]⟩
  exact List.mem_map.mpr ⟨r, hr, rfl⟩

theorem epsShift_range (mc u : Rat) (onC : Bool) (_h0 : 0 ≤ mc) (h1 : mc < 1) (hu0 : 0 ≤ u) (hu1 : u < 1) :
    0 ≤ epsShift mc onC u ∧ epsShift mc onC u ≤ 1 - mc := by
  unfold epsShift
  cases onC
  · simp only [Bool.false_eq_true, if_false]
    constructor
    · apply mul_nonneg <;> linarith
    · nlinarith
  · simp only [if_true]
    constructor <;> linarith

theorem blend_dot (e : Rat) (a p v : Vec) (h : p.length = v.length) :
    dot a (blend e p v) = e * dot a p + (1 - e) * dot a v := by
  unfold blend
  exact dot_zipWith _ e (1 - e) (by intro x y; ring) a p v h

theorem blend_length (e : Rat) (p v : Vec) (h : p.length = v.length) : (blend e p v).length = p.length := by
  simp [blend, h]

theorem blend_inBox (bx : Box) (e : Rat) (p v : Vec) (he0 : 0 ≤ e) (he1 : e ≤ 1)
    (hp : inBox bx p = true) (hv : inBox bx v = true) : inBox bx (blend e p v) = true := by
  unfold blend
  exact inBox_zipWith _ e he0 he1 (by intro x y; ring) bx p v hp hv

/-- A violated row has a valid multiplier when the viable point is strictly inside that row, and the
    multiplier is the exact crossing parameter. -/
theorem violated_valid (r : Row) (p v : Vec) (hv : dot r.a v < r.b) (hp : r.b < dot r.a p) :
    validMult (multiplier r p v) = true ∧
      multiplier r p v * (dot r.a v - dot r.a p) = r.b - dot r.a p := by
  have hd : dot r.a v - dot r.a p < 0 := by linarith
  have hd0 : dot r.a v - dot r.a p ≠ 0 := ne_of_lt hd
  have hm : multiplier r p v = (r.b - dot r.a p) / (dot r.a v - dot r.a p) := by
    simp only [multiplier]; rw [if_neg hd0]
  refine ⟨?_, ?_⟩
  · rw [validMult_iff, hm]
    constructor
    · apply div_pos_of_neg_of_neg <;> linarith
    · rw [div_lt_one_of_neg hd]; linarith
  · rw [hm]; field_simp

/-- A row that the (feasible) viable point satisfies never yields a valid multiplier for a point that
    satisfies it too: such points are not "in need of correction". -/
theorem satisfied_not_valid (r : Row) (p v : Vec) (hv : dot r.a v ≤ r.b) (hp : dot r.a p ≤ r.b) :
    validMult (multiplier r p v) = false := by
  by_contra hc
  rw [Bool.not_eq_false, validMult_iff] at hc
  obtain ⟨h0, h1⟩ := hc
  simp only [multiplier] at h0 h1
  by_cases hd : dot r.a v - dot r.a p = 0
  · rw [if_pos hd] at h0; exact lt_irrefl _ h0
  · rw [if_neg hd] at h0 h1
    rcases lt_or_gt_of_ne hd with hneg | hpos
    · -- d < 0, s ≥ 0 : quotient ≤ 0
      have : (r.b - dot r.a p) / (dot r.a v - dot r.a p) ≤ 0 :=
        div_nonpos_of_nonneg_of_nonpos (by linarith) (le_of_lt hneg)
      linarith
    · -- d > 0 : s / d < 1 → s < d → b < a·v
      rw [div_lt_one hpos] at h1
      linarith

/-- The value of a row after the move, for ANY step `eps ∈ [0, 1 - mc]`, when the viable point is strictly
    inside the row and every valid multiplier of that row is ≤ mc. -/
theorem row_after_move (r : Row) (p v : Vec) (mc e : Rat) (hv : dot r.a v < r.b)
    (hmc0 : 0 ≤ mc) (he0 : 0 ≤ e) (he1 : e ≤ 1 - mc)
    (hle : validMult (multiplier r p v) = true → multiplier r p v ≤ mc) :
    e * dot r.a p + (1 - e) * dot r.a v ≤ r.b := by
  by_cases hp : dot r.a p ≤ r.b
  · nlinarith
  · rw [not_le] at hp
    obtain ⟨hval, hcross⟩ := violated_valid r p v hv hp
    have hm := hle hval
    have hd : dot r.a v - dot r.a p < 0 := by linarith
    -- t = 1 - e ≥ mc ≥ m, so (t - m) * d ≤ 0
    have : ((1 - e) - multiplier r p v) * (dot r.a v - dot r.a p) ≤ 0 :=
      mul_nonpos_of_nonneg_of_nonpos (by linarith) (le_of_lt hd)
    nlinarith

theorem needsCorrection_false_of_feasible (rows : List Row) (p v : Vec)
    (hv : satAll rows v = true) (hp : satAll rows p = true) : needsCorrection rows p v = false := by
  rw [satAll_iff] at hv hp
  unfold needsCorrection multipliers
  rw [List.any_eq_false]
  intro m hm
  obtain ⟨r, hr, rfl⟩ := List.mem_map.mp hm
  rw [satisfied_not_valid r p v (hv r hr) (hp r hr)]; simp

/-- when no correction is needed and the viable point is strictly feasible, the point satisfies every row -/
theorem feasible_of_not_needsCorrection (rows : List Row) (p v : Vec)
    (hv : strictAll rows v = true) (hn : needsCorrection rows p v = false) : satAll rows p = true := by
  rw [strictAll_iff] at hv
  rw [satAll_iff]
  intro r hr
  by_contra hc
  rw [not_le] at hc
  have := (violated_valid r p v (hv r hr) hc).1
  unfold needsCorrection multipliers at hn
  rw [List.any_eq_false] at hn
  exact hn _ (List.mem_map.mpr ⟨r, hr, rfl⟩) this

/-! ### the viable-point rule -/

theorem rabs_eq_abs (x : Rat) : rabs x = |x| := by
  unfold rabs
  split_ifs with h
  · rw [abs_of_neg h]
  · rw [abs_of_nonneg (not_lt.mp h)]

theorem pushToward_dot (a v c : Vec) (h : v.length = c.length) :
    dot a (pushToward v c) = (1 - pushFraction) * dot a v + pushFraction * dot a c := by
  unfold pushToward
  exact dot_zipWith _ (1 - pushFraction) pushFraction (by intro x y; ring) a v c h

theorem pushToward_length (v c : Vec) (h : v.length = c.length) : (pushToward v c).length = v.length := by
  simp [pushToward, h]

theorem safetyMargin_nonneg : 0 ≤ safetyMargin := by norm_num [safetyMargin]

theorem viablePoint_length (bx : Box) (rows : List Row) (cheby : Vec) (viable : Option Vec)
    (hc : cheby.length = bx.length) : (viablePoint bx rows cheby viable).length = bx.length := by
  unfold viablePoint viableMode
  cases viable with
  | none => simpa [viableOf] using hc
  | some v =>
    dsimp only
    by_cases ha : acceptable bx rows v = true
    · have hl : v.length = bx.length := by
        unfold acceptable at ha; rw [Bool.and_eq_true] at ha; exact inBox_length _ _ ha.1
      rw [ha]
      simp only [Bool.not_true, Bool.false_eq_true, if_false]
      split_ifs
      · simp only [viableOf]; rw [pushToward_length v cheby (by rw [hl, hc])]; exact hl
      · simpa [viableOf] using hl
    · rw [Bool.not_eq_true] at ha; rw [ha]; simpa [viableOf] using hc

/-- With a strictly feasible Chebyshev centre, whatever viable point the caller supplies, the point the
    restriction actually moves toward is strictly inside every half-space (bounds included). -/
theorem viablePoint_strict (bx : Box) (rows : List Row) (cheby : Vec) (viable : Option Vec)
    (hlen : cheby.length = bx.length) (hc : strictAll rows cheby = true) :
    strictAll rows (viablePoint bx rows cheby viable) = true := by
  unfold viablePoint viableMode
  cases viable with
  | none => simpa [viableOf] using hc
  | some v =>
    dsimp only
    by_cases ha : acceptable bx rows v = true
    · rw [ha]
      simp only [Bool.not_true, Bool.false_eq_true, if_false]
      unfold acceptable at ha; rw [Bool.and_eq_true] at ha
      have hl : v.length = cheby.length := by rw [inBox_length _ _ ha.1, hlen]
      have hs := (satAll_iff rows v).mp ha.2
      have hcs := (strictAll_iff rows cheby).mp hc
      split_ifs with hb
      · simp only [viableOf]
        rw [strictAll_iff]
        intro r hr
        rw [pushToward_dot _ _ _ hl]
        have h1 := hs r hr
        have h2 := hcs r hr
        have : (0 : Rat) < pushFraction := by norm_num [pushFraction]
        have : pushFraction < 1 := by norm_num [pushFraction]
        nlinarith
      · simp only [viableOf]
        rw [strictAll_iff]
        intro r hr
        have h1 := hs r hr
        rcases lt_or_eq_of_le h1 with h | h
        · exact h
        · exfalso
          apply hb
          unfold onBoundary
          rw [List.any_eq_true]
          refine ⟨r, hr, ?_⟩
          rw [h]; simp [rabs]
    · rw [Bool.not_eq_true] at ha; rw [ha]; simpa [viableOf] using hc

end C08
