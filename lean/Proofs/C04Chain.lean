/-
  Helper lemmas for C04, part 3: the chain-rule layers (core components, EI, AEI penalty, logistic and
  CDF success probabilities, cost scaling, Parzen ratio, log-likelihood pieces) over ℝ.
  Φ (the normal CDF) is an arbitrary function; every lemma lists exactly the derivative fact it uses.
-/
import Model.C04
import Proofs.ArithReal
import Proofs.C04Lists
import Proofs.C16Real
import Mathlib.Analysis.Calculus.Deriv.Basic
import Mathlib.Analysis.Calculus.Deriv.Add
import Mathlib.Analysis.Calculus.Deriv.Mul
import Mathlib.Analysis.Calculus.Deriv.Inv
import Mathlib.Analysis.Calculus.Deriv.Comp
import Mathlib.Analysis.Calculus.Deriv.Pow
import Mathlib.Analysis.SpecialFunctions.ExpDeriv
import Mathlib.Analysis.SpecialFunctions.Sqrt
import Mathlib.Analysis.SpecialFunctions.Log.Deriv
import Mathlib.Tactic.Ring
import Mathlib.Tactic.Linarith
import Mathlib.Tactic.FieldSimp
import Mathlib.Tactic.Positivity

namespace C04
open Kernels

/-! ### unfolding -/

theorem pdf_real (C z : ℝ) : pdf C z = Real.exp (-(z * z / 2)) / C := by simp [pdf]
theorem zScore_real (b m s : ℝ) : zScore b m s = (b - m) / s := rfl
theorem gradSqrtVar_real (gv s : ℝ) : gradSqrtVar gv s = 1 / 2 * gv / s := by simp [gradSqrtVar]
theorem ei_real (s z c p : ℝ) : ei s z c p = s * max 0 (z * c + p) := rfl
theorem eiGrad_real (gs gm c p : ℝ) : eiGrad gs gm c p = gs * p - gm * c := rfl
theorem exponentCap_real : (exponentCap : ℝ) = 40 := by
  simp [exponentCap, C16.ofRatNonneg, exponentCapQ]
theorem minKrigingVar_pos : (0 : ℝ) < minKrigingVar := by
  simp [minKrigingVar, C16.ofRatNonneg, minKrigingVarQ]
theorem lowerFloor_pos : (0 : ℝ) < lowerFloor := by
  simp [lowerFloor, C16.ofRatNonneg, lowerFloorQ]

/-! ### core components -/

/-- `sqrt_var` and `grad_sqrt_var = 0.5 * grad_var / sqrt_var` -/
theorem sqrtVar_hasDerivAt {v : ℝ → ℝ} {v' t : ℝ} (hv : HasDerivAt v v' t) (hpos : 0 < v t) :
    HasDerivAt (fun u => Real.sqrt (v u)) (gradSqrtVar v' (Real.sqrt (v t))) t := by
  have := hv.sqrt hpos.ne'
  refine this.congr_deriv ?_
  rw [gradSqrtVar_real]
  have : Real.sqrt (v t) ≠ 0 := (Real.sqrt_pos.mpr hpos).ne'
  field_simp

/-- `d/dz pdf(z) = −z pdf(z)`, whatever the normalising constant -/
theorem pdf_hasDerivAt (C z : ℝ) : HasDerivAt (pdf C) (-z * pdf C z) z := by
  have h1 : HasDerivAt (fun z : ℝ => -(z * z / 2)) (-((1 * z + z * 1) / 2)) z :=
    (((hasDerivAt_id z).mul (hasDerivAt_id z)).div_const 2).neg
  have := (h1.exp).div_const C
  have hfun : (fun z : ℝ => Real.exp (-(z * z / 2)) / C) = pdf C := by funext z; rw [pdf_real]
  rw [hfun] at this
  refine this.congr_deriv ?_
  rw [pdf_real]
  ring

/-- `z = (b − mean)/sqrt_var` along a coordinate -/
theorem zScore_hasDerivAt {m s : ℝ → ℝ} {m' s' t : ℝ} (b : ℝ) (hm : HasDerivAt m m' t)
    (hs : HasDerivAt s s' t) (hs0 : s t ≠ 0) :
    HasDerivAt (fun u => zScore b (m u) (s u)) (-(m' + zScore b (m t) (s t) * s') / s t) t := by
  have := ((hasDerivAt_const t b).fun_sub hm).fun_div hs hs0
  refine this.congr_deriv ?_
  rw [zScore_real]
  field_simp
  ring

/-- **EI**: `σ·max(0, zΦ(z) + φ(z))` has derivative `σ'φ(z) − μ'Φ(z)`, given Φ' = φ at z and
    positivity of `zΦ + φ` (always true for the Gaussian). -/
theorem ei_hasDerivAt_aux (Φ : ℝ → ℝ) (C b : ℝ) {m s : ℝ → ℝ} {m' s' t : ℝ}
    (hm : HasDerivAt m m' t) (hs : HasDerivAt s s' t) (hs0 : s t ≠ 0)
    (hΦ : HasDerivAt Φ (pdf C (zScore b (m t) (s t))) (zScore b (m t) (s t)))
    (hpos : 0 < zScore b (m t) (s t) * Φ (zScore b (m t) (s t)) + pdf C (zScore b (m t) (s t))) :
    HasDerivAt (fun u => ei (s u) (zScore b (m u) (s u)) (Φ (zScore b (m u) (s u))) (pdf C (zScore b (m u) (s u))))
      (eiGrad s' m' (Φ (zScore b (m t) (s t))) (pdf C (zScore b (m t) (s t)))) t := by
  set z0 := zScore b (m t) (s t) with hz0
  have hz := zScore_hasDerivAt b hm hs hs0
  rw [← hz0] at hz
  have hΦz : HasDerivAt (fun u => Φ (zScore b (m u) (s u))) (pdf C z0 * (-(m' + z0 * s') / s t)) t :=
    hΦ.comp t hz
  have hpz : HasDerivAt (fun u => pdf C (zScore b (m u) (s u))) (-z0 * pdf C z0 * (-(m' + z0 * s') / s t)) t := by
    have := (pdf_hasDerivAt C z0).comp t hz
    exact this
  have hw := (hz.fun_mul hΦz).fun_add hpz
  have hmax := max_hasDerivAt_of_lt (m := 0) hw (by rw [← hz0]; exact hpos)
  have := hs.fun_mul hmax
  simp only [ei_real]
  refine this.congr_deriv ?_
  rw [eiGrad_real, ← hz0, max_eq_right hpos.le]
  field_simp
  ring

/-- **AEI penalty** `1 − sqrt(τ/(v+τ))`, τ ≥ 0, v > 0 -/
theorem aeiPenalty_hasDerivAt {v : ℝ → ℝ} {v' t : ℝ} (tau : ℝ) (htau : 0 ≤ tau)
    (hv : HasDerivAt v v' t) (hpos : 0 < v t) :
    HasDerivAt (fun u => aeiPenalty (v u) tau) (aeiPenaltyGrad (v t) tau v') t := by
  have hadj : 0 < v t + tau := by linarith
  simp only [aeiPenalty, aeiPenaltyGrad, Arith.real_sqrt, half_real]
  rcases htau.lt_or_eq with hp | h0
  · have hq : HasDerivAt (fun u => tau / (v u + tau)) ((0 * (v t + tau) - tau * v') / (v t + tau) ^ 2) t :=
      (hasDerivAt_const t tau).div (hv.add_const tau) hadj.ne'
    have hqpos : 0 < tau / (v t + tau) := div_pos hp hadj
    have h1 := (hq.sqrt hqpos.ne').const_sub 1
    refine h1.congr_deriv ?_
    set Q := Real.sqrt (tau / (v t + tau)) with hQ
    have hQpos : 0 < Q := Real.sqrt_pos.mpr hqpos
    have hQQ : Q * Q = tau / (v t + tau) := Real.mul_self_sqrt hqpos.le
    have htauQ : tau = Q * Q * (v t + tau) := by rw [hQQ]; field_simp
    have hne : v t + tau ≠ 0 := hadj.ne'
    have hQne : Q ≠ 0 := hQpos.ne'
    rw [show (0 * (v t + tau) - tau * v') = -(Q * Q * (v t + tau)) * v' by rw [← htauQ]; ring]
    field_simp
  · subst h0
    have hfun : (fun u => (1 : ℝ) - Real.sqrt (0 / (v u + 0))) = fun _ => (1 : ℝ) := by
      funext u; simp
    simp only [hfun]
    have := hasDerivAt_const t (1 : ℝ)
    refine this.congr_deriv ?_
    simp

/-- product rule of `ExpectedImprovementWithPenalty` -/
theorem penalized_hasDerivAt {e p : ℝ → ℝ} {e' p' t : ℝ} (he : HasDerivAt e e' t) (hp : HasDerivAt p p' t) :
    HasDerivAt (fun u => penalized (e u) (p u)) (penalizedGrad (e t) e' (p t) p') t := by
  have := he.mul hp
  exact this

/-! ### probabilistic failures -/

theorem pfExponential_real (k thr m : ℝ) : pfExponential k thr m = Real.exp (min (k * (m - thr)) 40) := by
  have : pfExponential k thr m = Real.exp (min (k * (m - thr)) exponentCap) := rfl
  rw [this, exponentCap_real]

/-- logistic model below the cap -/
theorem pfLogistic_hasDerivAt_below {m : ℝ → ℝ} {m' t : ℝ} (k thr : ℝ) (hm : HasDerivAt m m' t)
    (hcap : k * (m t - thr) < 40) :
    HasDerivAt (fun u => pfLogistic k thr (m u)) (pfLogisticGrad k thr (m t) m') t := by
  have harg : HasDerivAt (fun u => k * (m u - thr)) (k * m') t := (hm.sub_const thr).const_mul k
  have hmin := min_hasDerivAt_of_lt harg hcap
  have hE := hmin.exp
  have hden : HasDerivAt (fun u => 1 + Real.exp (min (k * (m u - thr)) 40))
      (Real.exp (min (k * (m t - thr)) 40) * (k * m')) t := hE.const_add 1
  have hpos : (1 + Real.exp (min (k * (m t - thr)) 40)) ≠ 0 := by positivity
  have := (hasDerivAt_const t (1 : ℝ)).div hden hpos
  simp only [pfLogistic, pfLogisticGrad, pfExponential_real]
  refine this.congr_deriv ?_
  field_simp
  ring

/-- logistic model beyond the cap: the VALUE is locally constant -/
theorem pfLogistic_hasDerivAt_above {m : ℝ → ℝ} {m' t : ℝ} (k thr : ℝ) (hm : HasDerivAt m m' t)
    (hcap : 40 < k * (m t - thr)) :
    HasDerivAt (fun u => pfLogistic k thr (m u)) 0 t := by
  have harg : HasDerivAt (fun u => k * (m u - thr)) (k * m') t := (hm.sub_const thr).const_mul k
  have hev := min_const_of_gt harg hcap
  have hconst := hasDerivAt_const t (1 / (1 + Real.exp (40 : ℝ)))
  refine hconst.congr_of_eventuallyEq ?_
  filter_upwards [hev] with u hu
  simp only [pfLogistic, pfExponential_real]
  rw [hu]

/-- … while the implemented gradient there is `−κ e⁴⁰/(1+e⁴⁰)² μ'`, at most `|κ μ'| e⁻⁴⁰` in size -/
theorem pfLogisticGrad_above_bound (k thr m m' : ℝ) (hcap : 40 < k * (m - thr)) :
    pfLogisticGrad k thr m m' = -k * Real.exp 40 / ((1 + Real.exp 40) * (1 + Real.exp 40)) * m' ∧
    |pfLogisticGrad k thr m m'| ≤ |k * m'| * Real.exp (-40) := by
  have hmin : min (k * (m - thr)) 40 = 40 := min_eq_right hcap.le
  have heq : pfLogisticGrad k thr m m' = -k * Real.exp 40 / ((1 + Real.exp 40) * (1 + Real.exp 40)) * m' := by
    simp only [pfLogisticGrad, pfExponential_real, hmin]
  refine ⟨heq, ?_⟩
  rw [heq]
  have hE : 0 < Real.exp (40 : ℝ) := Real.exp_pos _
  have hfrac : Real.exp 40 / ((1 + Real.exp 40) * (1 + Real.exp 40)) ≤ Real.exp (-40) := by
    rw [Real.exp_neg, div_le_iff₀ (by positivity)]
    rw [inv_mul_eq_div, le_div_iff₀ hE]
    nlinarith
  have hfrac0 : 0 ≤ Real.exp 40 / ((1 + Real.exp 40) * (1 + Real.exp 40)) := by positivity
  have : -k * Real.exp 40 / ((1 + Real.exp 40) * (1 + Real.exp 40)) * m'
      = -(k * m') * (Real.exp 40 / ((1 + Real.exp 40) * (1 + Real.exp 40))) := by ring
  rw [this, abs_mul, abs_neg, abs_of_nonneg hfrac0]
  exact mul_le_mul_of_nonneg_left hfrac (abs_nonneg _)

/-- CDF model: `Φ((τ − μ)/σ)` -/
theorem pfCdf_hasDerivAt (Φ : ℝ → ℝ) (C thr : ℝ) {m s : ℝ → ℝ} {m' s' t : ℝ}
    (hm : HasDerivAt m m' t) (hs : HasDerivAt s s' t) (hs0 : s t ≠ 0)
    (hΦ : HasDerivAt Φ (pdf C (zScore thr (m t) (s t))) (zScore thr (m t) (s t))) :
    HasDerivAt (fun u => Φ (zScore thr (m u) (s u)))
      (pfCdfGrad (pdf C (zScore thr (m t) (s t))) (s t) m' (zScore thr (m t) (s t)) s') t := by
  have hz := zScore_hasDerivAt thr hm hs hs0
  have := hΦ.comp t hz
  refine this.congr_deriv ?_
  simp only [pfCdfGrad]
  field_simp

/-! ### cost scaling -/

theorem costScaled_hasDerivAt {f : ℝ → ℝ} {f' t : ℝ} (c : ℝ) (hf : HasDerivAt f f' t) :
    HasDerivAt (fun u => costScaled (f u) c) (costScaledGrad f' c) t := hf.div_const c

theorem costScaled_last_hasDerivAt {f : ℝ → ℝ} {f' t : ℝ} (hf : HasDerivAt f f' t) (ht : t ≠ 0) :
    HasDerivAt (fun u => costScaled (f u) u) (costScaledGradLast (f t) f' t) t := by
  have := hf.div (hasDerivAt_id t) ht
  refine this.congr_deriv ?_
  simp only [costScaledGradLast, id]
  field_simp

/-! ### Parzen ratio -/

theorem parzenRatio_hasDerivAt {l g : ℝ → ℝ} {l' g' t : ℝ} (γ : ℝ) (hl : HasDerivAt l l' t)
    (hg : HasDerivAt g g' t) (hl0 : l t ≠ 0) (hden : γ + g t / l t * (1 - γ) ≠ 0) :
    HasDerivAt (fun u => C16.ratio γ (l u) (g u)) (parzenGrad γ (l t) (g t) l' g') t := by
  have hq := hg.div hl hl0
  have hd : HasDerivAt (fun u => γ + g u / l u * (1 - γ)) ((g' * l t - g t * l') / l t ^ 2 * (1 - γ)) t :=
    (hq.mul_const (1 - γ)).const_add γ
  have := (hasDerivAt_const t (1 : ℝ)).div hd hden
  simp only [C16.ratio_real, parzenGrad]
  refine this.congr_deriv ?_
  field_simp
  ring

/-- what the floor added to the lower-density gradient did to the ratio gradient -/
theorem parzenGrad_floor_defect (γ l g lg gg fl : ℝ) :
    parzenGrad γ l g (lg + fl) gg - parzenGrad γ l g lg gg
      = C16.ratio γ l g * C16.ratio γ l g * (1 - γ) * g * fl / (l * l) := by
  simp only [parzenGrad]
  ring

/-! ### log-likelihood -/

theorem logDomain_hasDerivAt {L : ℝ → ℝ} {L' a : ℝ} (hL : HasDerivAt L L' (Real.exp a)) :
    HasDerivAt (fun a => L (Real.exp a)) (L' * Real.exp a) a := hL.comp a (Real.hasDerivAt_exp a)

/-- one observation (1 × 1 kernel matrix): value `−s(y·y/K + 2 log sqrt K)`, gradient
    `−s(−a·K'·a + K⁻¹K')` with `a = y/K` -/
theorem loglik_one_hasDerivAt {K : ℝ → ℝ} {K' θ : ℝ} (s y : ℝ) (hK : HasDerivAt K K' θ) (hpos : 0 < K θ) :
    HasDerivAt (fun u => loglik s [y] [y / K u] [Real.sqrt (K u)])
      ((loglikGrad s [y / K θ] [[1 / K θ]] [[[K']]] [1]).getD 0 0) θ := by
  have hy : HasDerivAt (fun u => y / K u) ((0 * K θ - y * K') / K θ ^ 2) θ :=
    (hasDerivAt_const θ y).div hK hpos.ne'
  have hlog : HasDerivAt (fun u => Real.log (Real.sqrt (K u))) ((K' / (2 * Real.sqrt (K θ))) / Real.sqrt (K θ)) θ :=
    (hK.sqrt hpos.ne').log (Real.sqrt_pos.mpr hpos).ne'
  have h1 := ((hy.const_mul y).fun_add (hlog.const_mul 2)).const_mul (-s)
  have hfun : (fun u => loglik s [y] [y / K u] [Real.sqrt (K u)])
      = fun u => -s * (y * (y / K u) + 2 * Real.log (Real.sqrt (K u))) := by
    funext u
    simp [loglik, two_real]
  rw [hfun]
  refine h1.congr_deriv ?_
  have hsq : Real.sqrt (K θ) * Real.sqrt (K θ) = K θ := Real.mul_self_sqrt hpos.le
  have hsne : Real.sqrt (K θ) ≠ 0 := (Real.sqrt_pos.mpr hpos).ne'
  have hR : (loglikGrad s [y / K θ] [[1 / K θ]] [[[K']]] [1]).getD 0 0
      = -s * (-(y / K θ * (K' * (y / K θ))) + 1 / K θ * K') * 1 := by
    simp [loglikGrad, loglikGradEntry, traceMul, column, matVec]
  have : K' / (2 * Real.sqrt (K θ)) / Real.sqrt (K θ) = K' / (2 * K θ) := by
    rw [div_div, mul_assoc, hsq]
  rw [hR, this]
  have hne : K θ ≠ 0 := hpos.ne'
  field_simp
  ring

end C04
