/- Helper lemmas for C08: dot products, boxes, bound rows, clip. -/
import Model.C08
import Mathlib.Algebra.Order.Field.Rat
import Mathlib.Tactic.Linarith
import Mathlib.Tactic.Ring

namespace C08

/-! ### dot -/

@[simp] theorem dot_nil_left (x : Vec) : dot [] x = 0 := by cases x <;> rfl
@[simp] theorem dot_nil_right (a : Vec) : dot a [] = 0 := by cases a <;> rfl
@[simp] theorem dot_cons (a x : Rat) (as xs : Vec) : dot (a :: as) (x :: xs) = a * x + dot as xs := rfl

theorem dot_comm (a x : Vec) : dot a x = dot x a := by
  induction a generalizing x with
  | nil => simp
  | cons a as ih => cases x with
    | nil => simp
    | cons x xs => simp [ih, mul_comm]

/-- `dot` is linear along any coordinate-wise affine combination of two equally long vectors. -/
theorem dot_zipWith (f : Rat → Rat → Rat) (α β : Rat) (hf : ∀ x y, f x y = α * x + β * y)
    (a p v : Vec) (h : p.length = v.length) :
    dot a (List.zipWith f p v) = α * dot a p + β * dot a v := by
  induction p generalizing a v with
  | nil => cases v with
    | nil => simp
    | cons _ _ => simp at h
  | cons p ps ih => cases v with
    | nil => simp at h
    | cons v vs =>
      cases a with
      | nil => simp
      | cons a as =>
        simp only [List.zipWith_cons_cons, dot_cons]
        rw [ih as vs (by simpa using h), hf]; ring

@[simp] theorem dot_zeros_left (n : Nat) (x : Vec) : dot (zeros n) x = 0 := by
  induction n generalizing x with
  | zero => simp [zeros]
  | succ n ih => cases x with
    | nil => simp
    | cons x xs => simp [zeros, ih]

theorem dot_map_neg (w x : Vec) : dot (w.map (fun t => -t)) x = - dot w x := by
  induction w generalizing x with
  | nil => simp
  | cons w ws ih => cases x with
    | nil => simp
    | cons x xs => simp [ih]; ring

theorem nsq_nonneg (a : Vec) : 0 ≤ nsq a := by
  unfold nsq
  induction a with
  | nil => simp
  | cons a as ih => simp only [dot_cons]; nlinarith [mul_self_nonneg a]

/-! ### sat / satAll as propositions -/

theorem sat_iff (r : Row) (x : Vec) : sat r x = true ↔ dot r.a x ≤ r.b := by simp [sat]
theorem strictSat_iff (r : Row) (x : Vec) : strictSat r x = true ↔ dot r.a x < r.b := by simp [strictSat]
theorem satAll_iff (rows : List Row) (x : Vec) : satAll rows x = true ↔ ∀ r ∈ rows, dot r.a x ≤ r.b := by
  simp [satAll, sat]
theorem strictAll_iff (rows : List Row) (x : Vec) : strictAll rows x = true ↔ ∀ r ∈ rows, dot r.a x < r.b := by
  simp [strictAll, strictSat]

theorem strictAll_satAll (rows : List Row) (x : Vec) (h : strictAll rows x = true) : satAll rows x = true := by
  rw [strictAll_iff] at h; rw [satAll_iff]; intro r hr; exact le_of_lt (h r hr)

theorem satAll_append (r1 r2 : List Row) (x : Vec) : satAll (r1 ++ r2) x = (satAll r1 x && satAll r2 x) := by
  simp [satAll]
theorem strictAll_append (r1 r2 : List Row) (x : Vec) :
    strictAll (r1 ++ r2) x = (strictAll r1 x && strictAll r2 x) := by
  simp [strictAll]

theorem sat_conRow (c : Con) (x : Vec) : sat (conRow c) x = true ↔ c.rhs ≤ dot c.w x := by
  simp only [sat, conRow, dot_map_neg, decide_eq_true_eq]; constructor <;> intro h <;> linarith

/-! ### boxes -/

theorem inBox_length : ∀ (bx : Box) (x : Vec), inBox bx x = true → x.length = bx.length
  | [], [], _ => rfl
  | [], _ :: _, h => by simp [inBox] at h
  | _ :: _, [], h => by simp [inBox] at h
  | (l, hh) :: bx, x :: xs, h => by
    simp only [inBox, Bool.and_eq_true] at h
    simp [inBox_length bx xs h.2]

theorem inBox_cons (l h : Rat) (bx : Box) (x : Rat) (xs : Vec) :
    inBox ((l, h) :: bx) (x :: xs) = true ↔ l ≤ x ∧ x ≤ h ∧ inBox bx xs = true := by
  simp [inBox, and_assoc]

theorem clip1_mem (l h x : Rat) (hlh : l ≤ h) : l ≤ clip1 l h x ∧ clip1 l h x ≤ h := by
  unfold clip1
  exact ⟨le_min (le_max_right _ _) hlh, min_le_right _ _⟩

theorem clip1_id (l h x : Rat) (h1 : l ≤ x) (h2 : x ≤ h) : clip1 l h x = x := by
  unfold clip1; rw [max_eq_left h1, min_eq_left h2]

theorem clip_length : ∀ (bx : Box) (x : Vec), x.length = bx.length → (clip bx x).length = bx.length
  | [], [], _ => rfl
  | [], _ :: _, h => by simp at h
  | _ :: _, [], h => by simp at h
  | (l, hh) :: bx, x :: xs, h => by
    simp only [clip, List.length_cons]
    rw [clip_length bx xs (by simpa using h)]

/-- the two bound rows of every coordinate are exactly the box condition -/
theorem satAll_map_padRow (rows : List Row) (x : Rat) (xs : Vec) :
    satAll (rows.map padRow) (x :: xs) = satAll rows xs := by
  induction rows with
  | nil => rfl
  | cons r rows ih =>
    simp only [satAll, List.map_cons, List.all_cons] at ih ⊢
    rw [ih]; simp [sat, padRow]

theorem strictAll_map_padRow (rows : List Row) (x : Rat) (xs : Vec) :
    strictAll (rows.map padRow) (x :: xs) = strictAll rows xs := by
  induction rows with
  | nil => rfl
  | cons r rows ih =>
    simp only [strictAll, List.map_cons, List.all_cons] at ih ⊢
    rw [ih]; simp [strictSat, padRow]

theorem satAll_boundRows : ∀ (bx : Box) (x : Vec), x.length = bx.length →
    satAll (boundRows bx) x = inBox bx x
  | [], [], _ => rfl
  | [], _ :: _, h => by simp at h
  | _ :: _, [], h => by simp at h
  | (l, hh) :: bx, x :: xs, h => by
    have ih := satAll_boundRows bx xs (by simpa using h)
    unfold boundRows at ih ⊢
    rw [satAll_append] at ih ⊢
    simp only [lowerRows, upperRows, satAll, List.all_cons, inBox]
    have e1 := satAll_map_padRow (lowerRows bx) x xs
    have e2 := satAll_map_padRow (upperRows bx) x xs
    simp only [satAll] at e1 e2 ih
    rw [e1, e2, ← ih]
    simp only [sat, dot_cons, dot_zeros_left]
    have a1 : decide (-1 * x + 0 ≤ -l) = decide (l ≤ x) := by
      apply decide_eq_decide.mpr; constructor <;> intro h <;> linarith
    have a2 : decide (1 * x + 0 ≤ hh) = decide (x ≤ hh) := by
      apply decide_eq_decide.mpr; constructor <;> intro h <;> linarith
    rw [a1, a2]
    cases decide (l ≤ x) <;> cases decide (x ≤ hh) <;> simp

/-- strict feasibility for the bound rows puts the point in the box -/
theorem inBox_of_satAll_halfspaces (bx : Box) (cons : List Con) (x : Vec) (hl : x.length = bx.length)
    (h : satAll (halfspaces bx cons) x = true) : inBox bx x = true := by
  unfold halfspaces at h
  rw [satAll_append, Bool.and_eq_true] at h
  rw [← satAll_boundRows bx x hl]; exact h.2

/-- nnz of a bound row is 1 -/
theorem nnz_zeros (n : Nat) : nnz (zeros n) = 0 := by
  induction n with
  | zero => rfl
  | succ n ih => simp [zeros, nnz, ih]

theorem nnz_map_neg (w : Vec) : nnz (w.map (fun t => -t)) = nnz w := by
  induction w with
  | nil => rfl
  | cons w ws ih => simp [nnz, ih]

theorem nnz_lowerRows (bx : Box) : ∀ r ∈ lowerRows bx, nnz r.a = 1 := by
  induction bx with
  | nil => intro r hr; simp [lowerRows] at hr
  | cons p bx ih =>
    obtain ⟨l, h⟩ := p
    intro r hr
    simp only [lowerRows, List.mem_cons, List.mem_map] at hr
    rcases hr with rfl | ⟨r', hr', rfl⟩
    · simp [nnz, nnz_zeros]
    · simp [padRow, nnz, ih r' hr']

theorem nnz_upperRows (bx : Box) : ∀ r ∈ upperRows bx, nnz r.a = 1 := by
  induction bx with
  | nil => intro r hr; simp [upperRows] at hr
  | cons p bx ih =>
    obtain ⟨l, h⟩ := p
    intro r hr
    simp only [upperRows, List.mem_cons, List.mem_map] at hr
    rcases hr with rfl | ⟨r', hr', rfl⟩
    · simp [nnz, nnz_zeros]
    · simp [padRow, nnz, ih r' hr']

/-- With every user constraint carrying ≥ 2 non-zero weights, the "non-bound" rows the restriction works on
    are exactly the user's constraint rows. -/
theorem nonBound_halfspaces (bx : Box) (cons : List Con) (hw : consWF cons = true) :
    nonBound (halfspaces bx cons) = cons.map conRow := by
  unfold nonBound halfspaces boundRows
  rw [List.filter_append, List.filter_append]
  have h1 : (cons.map conRow).filter (fun r => decide (1 < nnz r.a)) = cons.map conRow := by
    apply List.filter_eq_self.mpr
    intro r hr
    simp only [List.mem_map] at hr
    obtain ⟨c, hc, rfl⟩ := hr
    simp only [consWF, List.all_eq_true] at hw
    simpa [conRow, nnz_map_neg] using hw c hc
  have h2 : (lowerRows bx).filter (fun r => decide (1 < nnz r.a)) = [] := by
    apply List.filter_eq_nil_iff.mpr
    intro r hr; simp [nnz_lowerRows bx r hr]
  have h3 : (upperRows bx).filter (fun r => decide (1 < nnz r.a)) = [] := by
    apply List.filter_eq_nil_iff.mpr
    intro r hr; simp [nnz_upperRows bx r hr]
  rw [h1, h2, h3]; simp

/-- coordinate-wise convex combination of two box points stays in the box -/
theorem inBox_zipWith (f : Rat → Rat → Rat) (e : Rat) (he0 : 0 ≤ e) (he1 : e ≤ 1)
    (hf : ∀ x y, f x y = e * x + (1 - e) * y) :
    ∀ (bx : Box) (p v : Vec), inBox bx p = true → inBox bx v = true → inBox bx (List.zipWith f p v) = true
  | [], [], [], _, _ => rfl
  | [], _ :: _, _, h, _ => by simp [inBox] at h
  | [], [], _ :: _, _, h => by simp [inBox] at h
  | _ :: _, [], _, h, _ => by simp [inBox] at h
  | _ :: _, _ :: _, [], _, h => by simp [inBox] at h
  | (l, hh) :: bx, p :: ps, v :: vs, hp, hv => by
    rw [inBox_cons] at hp hv
    simp only [List.zipWith_cons_cons]
    rw [inBox_cons]
    refine ⟨?_, ?_, inBox_zipWith f e he0 he1 hf bx ps vs hp.2.2 hv.2.2⟩
    · rw [hf]; nlinarith [hp.1, hv.1]
    · rw [hf]; nlinarith [hp.2.1, hv.2.1]

end C08
