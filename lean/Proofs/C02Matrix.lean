/-
  C02 — the Gaussian-process posterior as Mathlib `Matrix` expressions over an arbitrary field, and
  the linear-algebra lemmas the property theorems rest on.

  The definitions mirror, statement for statement, what `libsigopt/compute/gaussian_process.py`
  computes (`build_precomputed_data`, `fit_nonzero_gp_mean_function`, `_compute_mean_of_points`,
  `_compute_variance_of_points` (both branches), `compute_covariance_of_points`) with the Cholesky
  solves replaced by multiplication with a matrix `Ainv` that is only ever used under the
  hypothesis `A * Ainv = 1` (certified per input by the driver).  `Proofs/C02Bridge.lean` shows
  that the executable model `Model/C02.lean` *is* these expressions at `𝕜 = ℚ`, index type `Fin n`.
-/
import Mathlib.LinearAlgebra.Matrix.PosDef
import Mathlib.LinearAlgebra.Matrix.SchurComplement
import Mathlib.LinearAlgebra.Matrix.NonsingularInverse
import Mathlib.Data.Matrix.Block
import Mathlib.Tactic.Ring
import Mathlib.Tactic.Linarith

set_option linter.unusedSectionVars false
set_option linter.overlappingInstances false

namespace C02
namespace Spec
open Matrix

variable {n n' p q q' c : Type*} [Fintype n] [Fintype n'] [Fintype p] [Fintype q] [Fintype q'] [Fintype c]
variable [DecidableEq n] [DecidableEq n'] [DecidableEq p] [DecidableEq q] [DecidableEq c]
variable {𝕜 : Type*} [Field 𝕜]

/-! ### Definitions (the code's formulas) -/

/-- `build_kernel_matrix(points_sampled, noise_variance=d)`: `A = K + diag d`. -/
def noisy (K : Matrix n n 𝕜) (d : n → 𝕜) : Matrix n n 𝕜 := K + diagonal d

/-- `PT_K_inv_P = Pᵀ (A⁻¹ P)`. -/
def gram (P : Matrix n p 𝕜) (Ainv : Matrix n n 𝕜) : Matrix p p 𝕜 := Pᵀ * (Ainv * P)

/-- `poly_coef = cho_solve(PKP_chol, Pᵀ K_inv_y)`: the generalised-least-squares coefficients. -/
def glsBeta (Ginv : Matrix p p 𝕜) (P : Matrix n p 𝕜) (Ainv : Matrix n n 𝕜) (y : n → 𝕜) : p → 𝕜 :=
  Ginv *ᵥ (Pᵀ *ᵥ (Ainv *ᵥ y))

/-- `K_inv_demeaned_y = K_inv_y - cho_solve(K_chol, P β)` (two solves, as in the code). -/
def weights (Ainv : Matrix n n 𝕜) (y : n → 𝕜) (P : Matrix n p 𝕜) (β : p → 𝕜) : n → 𝕜 :=
  Ainv *ᵥ y - Ainv *ᵥ (P *ᵥ β)

/-- `_compute_mean_of_points`: `K_eval · K_inv_demeaned_y + P_eval · poly_coef`. -/
def mean (Ks : Matrix q n 𝕜) (Ps : Matrix q p 𝕜) (w : n → 𝕜) (β : p → 𝕜) : q → 𝕜 :=
  Ks *ᵥ w + Ps *ᵥ β

/-- The whole mean pipeline for a non-zero polynomial mean. -/
def postMean (Ainv : Matrix n n 𝕜) (Ginv : Matrix p p 𝕜) (y : n → 𝕜) (P : Matrix n p 𝕜)
    (Ks : Matrix q n 𝕜) (Ps : Matrix q p 𝕜) : q → 𝕜 :=
  mean Ks Ps (weights Ainv y P (glsBeta Ginv P Ainv y)) (glsBeta Ginv P Ainv y)

/-- The mean pipeline of the zero-mean branch (`poly_coef = [0]`, `K_inv_demeaned_y = K_inv_y`). -/
def postMeanZero (Ainv : Matrix n n 𝕜) (y : n → 𝕜) (Ks : Matrix q n 𝕜) : q → 𝕜 := Ks *ᵥ (Ainv *ᵥ y)

/-- "cardinal functions" branch of `_compute_variance_of_points` (before the floor):
    `K_x_x − Σ_j K_eval[i,j] · cho_solve(K_chol, K_evalᵀ)ᵀ[i,j]`. -/
def var (kxx : q → 𝕜) (Ks : Matrix q n 𝕜) (Ainv : Matrix n n 𝕜) : q → 𝕜 :=
  fun i => kxx i - ∑ j, Ks i j * (Ainv * Ksᵀ)ᵀ i j

/-- Cholesky branch of `_compute_variance_of_points` (before the floor): `V = L⁻¹ K_evalᵀ`,
    `K_x_x − Σ_j V[j,i]²`. -/
def varChol (kxx : q → 𝕜) (Ks : Matrix q n 𝕜) (Linv : Matrix n n 𝕜) : q → 𝕜 :=
  fun i => kxx i - ∑ j, (Linv * Ksᵀ) j i ^ 2

/-- The same branch with a square-root-free factorisation `A = L D Lᵀ` (what the exact model runs):
    the Cholesky factor is `L D^{1/2}`, so `V[j,i]² = (L⁻¹ K_evalᵀ)[j,i]² / D j`. -/
def varLDL (kxx : q → 𝕜) (Ks : Matrix q n 𝕜) (Linv : Matrix n n 𝕜) (D : n → 𝕜) : q → 𝕜 :=
  fun i => kxx i - ∑ j, (Linv * Ksᵀ) j i ^ 2 / D j

/-- The closed-form conditional covariance `K** − K* A⁻¹ K*ᵀ`. -/
def cov (Kss : Matrix q q 𝕜) (Ks : Matrix q n 𝕜) (Ainv : Matrix n n 𝕜) : Matrix q q 𝕜 :=
  Kss - Ks * Ainv * Ksᵀ

/-- `compute_covariance_of_points`: `K_eval_var − Vᵀ V`, `V = L⁻¹ K_evalᵀ`. -/
def covChol (Kss : Matrix q q 𝕜) (Ks : Matrix q n 𝕜) (Linv : Matrix n n 𝕜) : Matrix q q 𝕜 :=
  Kss - (Linv * Ksᵀ)ᵀ * (Linv * Ksᵀ)

/-- Square-root-free version of `covChol`. -/
def covLDL (Kss : Matrix q q 𝕜) (Ks : Matrix q n 𝕜) (Linv : Matrix n n 𝕜) (Dinv : n → 𝕜) :
    Matrix q q 𝕜 :=
  Kss - (Linv * Ksᵀ)ᵀ * diagonal Dinv * (Linv * Ksᵀ)

/-- `GaussianProcessSum.compute_mean_of_points`. -/
def sumMean (w : c → 𝕜) (m : c → q → 𝕜) : q → 𝕜 := ∑ k, w k • m k
/-- `GaussianProcessSum.compute_variance_of_points`. -/
def sumVar (w : c → 𝕜) (v : c → q → 𝕜) : q → 𝕜 := ∑ k, (w k ^ 2) • v k
/-- `GaussianProcessSum.compute_covariance_of_points`. -/
def sumCov (w : c → 𝕜) (C : c → Matrix q q 𝕜) : Matrix q q 𝕜 := ∑ k, (w k ^ 2) • C k

/-! ### Inverses -/

theorem left_inv_of_right_inv {A Ainv : Matrix n n 𝕜} (h : A * Ainv = 1) : Ainv * A = 1 :=
  mul_eq_one_comm.mp h

theorem right_inv_unique {A B C : Matrix n n 𝕜} (hB : A * B = 1) (hC : A * C = 1) : B = C := by
  have hl := left_inv_of_right_inv hB
  calc B = B * (A * C) := by rw [hC, Matrix.mul_one]
    _ = (B * A) * C := by rw [Matrix.mul_assoc]
    _ = C := by rw [hl, Matrix.one_mul]

/-- The inverse of a symmetric matrix is symmetric. -/
theorem inv_symm {A Ainv : Matrix n n 𝕜} (hs : Aᵀ = A) (h : A * Ainv = 1) : Ainvᵀ = Ainv := by
  have hl := left_inv_of_right_inv h
  have : A * Ainvᵀ = 1 := by
    have := congrArg Matrix.transpose hl
    rwa [transpose_mul, hs, transpose_one] at this
  exact right_inv_unique this h

/-- Reordering the observations reorders the inverse. -/
theorem inv_submatrix_equiv {A Ainv : Matrix n n 𝕜} (σ : n' ≃ n) (h : A * Ainv = 1) :
    A.submatrix σ σ * Ainv.submatrix σ σ = 1 := by
  rw [submatrix_mul_equiv, h, submatrix_one_equiv]

/-- From `A = L Dm Lᵀ`, `L⁻¹`, `Dm⁻¹` one gets `A⁻¹ = L⁻ᵀ Dm⁻¹ L⁻¹`. -/
theorem inv_of_factor {A Ainv L Linv Dm Dinv : Matrix n n 𝕜} (hA : A * Ainv = 1)
    (hL : L * Dm * Lᵀ = A) (hLi : Linv * L = 1) (hD : Dm * Dinv = 1) :
    Ainv = Linvᵀ * Dinv * Linv := by
  have hLi' : L * Linv = 1 := left_inv_of_right_inv hLi
  have hLt : Lᵀ * Linvᵀ = 1 := by
    rw [← transpose_mul, hLi, transpose_one]
  refine right_inv_unique hA ?_
  calc A * (Linvᵀ * Dinv * Linv)
      = L * Dm * (Lᵀ * Linvᵀ) * Dinv * Linv := by rw [← hL]; simp only [Matrix.mul_assoc]
    _ = L * (Dm * Dinv) * Linv := by rw [hLt, Matrix.mul_one]; simp only [Matrix.mul_assoc]
    _ = 1 := by rw [hD, Matrix.mul_one, hLi']

/-! ### diagonal of the covariance, factor branches -/

theorem var_eq_cov_diag (Kss : Matrix q q 𝕜) (Ks : Matrix q n 𝕜) (Ainv : Matrix n n 𝕜) (i : q) :
    var (fun i => Kss i i) Ks Ainv i = cov Kss Ks Ainv i i := by
  simp only [var, cov, Matrix.sub_apply, Matrix.mul_assoc, transpose_apply]
  rw [Matrix.mul_apply]

theorem varLDL_eq_covLDL_diag (Kss : Matrix q q 𝕜) (Ks : Matrix q n 𝕜) (Linv : Matrix n n 𝕜)
    (D Dinv : n → 𝕜) (hD : ∀ j, D j * Dinv j = 1) (i : q) :
    varLDL (fun i => Kss i i) Ks Linv D i = covLDL Kss Ks Linv Dinv i i := by
  simp only [varLDL, covLDL, Matrix.sub_apply]
  generalize Linv * Ksᵀ = V
  rw [Matrix.mul_apply]
  congr 1
  refine Finset.sum_congr rfl fun j _ => ?_
  have hj : D j ≠ 0 := fun h => by simpa [h] using hD j
  have : Dinv j = (D j)⁻¹ := eq_inv_of_mul_eq_one_right (hD j)
  rw [mul_diagonal, transpose_apply, this]
  field_simp

/-! ### reordering the observations -/

theorem inv_perm {A Ainv : Matrix n n 𝕜} (σ : n' ≃ n) (hA : A * Ainv = 1)
    {Ainv' : Matrix n' n' 𝕜} (hA' : A.submatrix σ σ * Ainv' = 1) : Ainv' = Ainv.submatrix σ σ :=
  right_inv_unique hA' (inv_submatrix_equiv σ hA)

theorem gram_perm (σ : n' ≃ n) (P : Matrix n p 𝕜) (Ainv : Matrix n n 𝕜) :
    gram (P.submatrix σ id) (Ainv.submatrix σ σ) = gram P Ainv := by
  simp only [gram, transpose_submatrix]
  rw [show P.submatrix (⇑σ) id = P.submatrix (⇑σ) (⇑(Equiv.refl p)) from rfl,
    submatrix_mul_equiv, show Pᵀ.submatrix id ⇑σ = Pᵀ.submatrix (⇑(Equiv.refl p)) ⇑σ from rfl,
    submatrix_mul_equiv]
  rfl

theorem mulVec_perm (σ : n' ≃ n) (M : Matrix q n 𝕜) (v : n → 𝕜) :
    (M.submatrix id σ) *ᵥ (v ∘ σ) = M *ᵥ v := by
  rw [submatrix_mulVec_equiv]
  funext i
  simp [Function.comp_def]

theorem mulVec_perm' (σ : n' ≃ n) (M : Matrix n n 𝕜) (v : n → 𝕜) :
    (M.submatrix σ σ) *ᵥ (v ∘ σ) = (M *ᵥ v) ∘ σ := by
  rw [submatrix_mulVec_equiv]
  funext i
  simp [Function.comp_def]

theorem mulVec_perm_rows (σ : n' ≃ n) (M : Matrix n p 𝕜) (v : p → 𝕜) :
    (M.submatrix σ id) *ᵥ v = (M *ᵥ v) ∘ σ := by
  funext i
  simp [mulVec, dotProduct]

theorem glsBeta_perm (σ : n' ≃ n) (Ginv : Matrix p p 𝕜) (P : Matrix n p 𝕜) (Ainv : Matrix n n 𝕜) (y : n → 𝕜) :
    glsBeta Ginv (P.submatrix σ id) (Ainv.submatrix σ σ) (y ∘ σ) = glsBeta Ginv P Ainv y := by
  simp only [glsBeta, transpose_submatrix, mulVec_perm', mulVec_perm]

theorem weights_perm (σ : n' ≃ n) (P : Matrix n p 𝕜) (Ainv : Matrix n n 𝕜) (y : n → 𝕜) (β : p → 𝕜) :
    weights (Ainv.submatrix σ σ) (y ∘ σ) (P.submatrix σ id) β = weights Ainv y P β ∘ σ := by
  simp only [weights, mulVec_perm_rows, mulVec_perm']
  rfl

/-! ### interpolation -/

theorem interpolation_cov_apply {A Ainv : Matrix n n 𝕜} (hA : A * Ainv = 1) (f : q → n) (i j : q) :
    cov (A.submatrix f f) (A.submatrix f id) Ainv i j = A (f i) (f j) - A (f j) (f i) := by
  have h1 : A.submatrix f id * Ainv = (1 : Matrix n n 𝕜).submatrix f id := by
    rw [← hA]; ext i j; simp [Matrix.mul_apply]
  rw [cov, h1]
  simp [Matrix.mul_apply, Matrix.one_apply]

/-! ### sums of independent GPs -/

theorem gpsum_mean_apply (w : c → 𝕜) (m : c → q → 𝕜) (i : q) : sumMean w m i = ∑ k, w k * m k i := by
  simp [sumMean, Finset.sum_apply]
theorem gpsum_var_apply (w : c → 𝕜) (v : c → q → 𝕜) (i : q) : sumVar w v i = ∑ k, w k ^ 2 * v k i := by
  simp [sumVar, Finset.sum_apply]
theorem gpsum_cov_apply (w : c → 𝕜) (C : c → Matrix q q 𝕜) (i j : q) :
    sumCov w C i j = ∑ k, w k ^ 2 * C k i j := by
  simp [sumCov, Matrix.sum_apply]

/-- The sum of independent GPs: stack the components (block-diagonal joint covariance, stacked mean)
    and apply the linear map `W = [w₁ I … w_c I]`. -/
def weightRow (w : c → 𝕜) : Matrix q (q × c) 𝕜 := fun i jk => if i = jk.1 then w jk.2 else 0


/-! ### certificates over an ordered field (ℚ for the driver, ℝ for the mathematics) -/

section Order
variable {R : Type*} [Field R] [LinearOrder R] [IsStrictOrderedRing R] [StarRing R] [StarOrderedRing R]
  [TrivialStar R]

/-- certificate used by the driver: `M = L D Lᵀ` with `D ≥ 0` is positive semidefinite -/
theorem ldl_posSemidef (L : Matrix n n R) (D : n → R) (hD : ∀ j, 0 ≤ D j) :
    (L * diagonal D * Lᵀ).PosSemidef := by
  have := (PosSemidef.diagonal (n := n) (R := R) (d := D) hD).mul_mul_conjTranspose_same L
  simpa [conjTranspose_eq_transpose_of_trivial] using this

theorem ldl_posDef (L Linv : Matrix n n R) (D : n → R) (hD : ∀ j, 0 < D j) (hL : Linv * L = 1) :
    (L * diagonal D * Lᵀ).PosDef := by
  have hL' : L * Linv = 1 := left_inv_of_right_inv hL
  have hinj : Function.Injective fun v : n → R => v ᵥ* L := by
    intro u v huv
    have h2 := congrArg (fun x => x ᵥ* Linv) huv
    simpa [vecMul_vecMul, hL'] using h2
  have := (PosDef.diagonal (n := n) (R := R) (d := D) hD).mul_mul_conjTranspose_same (B := L) hinj
  simpa [conjTranspose_eq_transpose_of_trivial] using this

end Order

end Spec
end C02
