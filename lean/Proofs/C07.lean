/- Helper lemmas for C07 (best-seen bookkeeping, DE replacement, multistart loop invariants). -/
import Model.C07
import Mathlib.Order.Defs.LinearOrder
import Mathlib.Order.Basic
import Mathlib.Tactic.Common

namespace C07
universe u v w
variable {P : Type u} {V : Type v} {K : Type w}

/-- `b` is an element of `l` carrying its value, everything before it is strictly smaller, everything
    after it is not larger (NaN entries, `none`, are ignored): the FIRST arg-max of `l`. -/
def IsFirstMax [LT V] [LE V] (l : List (P × Option V)) (b : P × V) : Prop :=
  ∃ l1 l2, l = l1 ++ (b.1, some b.2) :: l2 ∧
    (∀ e ∈ l1, ∀ x, e.2 = some x → x < b.2) ∧ (∀ e ∈ l2, ∀ x, e.2 = some x → x ≤ b.2)

/-- invariant of the bookkeeping after the evaluations `pre` -/
def MInv [LT V] [LE V] (pre : List (P × Option V)) : Option (P × V) → Prop
  | none => ∀ e ∈ pre, e.2 = none
  | some b => IsFirstMax pre b

section
variable [LinearOrder V]

theorem IsFirstMax.mem {l : List (P × Option V)} {b : P × V} (h : IsFirstMax l b) :
    (b.1, some b.2) ∈ l := by
  obtain ⟨l1, l2, rfl, -, -⟩ := h
  simp

theorem IsFirstMax.ge {l : List (P × Option V)} {b : P × V} (h : IsFirstMax l b) :
    ∀ e ∈ l, ∀ x, e.2 = some x → x ≤ b.2 := by
  obtain ⟨l1, l2, rfl, h1, h2⟩ := h
  intro e he x hx
  rcases List.mem_append.mp he with he | he
  · exact le_of_lt (h1 e he x hx)
  · rcases List.mem_cons.mp he with rfl | he
    · simp at hx; exact hx ▸ le_refl _
    · exact h2 e he x hx

/-- one scan step preserves the invariant -/
theorem MInv.upd {pre : List (P × Option V)} {acc : Option (P × V)} (h : MInv pre acc)
    (e : P × Option V) : MInv (pre ++ [e]) (upd acc e) := by
  obtain ⟨p, ov⟩ := e
  cases ov with
  | none =>
    cases acc with
    | none =>
      intro e he
      rcases List.mem_append.mp he with he | he
      · exact h e he
      · simp at he; rw [he]
    | some b =>
      obtain ⟨l1, l2, rfl, h1, h2⟩ := h
      refine ⟨l1, l2 ++ [(p, none)], by simp, h1, ?_⟩
      intro e he x hx
      rcases List.mem_append.mp he with he | he
      · exact h2 e he x hx
      · simp at he; rw [he] at hx; simp at hx
  | some x =>
    cases acc with
    | none =>
      refine ⟨pre, [], rfl, ?_, by simp⟩
      intro e he y hy
      have := h e he
      rw [this] at hy; simp at hy
    | some b =>
      by_cases hlt : b.2 < x
      · have : C07.upd (some b) (p, some x) = some (p, x) := by simp [C07.upd, hlt]
        rw [this]
        refine ⟨pre, [], rfl, ?_, by simp⟩
        intro e he y hy
        exact lt_of_le_of_lt (IsFirstMax.ge h e he y hy) hlt
      · have : C07.upd (some b) (p, some x) = some b := by simp [C07.upd, hlt]
        rw [this]
        obtain ⟨l1, l2, rfl, h1, h2⟩ := h
        refine ⟨l1, l2 ++ [(p, some x)], by simp, h1, ?_⟩
        intro e he y hy
        rcases List.mem_append.mp he with he | he
        · exact h2 e he y hy
        · simp at he; rw [he] at hy; simp at hy; rw [← hy]; exact not_lt.mp hlt

theorem MInv.foldl {pre : List (P × Option V)} {acc : Option (P × V)} (h : MInv pre acc)
    (l : List (P × Option V)) : MInv (pre ++ l) (l.foldl C07.upd acc) := by
  induction l generalizing pre acc with
  | nil => simpa using h
  | cons e l ih =>
    have := ih (h.upd e)
    simpa using this

theorem argmaxFirst_inv (l : List (P × Option V)) : MInv l (argmaxFirst l) := by
  have h0 : MInv ([] : List (P × Option V)) (none : Option (P × V)) := by
    intro e he; cases he
  simpa [argmaxFirst] using h0.foldl l

theorem argmaxFirst_some {l : List (P × Option V)} {b : P × V} (h : argmaxFirst l = some b) :
    IsFirstMax l b := by
  have := argmaxFirst_inv l
  rw [h] at this; exact this

theorem argmaxFirst_none {l : List (P × Option V)} (h : argmaxFirst l = none) :
    ∀ e ∈ l, e.2 = none := by
  have := argmaxFirst_inv l
  rw [h] at this; exact this

/-- `evaluate_and_monitor` preserves the invariant across batches -/
theorem MInv.step {pre : List (P × Option V)} {acc : Option (P × V)} (h : MInv pre acc)
    {batch : List (P × Option V)} {b' : P × V} (hs : monitorStep acc batch = some b') :
    MInv (pre ++ batch) (some b') := by
  unfold monitorStep at hs
  cases hnow : argmaxFirst batch with
  | none => rw [hnow] at hs; simp at hs
  | some now =>
    rw [hnow] at hs
    have hn := argmaxFirst_some hnow
    obtain ⟨m1, m2, rfl, hm1, hm2⟩ := hn
    cases acc with
    | none =>
      simp at hs; subst hs
      refine ⟨pre ++ m1, m2, by simp, ?_, hm2⟩
      intro e he x hx
      rcases List.mem_append.mp he with he | he
      · have := h e he; rw [this] at hx; simp at hx
      · exact hm1 e he x hx
    | some b =>
      simp only at hs
      by_cases hlt : b.2 < now.2
      · simp [hlt] at hs; subst hs
        refine ⟨pre ++ m1, m2, by simp, ?_, hm2⟩
        intro e he x hx
        rcases List.mem_append.mp he with he | he
        · exact lt_of_le_of_lt (IsFirstMax.ge h e he x hx) hlt
        · exact hm1 e he x hx
      · simp [hlt] at hs; subst hs
        have hle : now.2 ≤ b.2 := not_lt.mp hlt
        have hall : ∀ e ∈ m1 ++ (now.1, some now.2) :: m2, ∀ x, e.2 = some x → x ≤ now.2 :=
          IsFirstMax.ge ⟨m1, m2, rfl, hm1, hm2⟩
        obtain ⟨l1, l2, rfl, h1, h2⟩ := h
        refine ⟨l1, l2 ++ (m1 ++ (now.1, some now.2) :: m2), by simp, h1, ?_⟩
        intro e he x hx
        rcases List.mem_append.mp he with he | he
        · exact h2 e he x hx
        · exact le_trans (hall e he x hx) hle

theorem MInv.all {pre : List (P × Option V)} {acc : Option (P × V)} (h : MInv pre acc)
    {bs : List (List (P × Option V))} {acc' : Option (P × V)} (hs : monitorAll acc bs = some acc') :
    MInv (pre ++ bs.flatten) acc' := by
  induction bs generalizing pre acc with
  | nil => simp [monitorAll] at hs; subst hs; simpa using h
  | cons b bs ih =>
    unfold monitorAll at hs
    cases hm : monitorStep acc b with
    | none => rw [hm] at hs; simp at hs
    | some n =>
      rw [hm] at hs
      have := ih (h.step hm) hs
      simpa [List.append_assoc] using this

theorem MInv.nil : MInv ([] : List (P × Option V)) (none : Option (P × V)) := by
  intro e he; cases he

theorem monitorAll_append {acc : Option (P × V)} {bs cs : List (List (P × Option V))}
    {mid : P × V} (h1 : monitorAll acc bs = some (some mid)) :
    monitorAll acc (bs ++ cs) = monitorAll (some mid) cs := by
  induction bs generalizing acc with
  | nil => simp [monitorAll] at h1; subst h1; rfl
  | cons b bs ih =>
    unfold monitorAll at h1
    cases hm : monitorStep acc b with
    | none => rw [hm] at h1; simp at h1
    | some n =>
      rw [hm] at h1
      simp only [List.cons_append, monitorAll, hm]
      exact ih h1

/-- the stored value never decreases -/
theorem monitorStep_mono {b b' : P × V} {batch : List (P × Option V)}
    (h : monitorStep (some b) batch = some b') : b.2 ≤ b'.2 := by
  unfold monitorStep at h
  cases hnow : argmaxFirst batch with
  | none => rw [hnow] at h; simp at h
  | some now =>
    rw [hnow] at h; simp only at h
    by_cases hlt : b.2 < now.2
    · simp [hlt] at h; subst h; exact le_of_lt hlt
    · simp [hlt] at h; subst h; exact le_refl _

/-- after monitoring a batch the stored value dominates every value of that batch -/
theorem monitorStep_ge_batch {acc : Option (P × V)} {b' : P × V} {batch : List (P × Option V)}
    (h : monitorStep acc batch = some b') : ∀ e ∈ batch, ∀ x, e.2 = some x → x ≤ b'.2 := by
  intro e he x hx
  cases acc with
  | none =>
    have h1 : MInv ([] ++ batch) (some b') := MInv.nil.step h
    have h2 : IsFirstMax batch b' := by simpa [MInv] using h1
    exact IsFirstMax.ge h2 e he x hx
  | some b =>
    have h0 : MInv [(b.1, some b.2)] (some b) := ⟨[], [], rfl, by simp, by simp⟩
    exact IsFirstMax.ge (h0.step h) e (by simp [he]) x hx

end
end C07
