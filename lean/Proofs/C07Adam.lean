/- Adam first-step lemmas over ℝ (helpers for Properties/C07.lean). -/
import Model.C07Adam
import Proofs.ArithReal
import Mathlib.Analysis.SpecialFunctions.Pow.Real
import Mathlib.Tactic.Linarith
import Mathlib.Tactic.Positivity
import Mathlib.Tactic.FieldSimp
import Mathlib.Tactic.Ring

namespace C07Adam

/-- the first displacement in closed form -/
noncomputable def firstStep (lr eps g : ℝ) : ℝ := lr * g / (|g| + eps)

theorem update_first (lr β1 β2 eps g : ℝ) (h1 : β1 ≠ 1) (h2 : β2 ≠ 1) :
    update lr β1 β2 eps 1 (stepMoments β1 β2 { m := 0, v := 0 } g) = firstStep lr eps g := by
  have e1 : (1 : ℝ) - β1 ≠ 0 := sub_ne_zero.mpr (Ne.symm h1)
  have e2 : (1 : ℝ) - β2 ≠ 0 := sub_ne_zero.mpr (Ne.symm h2)
  simp only [update, stepMoments, npow, firstStep, Arith.real_sqrt]
  have hm : (β1 * 0 + (1 - β1) * -g) / (1 - β1 * 1) = -g := by
    rw [mul_one, mul_zero, zero_add]; field_simp
  have hv : (β2 * 0 + (1 - β2) * (-g * -g)) / (1 - β2 * 1) = g ^ 2 := by
    rw [mul_one, mul_zero, zero_add]; field_simp
  show -(lr * ((β1 * 0 + (1 - β1) * -g) / (1 - β1 * 1)) / (Real.sqrt ((β2 * 0 + (1 - β2) * (-g * -g)) / (1 - β2 * 1)) + eps)) = _
  rw [hm, hv, Real.sqrt_sq_eq_abs]
  ring

theorem firstStep_mul_grad_nonneg (lr eps g : ℝ) (hlr : 0 ≤ lr) (heps : 0 ≤ eps) : 0 ≤ firstStep lr eps g * g := by
  unfold firstStep
  have hd : 0 ≤ |g| + eps := by positivity
  have : lr * g / (|g| + eps) * g = lr * (g * g) / (|g| + eps) := by ring
  rw [this]
  exact div_nonneg (mul_nonneg hlr (mul_self_nonneg g)) hd

theorem abs_firstStep_le (lr eps g : ℝ) (hlr : 0 ≤ lr) (heps : 0 ≤ eps) : |firstStep lr eps g| ≤ lr := by
  unfold firstStep
  by_cases hz : |g| + eps = 0
  · rw [hz, div_zero, abs_zero]; exact hlr
  · have hd : 0 < |g| + eps := lt_of_le_of_ne (by positivity) (Ne.symm hz)
    rw [abs_div, abs_mul, abs_of_nonneg hlr, abs_of_pos hd, div_le_iff₀ hd]
    have : |g| ≤ |g| + eps := by linarith
    exact mul_le_mul_of_nonneg_left this hlr

/-- termwise gain: g·u − (L/2)·u² ≥ 0 for the first displacement when (L/2)·lr ≤ |g| + eps -/
theorem firstStep_gain (lr eps L g : ℝ) (hlr : 0 ≤ lr) (heps : 0 ≤ eps) (hD : L / 2 * lr ≤ |g| + eps) :
    0 ≤ g * firstStep lr eps g - L / 2 * (firstStep lr eps g * firstStep lr eps g) := by
  unfold firstStep
  by_cases hz : |g| + eps = 0
  · rw [hz]; simp
  · have hd : 0 < |g| + eps := lt_of_le_of_ne (by positivity) (Ne.symm hz)
    have e : g * (lr * g / (|g| + eps)) - L / 2 * (lr * g / (|g| + eps) * (lr * g / (|g| + eps)))
        = lr * (g * g) / ((|g| + eps) * (|g| + eps)) * ((|g| + eps) - L / 2 * lr) := by
      field_simp
    rw [e]
    apply mul_nonneg
    · exact div_nonneg (mul_nonneg hlr (mul_self_nonneg g)) (mul_nonneg hd.le hd.le)
    · linarith

noncomputable def ldot : List ℝ → List ℝ → ℝ
  | a :: as, b :: bs => a * b + ldot as bs
  | _, _ => 0

noncomputable def ladd : List ℝ → List ℝ → List ℝ
  | a :: as, b :: bs => (a + b) :: ladd as bs
  | _, _ => []

theorem gain_sum (lr eps L : ℝ) (gs : List ℝ) (hlr : 0 ≤ lr) (heps : 0 ≤ eps)
    (hD : ∀ g ∈ gs, L / 2 * lr ≤ |g| + eps) :
    0 ≤ ldot gs (gs.map (firstStep lr eps)) - L / 2 * ldot (gs.map (firstStep lr eps)) (gs.map (firstStep lr eps)) := by
  induction gs with
  | nil => simp [ldot]
  | cons g gs ih =>
    have h1 := firstStep_gain lr eps L g hlr heps (hD g (List.mem_cons_self ..))
    have h2 := ih (fun x hx => hD x (List.mem_cons_of_mem _ hx))
    simp only [List.map_cons, ldot]
    nlinarith [h1, h2]

end C07Adam
