/- Scalar lemmas for C09: floor/ceil, round-half-even, first-nearest element, first arg-max. -/
import Model.C09
import Mathlib.Data.Rat.Floor
import Mathlib.Algebra.Order.Floor.Ring
import Mathlib.Tactic.Linarith
import Mathlib.Tactic.Ring
import Mathlib.Tactic.NormNum
import Mathlib.Tactic.Push

namespace C09
open Dom

theorem rabs_eq_abs (x : Rat) : rabs x = |x| := by
  unfold rabs
  split_ifs with h
  · exact (abs_of_neg h).symm
  · exact (abs_of_nonneg (not_lt.mp h)).symm

theorem rabs_nonneg (x : Rat) : 0 ≤ rabs x := by rw [rabs_eq_abs]; exact abs_nonneg x

theorem rabs_eq_zero {x : Rat} (h : rabs x ≤ 0) : x = 0 := by
  rw [rabs_eq_abs] at h
  exact abs_eq_zero.mp (le_antisymm h (abs_nonneg x))

theorem fl_eq_floor (q : Rat) : fl q = ⌊q⌋ := rfl

theorem cl_eq_ceil (q : Rat) : cl q = ⌈q⌉ := by
  show -⌊-q⌋ = ⌈q⌉
  rw [Int.floor_neg, neg_neg]

theorem fl_le (q : Rat) : ((fl q : Int) : Rat) ≤ q := by rw [fl_eq_floor]; exact Int.floor_le q
theorem lt_fl_add_one (q : Rat) : q < ((fl q : Int) : Rat) + 1 := by
  rw [fl_eq_floor]; exact Int.lt_floor_add_one q
theorem le_cl (q : Rat) : q ≤ ((cl q : Int) : Rat) := by rw [cl_eq_ceil]; exact Int.le_ceil q
theorem cl_lt_add_one (q : Rat) : ((cl q : Int) : Rat) < q + 1 := by
  rw [cl_eq_ceil]; exact Int.ceil_lt_add_one q
theorem fl_intCast (n : Int) : fl (n : Rat) = n := by rw [fl_eq_floor]; exact Int.floor_intCast n
theorem cl_intCast (n : Int) : cl (n : Rat) = n := by rw [cl_eq_ceil]; exact Int.ceil_intCast n
theorem le_fl {n : Int} {q : Rat} (h : (n : Rat) ≤ q) : n ≤ fl q := by
  rw [fl_eq_floor]; exact Int.le_floor.mpr h
theorem cl_le {n : Int} {q : Rat} (h : q ≤ (n : Rat)) : cl q ≤ n := by
  rw [cl_eq_ceil]; exact Int.ceil_le.mpr h

theorem isIntQ_iff (q : Rat) : isIntQ q = true ↔ ∃ n : Int, q = (n : Rat) := by
  unfold isIntQ
  rw [decide_eq_true_iff]
  constructor
  · intro h; exact ⟨fl q, h.symm⟩
  · rintro ⟨n, rfl⟩; rw [fl_intCast]

theorem isIntQ_intCast (n : Int) : isIntQ (n : Rat) = true := (isIntQ_iff _).mpr ⟨n, rfl⟩

/-! ### round half to even -/

theorem roundHalfEven_cases (q : Rat) : roundHalfEven q = fl q ∨ roundHalfEven q = fl q + 1 := by
  unfold roundHalfEven
  dsimp only
  split_ifs <;> simp

/-- the rounded value is a nearest integer -/
theorem roundHalfEven_nearest (q : Rat) : rabs (q - ((roundHalfEven q : Int) : Rat)) ≤ 1 / 2 := by
  rw [rabs_eq_abs, abs_le]
  have h1 := fl_le q
  have h2 := lt_fl_add_one q
  unfold roundHalfEven
  dsimp only
  split_ifs with a b c
  · constructor <;> linarith
  · push_cast; constructor <;> linarith
  · constructor <;> linarith
  · push_cast
    have : q - ((fl q : Int) : Rat) = 1 / 2 := le_antisymm (not_lt.mp b) (not_lt.mp a)
    constructor <;> linarith

/-- no integer is strictly nearer -/
theorem roundHalfEven_le_int (q : Rat) (n : Int) :
    rabs (q - ((roundHalfEven q : Int) : Rat)) ≤ rabs (q - (n : Rat)) := by
  have h := roundHalfEven_nearest q
  by_contra hc
  have hc := not_le.mp hc
  simp only [rabs_eq_abs] at h hc
  -- |q - n| < |q - r| ≤ 1/2 and r, n integers
  rcases roundHalfEven_cases q with hr | hr
  · rw [hr] at h hc
    have h1 := fl_le q
    have h2 := lt_fl_add_one q
    rw [abs_of_nonneg (by linarith : 0 ≤ q - ((fl q : Int) : Rat))] at hc h
    have hlt := abs_lt.mp hc
    -- n ≤ q + (q - fl q) < fl q + 1 and n > fl q - ... so n = fl q
    have hn1 : ((n : Int) : Rat) < ((fl q : Int) : Rat) + 1 := by linarith [hlt.1]
    have hn2 : ((fl q : Int) : Rat) - 1 < ((n : Int) : Rat) := by linarith [hlt.2]
    have e1 : n < fl q + 1 := by exact_mod_cast hn1
    have e2 : fl q - 1 < n := by exact_mod_cast hn2
    have : n = fl q := by omega
    rw [this] at hc
    rw [abs_of_nonneg (by linarith : 0 ≤ q - ((fl q : Int) : Rat))] at hc
    exact lt_irrefl _ hc
  · rw [hr] at h hc
    have h1 := fl_le q
    have h2 := lt_fl_add_one q
    push_cast at h hc
    rw [abs_of_nonpos (by linarith : q - (((fl q : Int) : Rat) + 1) ≤ 0)] at hc h
    have hlt := abs_lt.mp hc
    have hn1 : ((n : Int) : Rat) < ((fl q : Int) : Rat) + 2 := by linarith [hlt.1]
    have hn2 : ((fl q : Int) : Rat) < ((n : Int) : Rat) := by linarith [hlt.2]
    have e1 : n < fl q + 2 := by exact_mod_cast hn1
    have e2 : fl q < n := by exact_mod_cast hn2
    have : n = fl q + 1 := by omega
    rw [this] at hc
    push_cast at hc
    rw [abs_of_nonpos (by linarith : q - (((fl q : Int) : Rat) + 1) ≤ 0)] at hc
    exact lt_irrefl _ hc

theorem roundHalfEven_intCast (n : Int) : roundHalfEven (n : Rat) = n := by
  unfold roundHalfEven
  dsimp only
  rw [fl_intCast]
  simp

/-- within integral bounds the rounded value stays within the bounds -/
theorem roundHalfEven_bounds {q : Rat} {a b : Int} (h1 : (a : Rat) ≤ q) (h2 : q ≤ (b : Rat)) :
    (a : Rat) ≤ ((roundHalfEven q : Int) : Rat) ∧ ((roundHalfEven q : Int) : Rat) ≤ (b : Rat) := by
  have ha : a ≤ fl q := le_fl h1
  have hf := fl_le q
  unfold roundHalfEven
  dsimp only
  split_ifs with c1 c2 c3
  · exact ⟨by exact_mod_cast ha, le_trans hf h2⟩
  · refine ⟨by exact_mod_cast (by omega : a ≤ fl q + 1), ?_⟩
    have : ((fl q : Int) : Rat) < (b : Rat) := by linarith
    have : fl q < b := by exact_mod_cast this
    exact_mod_cast (by omega : fl q + 1 ≤ b)
  · exact ⟨by exact_mod_cast ha, le_trans hf h2⟩
  · refine ⟨by exact_mod_cast (by omega : a ≤ fl q + 1), ?_⟩
    have hq : q - ((fl q : Int) : Rat) = 1 / 2 := le_antisymm (not_lt.mp c2) (not_lt.mp c1)
    have : ((fl q : Int) : Rat) < (b : Rat) := by linarith
    have : fl q < b := by exact_mod_cast this
    exact_mod_cast (by omega : fl q + 1 ≤ b)

/-- any integer within 1/2 of a point between integral bounds lies between the bounds -/
theorem nearest_int_bounds {q : Rat} {a b n : Int} (h1 : (a : Rat) ≤ q) (h2 : q ≤ (b : Rat))
    (h : rabs (q - (n : Rat)) ≤ 1 / 2) : (a : Rat) ≤ (n : Rat) ∧ (n : Rat) ≤ (b : Rat) := by
  rw [rabs_eq_abs, abs_le] at h
  have e1 : ((a : Int) : Rat) - 1 < (n : Rat) := by linarith
  have e2 : ((n : Int) : Rat) < (b : Rat) + 1 := by linarith
  have e1' : a - 1 < n := by exact_mod_cast e1
  have e2' : n < b + 1 := by exact_mod_cast e2
  exact ⟨by exact_mod_cast (by omega : a ≤ n), by exact_mod_cast (by omega : n ≤ b)⟩

/-! ### floor / ceil of a point between integral bounds -/

theorem fl_bounds {q : Rat} {a b : Int} (h1 : (a : Rat) ≤ q) (h2 : q ≤ (b : Rat)) :
    (a : Rat) ≤ ((fl q : Int) : Rat) ∧ ((fl q : Int) : Rat) ≤ (b : Rat) :=
  ⟨by exact_mod_cast le_fl h1, le_trans (fl_le q) h2⟩

theorem cl_bounds {q : Rat} {a b : Int} (h1 : (a : Rat) ≤ q) (h2 : q ≤ (b : Rat)) :
    (a : Rat) ≤ ((cl q : Int) : Rat) ∧ ((cl q : Int) : Rat) ≤ (b : Rat) :=
  ⟨le_trans h1 (le_cl q), by exact_mod_cast cl_le h2⟩

/-! ### first nearest element -/

private def stepN (v : Rat) (best e' : Rat) : Rat := if rabs (v - e') < rabs (v - best) then e' else best

theorem nearest_foldl_inv (v : Rat) (es : List Rat) (e : Rat) :
    let r := es.foldl (fun best e' => if rabs (v - e') < rabs (v - best) then e' else best) e
    (r = e ∨ r ∈ es) ∧ rabs (v - r) ≤ rabs (v - e) ∧ ∀ e' ∈ es, rabs (v - r) ≤ rabs (v - e') := by
  induction es generalizing e with
  | nil => simp
  | cons a as ih =>
    simp only [List.foldl_cons]
    by_cases hlt : rabs (v - a) < rabs (v - e)
    · simp only [hlt, if_true]
      obtain ⟨hm, hle, hall⟩ := ih a
      refine ⟨?_, le_trans hle (le_of_lt hlt), ?_⟩
      · rcases hm with h | h
        · right; rw [h]; exact List.mem_cons_self
        · right; exact List.mem_cons_of_mem _ h
      · intro e' he'
        rcases List.mem_cons.mp he' with rfl | h
        · exact hle
        · exact hall e' h
    · simp only [hlt, if_false]
      obtain ⟨hm, hle, hall⟩ := ih e
      refine ⟨?_, hle, ?_⟩
      · rcases hm with h | h
        · left; exact h
        · right; exact List.mem_cons_of_mem _ h
      · intro e' he'
        rcases List.mem_cons.mp he' with rfl | h
        · exact le_trans hle (not_lt.mp hlt)
        · exact hall e' h

theorem nearestFirst_cons (e : Rat) (es : List Rat) (v : Rat) :
    nearestFirst (e :: es) v
      = es.foldl (fun best e' => if rabs (v - e') < rabs (v - best) then e' else best) e := rfl

theorem nearestFirst_mem {es : List Rat} (v : Rat) (h : es ≠ []) : nearestFirst es v ∈ es := by
  cases es with
  | nil => exact absurd rfl h
  | cons e es =>
    have := (nearest_foldl_inv v es e).1
    rw [nearestFirst_cons]
    rcases this with h | h
    · rw [h]; exact List.mem_cons_self
    · exact List.mem_cons_of_mem _ h

theorem nearestFirst_le {es : List Rat} (v : Rat) {e' : Rat} (h : e' ∈ es) :
    rabs (v - nearestFirst es v) ≤ rabs (v - e') := by
  cases es with
  | nil => cases h
  | cons e es =>
    obtain ⟨_, hle, hall⟩ := nearest_foldl_inv v es e
    rw [nearestFirst_cons]
    rcases List.mem_cons.mp h with rfl | h
    · exact hle
    · exact hall e' h

theorem nearestFirst_self {es : List Rat} {e : Rat} (h : e ∈ es) : nearestFirst es e = e := by
  have hne : es ≠ [] := List.ne_nil_of_mem h
  have h1 := nearestFirst_le e h
  rw [sub_self] at h1
  have : rabs (0 : Rat) = 0 := by unfold rabs; simp
  rw [this] at h1
  have := rabs_eq_zero h1
  linarith

/-! ### first arg-max -/

theorem argmaxFirst_lt : ∀ (l : List Rat), l ≠ [] → argmaxFirst l < l.length
  | [], h => absurd rfl h
  | [_], _ => by simp [argmaxFirst]
  | x :: y :: ys, _ => by
    have ih := argmaxFirst_lt (y :: ys) (by simp)
    unfold argmaxFirst
    dsimp only
    split_ifs
    · simp
    · simp only [List.length_cons] at ih ⊢; omega

theorem argmaxFirst_max : ∀ (l : List Rat) (v : Rat), v ∈ l → v ≤ l.getD (argmaxFirst l) 0
  | [], _, h => by cases h
  | [x], v, h => by
    simp only [List.mem_singleton] at h
    subst h
    simp [argmaxFirst]
  | x :: y :: ys, v, h => by
    have ih := argmaxFirst_max (y :: ys)
    unfold argmaxFirst
    dsimp only
    split_ifs with c
    · simp only [List.getD_cons_zero]
      rcases List.mem_cons.mp h with rfl | h
      · exact le_refl _
      · exact le_trans (ih v h) c
    · rw [List.getD_cons_succ]
      rcases List.mem_cons.mp h with rfl | h
      · exact le_of_lt (not_le.mp c)
      · exact ih v h

end C09
