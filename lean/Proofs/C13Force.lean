/-
  Helper lemmas for C13 (minimum-success repair): counting over `range`, the chosen indices are
  distinct failures, as many as needed, and the lowest ones.
-/
import Proofs.C13Epsilon

namespace C13

/-! force -/

theorem countP_or_disjoint {β : Type} (p q : β → Bool) : ∀ (l : List β), (∀ x ∈ l, ¬ (p x = true ∧ q x = true)) →
    l.countP (fun x => p x || q x) = l.countP p + l.countP q
  | [], _ => by simp
  | x :: xs, h => by
    have ih := countP_or_disjoint p q xs (fun y hy => h y (List.mem_cons_of_mem _ hy))
    have hx := h x (List.mem_cons_self ..)
    simp only [List.countP_cons, ih]
    cases hp : p x <;> cases hq : q x <;> simp_all <;> omega

theorem range_map_getD (l : List Bool) : (List.range l.length).map (fun i => l.getD i false) = l := by
  apply List.ext_getElem
  · simp
  · intro i h1 h2
    simp [List.getD_eq_getElem?_getD] at h1 h2 ⊢
    simp [h2]

theorem numSuccessful_eq (fails : List Bool) :
    numSuccessful fails = (List.range fails.length).countP (fun i => !fails.getD i false) := by
  conv_lhs => rw [numSuccessful, ← range_map_getD fails]
  rw [List.count_eq_countP, List.countP_map]
  apply List.countP_congr
  intro i _
  simp

def failuresIndex (fails : List Bool) : List Nat := (List.range fails.length).filter fun i => fails.getD i false

theorem failuresIndex_length (fails : List Bool) : (failuresIndex fails).length + numSuccessful fails = fails.length := by
  rw [numSuccessful_eq, failuresIndex, ← List.countP_eq_length_filter]
  have := List.length_eq_countP_add_countP (fun i => fails.getD i false) (l := List.range fails.length)
  simp only [List.length_range] at this
  have h2 : List.countP (fun a => decide ¬fails.getD a false = true) (List.range fails.length)
      = List.countP (fun i => !fails.getD i false) (List.range fails.length) := by
    apply List.countP_congr
    intro i _
    simp
  omega


def keyLe (vals : List Rat) (i j : Nat) : Bool := decide (vals.getD i 0 ≤ vals.getD j 0)

theorem forcedIndices_eq (vals : List Rat) (fails : List Bool) :
    forcedIndices vals fails =
      if numSuccessful fails < minSuccessful then
        ((failuresIndex fails).mergeSort (keyLe vals)).take (minSuccessful - numSuccessful fails)
      else [] := rfl

theorem mem_failuresIndex (fails : List Bool) (i : Nat) :
    i ∈ failuresIndex fails ↔ i < fails.length ∧ fails.getD i false = true := by
  simp [failuresIndex]

theorem failuresIndex_nodup (fails : List Bool) : (failuresIndex fails).Nodup :=
  List.Nodup.filter _ List.nodup_range

theorem order_nodup (vals : List Rat) (fails : List Bool) :
    ((failuresIndex fails).mergeSort (keyLe vals)).Nodup :=
  (List.mergeSort_perm _ _).nodup_iff.mpr (failuresIndex_nodup fails)

theorem order_pairwise (vals : List Rat) (l : List Nat) : (l.mergeSort (keyLe vals)).Pairwise (fun i j => keyLe vals i j) := by
  apply List.pairwise_mergeSort
  · intro a b c hab hbc
    simp only [keyLe, decide_eq_true_eq] at *
    exact le_trans hab hbc
  · intro a b
    simp only [keyLe, Bool.or_eq_true, decide_eq_true_eq]
    exact le_total _ _

theorem forced_mem (vals : List Rat) (fails : List Bool) (i : Nat) (h : i ∈ forcedIndices vals fails) :
    i < fails.length ∧ fails.getD i false = true := by
  rw [forcedIndices_eq] at h
  split_ifs at h
  · exact (mem_failuresIndex fails i).mp (List.mem_mergeSort.mp (List.mem_of_mem_take h))
  · simp at h

theorem forced_nodup (vals : List Rat) (fails : List Bool) : (forcedIndices vals fails).Nodup := by
  rw [forcedIndices_eq]
  split_ifs
  · exact (order_nodup vals fails).sublist (List.take_sublist _ _)
  · exact List.nodup_nil

theorem forced_length (vals : List Rat) (fails : List Bool) :
    (forcedIndices vals fails).length =
      if numSuccessful fails < minSuccessful then
        min (minSuccessful - numSuccessful fails) (fails.length - numSuccessful fails) else 0 := by
  rw [forcedIndices_eq]
  have := failuresIndex_length fails
  split_ifs
  · rw [List.length_take, List.length_mergeSort]; omega
  · rfl

/-- every un-failed index has a value no larger than any failure left behind -/
theorem forced_lowest (vals : List Rat) (fails : List Bool) (i j : Nat)
    (hi : i ∈ forcedIndices vals fails) (hj : j < fails.length) (hjf : fails.getD j false = true)
    (hjn : j ∉ forcedIndices vals fails) : vals.getD i 0 ≤ vals.getD j 0 := by
  rw [forcedIndices_eq] at hi hjn
  split_ifs at hi hjn with hlt
  · set order := (failuresIndex fails).mergeSort (keyLe vals) with ho
    set d := minSuccessful - numSuccessful fails
    have hjo : j ∈ order := List.mem_mergeSort.mpr ((mem_failuresIndex fails j).mpr ⟨hj, hjf⟩)
    rw [← List.take_append_drop d order] at hjo
    have hjd : j ∈ order.drop d := by
      rcases List.mem_append.mp hjo with h | h
      · exact absurd h hjn
      · exact h
    have hp := order_pairwise vals (failuresIndex fails)
    rw [← ho, ← List.take_append_drop d order, List.pairwise_append] at hp
    have := hp.2.2 i hi j hjd
    simpa [keyLe] using this
  · simp at hi

theorem countP_forced (vals : List Rat) (fails : List Bool) :
    (failuresIndex fails).countP (fun i => (forcedIndices vals fails).contains i) = (forcedIndices vals fails).length := by
  rw [forcedIndices_eq]
  split_ifs with hlt
  · set order := (failuresIndex fails).mergeSort (keyLe vals) with ho
    set d := minSuccessful - numSuccessful fails
    rw [← (List.mergeSort_perm (failuresIndex fails) (keyLe vals)).countP_eq, ← ho]
    have hc : ∀ p : Nat → Bool, order.countP p = (order.take d).countP p + (order.drop d).countP p := by
      intro p; rw [← List.countP_append, List.take_append_drop]
    rw [hc]
    have hnd := order_nodup vals fails
    rw [← ho, ← List.take_append_drop d order, List.nodup_append] at hnd
    have h1 : (order.take d).countP (fun i => (order.take d).contains i) = (order.take d).length := by
      rw [List.countP_eq_length]; intro a ha; simpa using ha
    have h2 : (order.drop d).countP (fun i => (order.take d).contains i) = 0 := by
      rw [List.countP_eq_zero]; intro a ha
      simp only [List.contains_eq_mem, decide_eq_true_eq]
      intro hat
      exact hnd.2.2 a hat a ha rfl
    rw [h1, h2, Nat.add_zero]
  · simp


theorem forceMinSuccess_length (om : Nat) (rows : List (List Rat)) (fails : List Bool) :
    (forceMinSuccess om rows fails).length = fails.length := by
  simp [forceMinSuccess]

theorem forceMinSuccess_getD (om : Nat) (rows : List (List Rat)) (fails : List Bool) (i : Nat) (h : i < fails.length) :
    (forceMinSuccess om rows fails).getD i false =
      (fails.getD i false && !(forcedIndices (col om rows) fails).contains i) := by
  simp [forceMinSuccess, List.getD_eq_getElem?_getD, h]

theorem numSuccessful_force (om : Nat) (rows : List (List Rat)) (fails : List Bool) :
    numSuccessful (forceMinSuccess om rows fails) =
      numSuccessful fails + (forcedIndices (col om rows) fails).length := by
  set ch := forcedIndices (col om rows) fails with hch
  have h1 : numSuccessful (forceMinSuccess om rows fails) =
      (List.range fails.length).countP (fun i => (!fails.getD i false) || (fails.getD i false && ch.contains i)) := by
    rw [numSuccessful, forceMinSuccess, List.count_eq_countP, List.countP_map]
    apply List.countP_congr
    intro i _
    simp only [Function.comp, ← hch]
    cases fails.getD i false <;> cases ch.contains i <;> simp
  rw [h1, countP_or_disjoint _ _ _ (by intro x _; cases fails.getD x false <;> simp), ← numSuccessful_eq,
    ← countP_forced (col om rows) fails, failuresIndex, List.countP_filter]
  congr 1
  apply List.countP_congr
  intro i _
  simp [Bool.and_comm, hch]

end C13
