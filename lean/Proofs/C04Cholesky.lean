/-
  Existence of the Cholesky factorisation of a real positive definite matrix over `Fin n`, in the form the
  log-likelihood theorems of C04 take as a hypothesis: `K = L Lᵀ`, `L` lower triangular with positive diagonal.
  Obtained from Mathlib's LDL decomposition (`Mathlib.Analysis.Matrix.LDL`): `L = lower · diag(√D)`, signs of the
  columns fixed so that the diagonal is positive.
-/
import Mathlib.Analysis.Matrix.LDL
import Mathlib.LinearAlgebra.Matrix.Block
import Mathlib.LinearAlgebra.Matrix.PosDef
import Mathlib.LinearAlgebra.Matrix.NonsingularInverse
import Mathlib.Analysis.SpecialFunctions.Sqrt
import Mathlib.Algebra.Order.Star.Real
import Mathlib.Tactic.Ring
import Mathlib.Tactic.Linarith

namespace C04
open Matrix

/-- a lower triangular non-singular factor can be given a positive diagonal by flipping signs of columns -/
theorem cholesky_of_factor {n : ℕ} (N : Matrix (Fin n) (Fin n) ℝ) (hN : ∀ i j, i < j → N i j = 0)
    (hdet : N.det ≠ 0) :
    ∃ L : Matrix (Fin n) (Fin n) ℝ, N * Nᵀ = L * Lᵀ ∧ (∀ i j, i < j → L i j = 0) ∧ ∀ i, 0 < L i i := by
  have hdiag : ∀ i, N i i ≠ 0 := by
    have h : N.det = ∏ i, N i i := det_of_isLowerTriangular N fun i j hij => hN i j hij
    rw [h] at hdet
    exact fun i => (Finset.prod_ne_zero_iff.mp hdet) i (Finset.mem_univ i)
  let s : Fin n → ℝ := fun i => if 0 < N i i then 1 else -1
  have hs : ∀ i, s i * s i = 1 := by
    intro i
    by_cases h : 0 < N i i <;> simp [s, h]
  refine ⟨N * diagonal s, ?_, ?_, ?_⟩
  · have h1 : diagonal s * (diagonal s)ᵀ = (1 : Matrix (Fin n) (Fin n) ℝ) := by
      rw [diagonal_transpose, diagonal_mul_diagonal, ← diagonal_one]
      congr 1
      funext i
      exact hs i
    rw [transpose_mul, Matrix.mul_assoc, ← Matrix.mul_assoc (diagonal s), h1, Matrix.one_mul]
  · intro i j hij
    rw [mul_diagonal, hN i j hij, zero_mul]
  · intro i
    rw [mul_diagonal]
    by_cases h : 0 < N i i
    · simp [s, h]
    · have : N i i < 0 := lt_of_le_of_ne (not_lt.mp h) (hdiag i)
      simp only [s, h, if_false]
      linarith

/-- **Cholesky factorisation exists** for every real positive definite matrix over `Fin n` -/
theorem exists_cholesky {n : ℕ} {K : Matrix (Fin n) (Fin n) ℝ} (hK : K.PosDef) :
    ∃ L : Matrix (Fin n) (Fin n) ℝ, K = L * Lᵀ ∧ (∀ i j, i < j → L i j = 0) ∧ ∀ i, 0 < L i i := by
  -- the diagonal of the LDL decomposition is positive
  have hDpd : (LDL.diag hK).PosDef := by
    rw [LDL.diag_eq_lowerInv_conj]
    exact hK.mul_mul_conjTranspose_same (vecMul_injective_of_invertible _)
  have hD : ∀ i, 0 < LDL.diagEntries hK i := by
    rw [LDL.diag] at hDpd
    exact posDef_diagonal_iff.mp hDpd
  -- `lower` is lower triangular
  have hlow : (LDL.lower hK).BlockTriangular OrderDual.toDual := by
    rw [LDL.lower]
    refine blockTriangular_inv_of_blockTriangular ?_
    intro i j hij
    exact LDL.lowerInv_triangular hK (OrderDual.toDual_lt_toDual.mp hij)
  set M := LDL.lower hK with hM
  set D := LDL.diagEntries hK with hDdef
  have hdec : M * diagonal D * Mᵀ = K := by
    have := LDL.lower_conj_diag hK
    rwa [conjTranspose_eq_transpose_of_trivial, LDL.diag] at this
  let N : Matrix (Fin n) (Fin n) ℝ := M * diagonal fun i => Real.sqrt (D i)
  have hNN : N * Nᵀ = K := by
    have h1 : diagonal (fun i => Real.sqrt (D i)) * (diagonal fun i => Real.sqrt (D i))ᵀ = diagonal D := by
      rw [diagonal_transpose, diagonal_mul_diagonal]
      congr 1
      funext i
      exact Real.mul_self_sqrt (hD i).le
    rw [← hdec]
    simp only [N]
    rw [transpose_mul, Matrix.mul_assoc, ← Matrix.mul_assoc (diagonal _), h1, ← Matrix.mul_assoc]
  have hNtri : ∀ i j, i < j → N i j = 0 := by
    intro i j hij
    simp only [N]
    rw [mul_diagonal, hlow (OrderDual.toDual_lt_toDual.mpr hij), zero_mul]
  have hNdet : N.det ≠ 0 := by
    intro h0
    have := hK.det_pos
    rw [← hNN, det_mul, det_transpose, h0, mul_zero] at this
    exact lt_irrefl _ this
  obtain ⟨L, hL, htri, hpos⟩ := cholesky_of_factor N hNtri hNdet
  exact ⟨L, by rw [← hL, hNN], htri, hpos⟩

/-- the Cholesky factor of a positive definite matrix (chosen; `0` for a matrix that is not positive definite) -/
noncomputable def cholFactor {n : ℕ} (K : Matrix (Fin n) (Fin n) ℝ) : Matrix (Fin n) (Fin n) ℝ :=
  open Classical in if h : K.PosDef then Classical.choose (exists_cholesky h) else 0

theorem cholFactor_spec {n : ℕ} {K : Matrix (Fin n) (Fin n) ℝ} (h : K.PosDef) :
    K = cholFactor K * (cholFactor K)ᵀ ∧ (∀ i j, i < j → cholFactor K i j = 0) ∧ ∀ i, 0 < cholFactor K i i := by
  rw [cholFactor, dif_pos h]
  exact Classical.choose_spec (exists_cholesky h)

end C04
