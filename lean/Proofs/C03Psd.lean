/-
  Positive semi-definiteness lemmas for C03: Gram matrices as `Matrix (Fin n) (Fin n) ℝ`,
  quadratic-form criterion, Schur product, diagonal noise, and the Gaussian (square exponential)
  kernel via its power series.
-/
import Model.Kernels
import Proofs.ArithReal
import Proofs.C03Lemmas
import Mathlib.Analysis.Matrix.Order
import Mathlib.LinearAlgebra.Matrix.PosDef
import Mathlib.LinearAlgebra.Matrix.Hadamard
import Mathlib.Analysis.SpecialFunctions.Exponential
import Mathlib.Analysis.Normed.Algebra.Exponential
import Mathlib.Topology.Algebra.InfiniteSum.Order
import Mathlib.Topology.Algebra.InfiniteSum.Ring

open Matrix

namespace Kernels

/-- Gram matrix of a two-argument function on a family of points. -/
def gramMatrix {P : Type} {n : Nat} (f : P → P → ℝ) (pts : Fin n → P) : Matrix (Fin n) (Fin n) ℝ :=
  Matrix.of fun i j => f (pts i) (pts j)

@[simp] theorem gramMatrix_apply {P : Type} {n : Nat} (f : P → P → ℝ) (pts : Fin n → P) (i j : Fin n) :
    gramMatrix f pts i j = f (pts i) (pts j) := rfl

/-- A real symmetric matrix with non-negative quadratic form is positive semi-definite. -/
theorem psd_of_quadform {n : Nat} (M : Matrix (Fin n) (Fin n) ℝ) (hs : ∀ i j, M i j = M j i)
    (hq : ∀ c : Fin n → ℝ, 0 ≤ ∑ i, ∑ j, c i * M i j * c j) : M.PosSemidef := by
  refine Matrix.PosSemidef.of_dotProduct_mulVec_nonneg ?_ ?_
  · exact Matrix.IsHermitian.ext (fun i j => by simpa using hs j i)
  · intro x
    have := hq x
    simp only [dotProduct, mulVec, star_trivial, Pi.star_apply, Finset.mul_sum]
    refine le_of_le_of_eq this ?_
    refine Finset.sum_congr rfl fun i _ => Finset.sum_congr rfl fun j _ => by ring

theorem quadform_of_psd {n : Nat} {M : Matrix (Fin n) (Fin n) ℝ} (h : M.PosSemidef) (c : Fin n → ℝ) :
    0 ≤ ∑ i, ∑ j, c i * M i j * c j := by
  have := h.dotProduct_mulVec_nonneg c
  simp only [dotProduct, mulVec, star_trivial, Pi.star_apply, Finset.mul_sum] at this
  refine le_of_le_of_eq this ?_
  refine Finset.sum_congr rfl fun i _ => Finset.sum_congr rfl fun j _ => by ring

/-- Conjugation by a diagonal scaling: `M i j = e i * A i j * e j`. -/
theorem psd_diag_conj {n : Nat} {A : Matrix (Fin n) (Fin n) ℝ} (hA : A.PosSemidef) (e : Fin n → ℝ)
    (M : Matrix (Fin n) (Fin n) ℝ) (hM : ∀ i j, M i j = e i * A i j * e j) : M.PosSemidef := by
  refine psd_of_quadform M ?_ ?_
  · intro i j
    have := hA.isHermitian.apply i j
    simp only [star_trivial] at this
    rw [hM, hM, this]; ring
  · intro c
    have := quadform_of_psd hA (fun i => c i * e i)
    refine le_of_le_of_eq this ?_
    refine Finset.sum_congr rfl fun i _ => Finset.sum_congr rfl fun j _ => by rw [hM]; ring

/-- `exp (u i * u j)` is a positive semi-definite matrix: its quadratic form is
    Σ_m (Σ_i c_i u_i^m)² / m!. -/
theorem exp_mul_psd {n : Nat} (u : Fin n → ℝ) :
    (Matrix.of fun i j : Fin n => Real.exp (u i * u j)).PosSemidef := by
  refine psd_of_quadform _ ?_ ?_
  · intro i j; simp [mul_comm]
  · intro c
    have hs : ∀ i j : Fin n,
        HasSum (fun m : ℕ => c i * ((u i * u j) ^ m / (m.factorial : ℝ)) * c j)
          (c i * Real.exp (u i * u j) * c j) := by
      intro i j
      have h := NormedSpace.expSeries_div_hasSum_exp (u i * u j)
      rw [← Real.exp_eq_exp_ℝ] at h
      exact (h.mul_left (c i)).mul_right (c j)
    have hsum : HasSum (fun m : ℕ => ∑ i, ∑ j, c i * ((u i * u j) ^ m / (m.factorial : ℝ)) * c j)
        (∑ i, ∑ j, c i * Real.exp (u i * u j) * c j) :=
      hasSum_sum fun i _ => hasSum_sum fun j _ => hs i j
    have hterm : ∀ m : ℕ, 0 ≤ ∑ i, ∑ j, c i * ((u i * u j) ^ m / (m.factorial : ℝ)) * c j := by
      intro m
      have : ∑ i, ∑ j, c i * ((u i * u j) ^ m / (m.factorial : ℝ)) * c j
          = (∑ i, c i * u i ^ m) ^ 2 / (m.factorial : ℝ) := by
        rw [pow_two, Finset.sum_mul_sum, Finset.sum_div]
        refine Finset.sum_congr rfl fun i _ => ?_
        rw [Finset.sum_div]
        refine Finset.sum_congr rfl fun j _ => ?_
        rw [mul_pow]; ring
      rw [this]; positivity
    have := hasSum_le hterm hasSum_zero hsum
    simpa using this

/-- one-dimensional Gaussian kernel -/
theorem gauss1_psd {n : Nat} (a : Fin n → ℝ) :
    (Matrix.of fun i j : Fin n => Real.exp (-((a i - a j) * (a i - a j)) / 2)).PosSemidef := by
  refine psd_diag_conj (exp_mul_psd a) (fun i => Real.exp (-(a i * a i) / 2)) _ ?_
  intro i j
  simp only [Matrix.of_apply]
  rw [← Real.exp_add, ← Real.exp_add]
  congr 1; ring

/-- d-dimensional Gaussian kernel on already scaled coordinates, by induction on d with the Schur
    product theorem. -/
theorem gauss_psd {n : Nat} (d : Nat) (u : Fin n → Fin d → ℝ) :
    (Matrix.of fun i j : Fin n =>
      Real.exp (-(∑ k, (u i k - u j k) * (u i k - u j k)) / 2)).PosSemidef := by
  induction d with
  | zero =>
    have h := gauss1_psd (n := n) (fun _ => 0)
    convert h using 2
    funext i j; simp
  | succ d ih =>
    have h1 := gauss1_psd (fun i => u i 0)
    have h2 := ih (fun i k => u i k.succ)
    have h := h1.hadamard h2
    have e : (Matrix.of fun i j : Fin n =>
        Real.exp (-(∑ k, (u i k - u j k) * (u i k - u j k)) / 2))
        = (Matrix.of fun i j : Fin n => Real.exp (-((u i 0 - u j 0) * (u i 0 - u j 0)) / 2)) ⊙
          (Matrix.of fun i j : Fin n =>
            Real.exp (-(∑ k : Fin d, (u i k.succ - u j k.succ) * (u i k.succ - u j k.succ)) / 2)) := by
      ext i j
      simp only [Matrix.of_apply, Matrix.hadamard_apply, Fin.sum_univ_succ]
      rw [← Real.exp_add]
      congr 1; ring
    rw [e]; exact h

/-- `r2` on vectors given as functions: the usual weighted squared distance. -/
theorem r2_ofFn {d : Nat} (l x z : Fin d → ℝ) :
    r2 (List.ofFn l) (List.ofFn x) (List.ofFn z) = ∑ k, ((x k - z k) / l k) ^ 2 := by
  induction d with
  | zero => simp
  | succ d ih =>
    simp only [List.ofFn_succ, r2_cons, Fin.sum_univ_succ]
    rw [ih]; ring

/-- Gram matrix of the square exponential profile (alpha = 1) is positive semi-definite, for every
    dimension, all length scales and all points. -/
theorem se_profile_gram_psd {n d : Nat} (l : Fin d → ℝ) (pts : Fin n → Fin d → ℝ) :
    (gramMatrix (fun x z : Fin d → ℝ => phi Kind.se (r2 (List.ofFn l) (List.ofFn x) (List.ofFn z))) pts).PosSemidef := by
  have h := gauss_psd d (fun i k => pts i k / l k)
  have e : gramMatrix (fun x z : Fin d → ℝ => phi Kind.se (r2 (List.ofFn l) (List.ofFn x) (List.ofFn z))) pts
      = Matrix.of fun i j : Fin n =>
          Real.exp (-(∑ k, (pts i k / l k - pts j k / l k) * (pts i k / l k - pts j k / l k)) / 2) := by
    ext i j
    simp only [gramMatrix_apply, Matrix.of_apply, phi, r2_ofFn, Arith.real_exp, two_real]
    congr 1
    have : ∀ k, ((pts i k - pts j k) / l k) ^ 2
        = (pts i k / l k - pts j k / l k) * (pts i k / l k - pts j k / l k) := by
      intro k; rw [sub_div]; ring
    simp only [this]
    ring
  rw [e]; exact h

end Kernels
