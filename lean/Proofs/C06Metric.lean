/-
  C06 helper lemmas, part 2: one preprocessed metric (`metricOf`) — normalisation info is that of the column
  alone, lie is worst, scaled range, sign/order, thresholds.  Everything is inherited from the C12 theorems.
-/
import Proofs.C06Lists
import Properties.C12

namespace C06
open C14 (keepNot overwrite)

/-- the non-failed raw values of stored metric `k` -/
def nonFailed (r : Request) (k : Nat) : List Rat := C12.nonFail (column k r.values) r.fails

theorem rawInfo_eq (r : Request) (k : Nat) : rawInfo r k = C12.infoOf (nonFailed r k) (objective r k) := rfl

theorem rawInfo_skip_iff (r : Request) (k : Nat) : (rawInfo r k).skip = true ↔ nonFailed r k = [] := by
  rw [rawInfo_eq]; exact C12.skip_iff_no_success _ _

theorem nonFailed_nil_congr (r : Request) (k k' : Nat) : nonFailed r k = [] ↔ nonFailed r k' = [] :=
  nonFail_nil_congr _ _ _ (by rw [column_length, column_length])

/-- Skip mode is a property of the failure mask, not of the metric: the contagious `force_skip` of
    `MultiMetricMidpointInfo` never changes a metric's own info. -/
theorem metricInfo_eq (r : Request) (idx : List Nat) (k : Nat) : metricInfo r idx k = rawInfo r k := by
  unfold metricInfo
  by_cases hg : groupSkip r idx = true
  · have hk : (rawInfo r k).skip = true := by
      simp only [groupSkip, List.any_eq_true] at hg
      obtain ⟨k', _, hk'⟩ := hg
      rw [rawInfo_skip_iff] at hk' ⊢
      exact (nonFailed_nil_congr r k' k).mp hk'
    rw [hg, Bool.or_true]
    cases h : rawInfo r k
    simp_all
  · simp only [Bool.not_eq_true] at hg
    rw [hg, Bool.or_false]

/-- the model's group info is literally `MultiMetricMidpointInfo` as modelled (and tied to the code) by C12 -/
theorem group_info_is_multi (r : Request) (idx : List Nat) :
    (group r idx).map (·.info) =
      C12.multi (idx.map fun k => column k r.values) r.fails (idx.map fun k => objective r k) := by
  simp only [group, C12.multi, List.zip_map', List.map_map, List.any_map, Function.comp_def]
  apply List.map_congr_left
  intro k _
  simp only [metricOf, metricInfo, rawInfo, groupSkip]

/-- the whole preprocessed metric depends on the request only through column `k`, the failure mask, the
    objective and the threshold of metric `k` -/
theorem metricOf_frame (r r' : Request) (idx idx' : List Nat) (k : Nat)
    (hv : column k r.values = column k r'.values) (hs : column k r.vars = column k r'.vars)
    (hf : r.fails = r'.fails) (ho : objective r k = objective r' k)
    (ht : r.thresholds.getD k none = r'.thresholds.getD k none) :
    metricOf r idx k = metricOf r' idx' k := by
  have hi : rawInfo r k = rawInfo r' k := by simp only [rawInfo, hv, hf, ho]
  simp only [metricOf, metricInfo_eq, hi, hv, hs, hf, ho, ht]

theorem metricOf_index (r : Request) (idx : List Nat) (k : Nat) : (metricOf r idx k).index = k := rfl

theorem metricOf_info (r : Request) (idx : List Nat) (k : Nat) : (metricOf r idx k).info = rawInfo r k :=
  metricInfo_eq r idx k

theorem metricOf_lie (r : Request) (idx : List Nat) (k : Nat) :
    (metricOf r idx k).lie = C12.fwd (rawInfo r k) (C12.lieOf (nonFailed r k) (objective r k) .cmin) := by
  simp only [metricOf, metricInfo_eq]; rfl

theorem metricOf_values (r : Request) (idx : List Nat) (k : Nat) :
    (metricOf r idx k).values =
      overwrite (metricOf r idx k).lie ((column k r.values).map (C12.fwd (rawInfo r k))) r.fails := by
  simp only [metricOf, metricInfo_eq]

theorem metricOf_vars (r : Request) (idx : List Nat) (k : Nat) :
    (metricOf r idx k).vars = (column k r.vars).map (C12.fwdVar (rawInfo r k)) := by
  simp only [metricOf, metricInfo_eq]

theorem metricOf_threshold (r : Request) (idx : List Nat) (k : Nat) :
    (metricOf r idx k).threshold = (r.thresholds.getD k none).map (C12.fwd (rawInfo r k)) := by
  simp only [metricOf, metricInfo_eq]

theorem metricOf_values_length (r : Request) (idx : List Nat) (k : Nat) :
    (metricOf r idx k).values.length = r.values.length := by
  rw [metricOf_values, overwrite_length, List.length_map, column_length]

theorem metricOf_vars_length (r : Request) (idx : List Nat) (k : Nat) :
    (metricOf r idx k).vars.length = r.vars.length := by
  rw [metricOf_vars, List.length_map, column_length]

/-- **lie is worst**: no entry of the scaled column exceeds the scaled lie -/
theorem metricOf_le_lie (r : Request) (idx : List Nat) (k : Nat) (hl : r.values.length ≤ r.fails.length) :
    ∀ v ∈ (metricOf r idx k).values, v ≤ (metricOf r idx k).lie := by
  intro v hv
  rw [metricOf_values] at hv
  rcases mem_overwrite_map _ _ _ _ (by rw [column_length]; exact hl) v hv with h | ⟨y, hy, rfl⟩
  · exact le_of_eq h
  · rw [metricOf_lie, rawInfo_eq]
    change y ∈ nonFailed r k at hy
    cases hnf : nonFailed r k with
    | nil => rw [hnf] at hy; cases hy
    | cons x xs =>
      rw [hnf] at hy
      exact (C12.lie_is_worst x xs (objective r k)).2.2 y hy

/-- failed observations carry exactly the lie -/
theorem metricOf_failed_is_lie (r : Request) (idx : List Nat) (k : Nat) (i : Nat) (hi : i < r.values.length)
    (hf : r.fails.getD i false = true) : (metricOf r idx k).values.getD i 0 = (metricOf r idx k).lie := by
  rw [metricOf_values, overwrite_getD _ _ _ _ (by rw [List.length_map, column_length]; exact hi), hf, if_pos rfl]

/-- non-failed observations carry the scaled raw value -/
theorem metricOf_ok_is_fwd (r : Request) (idx : List Nat) (k : Nat) (i : Nat) (hi : i < r.values.length)
    (hf : r.fails.getD i false = false) :
    (metricOf r idx k).values.getD i 0 = C12.fwd (rawInfo r k) ((column k r.values).getD i 0) := by
  rw [metricOf_values, overwrite_getD _ _ _ _ (by rw [List.length_map, column_length]; exact hi), hf]
  simp only [Bool.false_eq_true, if_false, List.getD_eq_getElem?_getD, List.getElem?_map]
  have : i < (column k r.values).length := by rw [column_length]; exact hi
  simp [List.getElem?_eq_getElem this]

/-- the metric is non-degenerate: it has a non-failed value and their half-width reaches the minimum -/
def NonDegenerate (r : Request) (k : Nat) : Prop :=
  match nonFailed r k with
  | [] => False
  | x :: xs => ¬ ((C12.lmax x xs - C12.lmin x xs) * (1 / 2) < C12.minHalfWidth)

/-- **scaled range**: a non-degenerate metric lives in [-0.1, 0.1] and its lie is exactly 0.1 -/
theorem metricOf_range (r : Request) (idx : List Nat) (k : Nat) (hl : r.values.length ≤ r.fails.length)
    (hnd : NonDegenerate r k) :
    (metricOf r idx k).lie = 1 / 10 ∧
    ∀ v ∈ (metricOf r idx k).values, -(1 / 10) ≤ v ∧ v ≤ 1 / 10 := by
  unfold NonDegenerate at hnd
  cases hnf : nonFailed r k with
  | nil => rw [hnf] at hnd; exact hnd.elim
  | cons x xs =>
    rw [hnf] at hnd
    simp only at hnd
    have hlie : (metricOf r idx k).lie = 1 / 10 := by
      rw [metricOf_lie, rawInfo_eq, hnf]
      obtain ⟨emax, emin⟩ := C12.span_extremes x xs (objective r k) hnd
      cases ho : objective r k
      · rw [ho] at emin; simpa [C12.lieOf, C12.negateOf] using emin
      · rw [ho] at emax; simpa [C12.lieOf, C12.negateOf] using emax
    refine ⟨hlie, fun v hv => ?_⟩
    have hle := metricOf_le_lie r idx k hl v hv
    rw [metricOf_values] at hv
    rcases mem_overwrite_map _ _ _ _ (by rw [column_length]; exact hl) v hv with h | ⟨y, hy, rfl⟩
    · rw [h, hlie]; constructor <;> norm_num
    · change y ∈ nonFailed r k at hy
      rw [hnf] at hy
      rw [rawInfo_eq, hnf]
      exact C12.span_exact x xs (objective r k) hnd y hy

end C06
