/-
  Helper lemmas for C04, part 7: the gradient of the log marginal likelihood for every n.
  Jacobi's formula, d log det, the derivative of the matrix inverse, the quadratic form in the inverse,
  the Cholesky link, and the bridge to the list model of Model/C04.lean.
-/
import Model.C04
import Proofs.ArithReal
import Proofs.C04Lists
import Proofs.C16Real
import Mathlib.Algebra.BigOperators.Fin
import Mathlib.Data.List.OfFn
import Mathlib.LinearAlgebra.Matrix.NonsingularInverse
import Mathlib.LinearAlgebra.Matrix.Adjugate
import Mathlib.LinearAlgebra.Matrix.Trace
import Mathlib.LinearAlgebra.Matrix.Block
import Mathlib.LinearAlgebra.Matrix.PosDef
import Mathlib.Analysis.Matrix.PosDef
import Mathlib.LinearAlgebra.Matrix.Notation
import Mathlib.LinearAlgebra.Matrix.Determinant.Basic
import Mathlib.Analysis.Calculus.Deriv.Basic
import Mathlib.Analysis.Calculus.Deriv.Add
import Mathlib.Analysis.Calculus.Deriv.Mul
import Mathlib.Analysis.Calculus.Deriv.Inv
import Mathlib.Analysis.SpecialFunctions.Log.Deriv
import Mathlib.Analysis.SpecialFunctions.ExpDeriv
import Mathlib.Analysis.Calculus.Deriv.Comp
import Mathlib.Tactic.Ring
import Mathlib.Tactic.Linarith
import Mathlib.Tactic.FieldSimp
import Mathlib.Tactic.FinCases
import Mathlib.Tactic.NormNum
import Mathlib.Tactic.Positivity

namespace C04
open Matrix

variable {n : ℕ}

/-! ### 1. Jacobi's formula -/

/-- Leibniz expansion of the determinant with one column replaced -/
theorem det_updateCol_sum (A : Matrix (Fin n) (Fin n) ℝ) (i : Fin n) (c : Fin n → ℝ) :
    (A.updateCol i c).det
      = ∑ σ : Equiv.Perm (Fin n), ((Equiv.Perm.sign σ : ℤ) : ℝ) * ((∏ j ∈ Finset.univ.erase i, A (σ j) j) * c (σ i)) := by
  rw [Matrix.det_apply']
  refine Finset.sum_congr rfl fun σ _ => ?_
  congr 1
  rw [← Finset.prod_erase_mul _ _ (Finset.mem_univ i)]
  congr 1
  · refine Finset.prod_congr rfl fun j hj => ?_
    rw [Matrix.updateCol_ne (Finset.ne_of_mem_erase hj)]
  · rw [Matrix.updateCol_self]

/-- the derivative of the determinant, column by column -/
theorem det_hasDerivAt_cols {K : ℝ → Matrix (Fin n) (Fin n) ℝ} {K' : Matrix (Fin n) (Fin n) ℝ} {θ : ℝ}
    (hK : ∀ i j, HasDerivAt (fun t => K t i j) (K' i j) θ) :
    HasDerivAt (fun t => (K t).det) (∑ i, ((K θ).updateCol i fun k => K' k i).det) θ := by
  have hfun : (fun t => (K t).det)
      = fun t => ∑ σ : Equiv.Perm (Fin n), ((Equiv.Perm.sign σ : ℤ) : ℝ) * ∏ i, K t (σ i) i := by
    funext t; rw [Matrix.det_apply']
  rw [hfun]
  have hprod : ∀ σ : Equiv.Perm (Fin n), HasDerivAt (fun t => ∏ i, K t (σ i) i)
      (∑ i, (∏ j ∈ Finset.univ.erase i, K θ (σ j) j) • K' (σ i) i) θ := fun σ =>
    HasDerivAt.fun_finsetProd fun i _ => hK (σ i) i
  have hsum : HasDerivAt (fun t => ∑ σ : Equiv.Perm (Fin n), ((Equiv.Perm.sign σ : ℤ) : ℝ) * ∏ i, K t (σ i) i)
      (∑ σ : Equiv.Perm (Fin n), ((Equiv.Perm.sign σ : ℤ) : ℝ) *
        ∑ i, (∏ j ∈ Finset.univ.erase i, K θ (σ j) j) • K' (σ i) i) θ := by
    refine HasDerivAt.fun_sum fun σ _ => ?_
    exact (hprod σ).const_mul _
  refine hsum.congr_deriv ?_
  simp only [det_updateCol_sum, Finset.mul_sum, smul_eq_mul]
  rw [Finset.sum_comm]

/-- **Jacobi's formula**: `d det K = tr(adj(K) · dK)` -/
theorem det_hasDerivAt {K : ℝ → Matrix (Fin n) (Fin n) ℝ} {K' : Matrix (Fin n) (Fin n) ℝ} {θ : ℝ}
    (hK : ∀ i j, HasDerivAt (fun t => K t i j) (K' i j) θ) :
    HasDerivAt (fun t => (K t).det) (Matrix.trace (Matrix.adjugate (K θ) * K')) θ := by
  refine (det_hasDerivAt_cols hK).congr_deriv ?_
  simp only [Matrix.trace, Matrix.diag_apply]
  refine Finset.sum_congr rfl fun i _ => ?_
  rw [← Matrix.cramer_apply, Matrix.cramer_eq_adjugate_mulVec]
  rfl

/-! ### 2. log det -/

theorem trace_inv_mul (A B : Matrix (Fin n) (Fin n) ℝ) :
    Matrix.trace (A⁻¹ * B) = (A.det)⁻¹ * Matrix.trace (A.adjugate * B) := by
  rw [Matrix.inv_def, Ring.inverse_eq_inv', Matrix.smul_mul, Matrix.trace_smul, smul_eq_mul]

/-- `d log det K = tr(K⁻¹ · dK)` -/
theorem logdet_hasDerivAt {K : ℝ → Matrix (Fin n) (Fin n) ℝ} {K' : Matrix (Fin n) (Fin n) ℝ} {θ : ℝ}
    (hK : ∀ i j, HasDerivAt (fun t => K t i j) (K' i j) θ) (hpos : 0 < (K θ).det) :
    HasDerivAt (fun t => Real.log (K t).det) (Matrix.trace ((K θ)⁻¹ * K')) θ := by
  have := (det_hasDerivAt hK).log hpos.ne'
  refine this.congr_deriv ?_
  rw [trace_inv_mul, div_eq_inv_mul]

/-! ### 3. the inverse -/

theorem updateRow_hasDerivAt {K : ℝ → Matrix (Fin n) (Fin n) ℝ} {K' : Matrix (Fin n) (Fin n) ℝ} {θ : ℝ}
    (hK : ∀ i j, HasDerivAt (fun t => K t i j) (K' i j) θ) (j : Fin n) (c : Fin n → ℝ) (a b : Fin n) :
    HasDerivAt (fun t => ((K t).updateRow j c) a b) ((K'.updateRow j 0) a b) θ := by
  by_cases h : a = j
  · subst h
    simp only [Matrix.updateRow_self, Pi.zero_apply]
    exact hasDerivAt_const _ _
  · simp only [Matrix.updateRow_ne h]
    exact hK a b

/-- every entry of the adjugate is differentiable -/
theorem adjugate_entry_hasDerivAt {K : ℝ → Matrix (Fin n) (Fin n) ℝ} {K' : Matrix (Fin n) (Fin n) ℝ} {θ : ℝ}
    (hK : ∀ i j, HasDerivAt (fun t => K t i j) (K' i j) θ) (i j : Fin n) :
    HasDerivAt (fun t => (K t).adjugate i j)
      (Matrix.trace (Matrix.adjugate ((K θ).updateRow j (Pi.single i 1)) * K'.updateRow j 0)) θ := by
  have := det_hasDerivAt (updateRow_hasDerivAt hK j (Pi.single i 1))
  simpa only [Matrix.adjugate_apply] using this

/-- every entry of the inverse is differentiable where the determinant does not vanish -/
theorem inv_entry_differentiable {K : ℝ → Matrix (Fin n) (Fin n) ℝ} {K' : Matrix (Fin n) (Fin n) ℝ} {θ : ℝ}
    (hK : ∀ i j, HasDerivAt (fun t => K t i j) (K' i j) θ) (hdet : (K θ).det ≠ 0) :
    ∃ D : Matrix (Fin n) (Fin n) ℝ, ∀ i j, HasDerivAt (fun t => (K t)⁻¹ i j) (D i j) θ := by
  have h : ∀ i j, ∃ d, HasDerivAt (fun t => (K t)⁻¹ i j) d θ := by
    intro i j
    have h1 := ((det_hasDerivAt hK).inv hdet).mul (adjugate_entry_hasDerivAt hK i j)
    refine ⟨_, h1.congr_of_eventuallyEq (Filter.Eventually.of_forall fun t => ?_)⟩
    simp only [Matrix.inv_def, Ring.inverse_eq_inv', Matrix.smul_apply, smul_eq_mul, Pi.mul_apply, Pi.inv_apply]
  choose D hD using h
  exact ⟨Matrix.of D, hD⟩

/-- an entry of a product of entrywise differentiable matrices -/
theorem mul_entry_hasDerivAt {A B : ℝ → Matrix (Fin n) (Fin n) ℝ} {A' B' : Matrix (Fin n) (Fin n) ℝ} {θ : ℝ}
    (hA : ∀ i j, HasDerivAt (fun t => A t i j) (A' i j) θ)
    (hB : ∀ i j, HasDerivAt (fun t => B t i j) (B' i j) θ) (i j : Fin n) :
    HasDerivAt (fun t => (A t * B t) i j) ((A' * B θ + A θ * B') i j) θ := by
  have : HasDerivAt (fun t => ∑ k, A t i k * B t k j) (∑ k, (A' i k * B θ k j + A θ i k * B' k j)) θ :=
    HasDerivAt.fun_sum fun k _ => (hA i k).mul (hB k j)
  refine this.congr_deriv ?_
  simp only [Matrix.add_apply, Matrix.mul_apply, Finset.sum_add_distrib]

/-- **derivative of the inverse**: `d(K⁻¹) = −K⁻¹ · dK · K⁻¹` -/
theorem inv_hasDerivAt {K : ℝ → Matrix (Fin n) (Fin n) ℝ} {K' : Matrix (Fin n) (Fin n) ℝ} {θ : ℝ}
    (hK : ∀ i j, HasDerivAt (fun t => K t i j) (K' i j) θ) (hdet : (K θ).det ≠ 0) (i j : Fin n) :
    HasDerivAt (fun t => (K t)⁻¹ i j) ((-((K θ)⁻¹ * K' * (K θ)⁻¹)) i j) θ := by
  obtain ⟨D, hD⟩ := inv_entry_differentiable hK hdet
  have hev : ∀ᶠ t in nhds θ, (K t).det ≠ 0 := (det_hasDerivAt hK).continuousAt.eventually_ne hdet
  have hzero : K' * (K θ)⁻¹ + K θ * D = 0 := by
    ext a b
    have h1 := mul_entry_hasDerivAt hK hD a b
    have h2 : HasDerivAt (fun _ : ℝ => (1 : Matrix (Fin n) (Fin n) ℝ) a b) ((K' * (K θ)⁻¹ + K θ * D) a b) θ := by
      refine h1.congr_of_eventuallyEq ?_
      filter_upwards [hev] with t ht
      rw [Matrix.mul_nonsing_inv _ (isUnit_iff_ne_zero.mpr ht)]
    exact h2.unique (hasDerivAt_const θ _)
  have hD' : D = -((K θ)⁻¹ * K' * (K θ)⁻¹) := by
    have hu : IsUnit (K θ).det := isUnit_iff_ne_zero.mpr hdet
    have h3 : K θ * D = -(K' * (K θ)⁻¹) := eq_neg_of_add_eq_zero_right hzero
    calc D = (K θ)⁻¹ * (K θ * D) := by rw [← Matrix.mul_assoc, Matrix.nonsing_inv_mul _ hu, Matrix.one_mul]
      _ = -((K θ)⁻¹ * K' * (K θ)⁻¹) := by rw [h3, Matrix.mul_neg, Matrix.mul_assoc]
  rw [← hD']
  exact hD i j

/-- a bilinear form in an entrywise differentiable matrix -/
theorem bilin_hasDerivAt {M : ℝ → Matrix (Fin n) (Fin n) ℝ} {M' : Matrix (Fin n) (Fin n) ℝ} {θ : ℝ}
    (hM : ∀ i j, HasDerivAt (fun t => M t i j) (M' i j) θ) (u v : Fin n → ℝ) :
    HasDerivAt (fun t => u ⬝ᵥ (M t *ᵥ v)) (u ⬝ᵥ (M' *ᵥ v)) θ := by
  simp only [dotProduct, Matrix.mulVec]
  exact HasDerivAt.fun_sum fun i _ => (HasDerivAt.fun_sum fun j _ => (hM i j).mul_const (v j)).const_mul (u i)

/-- **quadratic form in the inverse** -/
theorem invQuad_hasDerivAt {K : ℝ → Matrix (Fin n) (Fin n) ℝ} {K' : Matrix (Fin n) (Fin n) ℝ} {θ : ℝ}
    (hK : ∀ i j, HasDerivAt (fun t => K t i j) (K' i j) θ) (hdet : (K θ).det ≠ 0) (r : Fin n → ℝ) :
    HasDerivAt (fun t => r ⬝ᵥ ((K t)⁻¹ *ᵥ r))
      (-((((K θ)⁻¹)ᵀ *ᵥ r) ⬝ᵥ (K' *ᵥ ((K θ)⁻¹ *ᵥ r)))) θ := by
  refine (bilin_hasDerivAt (inv_hasDerivAt hK hdet) r r).congr_deriv ?_
  rw [Matrix.neg_mulVec, dotProduct_neg, Matrix.mulVec_transpose, ← Matrix.dotProduct_mulVec,
    Matrix.mulVec_mulVec, Matrix.mulVec_mulVec, Matrix.mul_assoc]

/-- symmetric `K θ`: with `a = K⁻¹ r` the derivative is `−a·(dK a)` -/
theorem invQuad_hasDerivAt_symm {K : ℝ → Matrix (Fin n) (Fin n) ℝ} {K' : Matrix (Fin n) (Fin n) ℝ} {θ : ℝ}
    (hK : ∀ i j, HasDerivAt (fun t => K t i j) (K' i j) θ) (hdet : (K θ).det ≠ 0) (hsymm : (K θ).IsSymm)
    (r : Fin n → ℝ) :
    HasDerivAt (fun t => r ⬝ᵥ ((K t)⁻¹ *ᵥ r))
      (-(((K θ)⁻¹ *ᵥ r) ⬝ᵥ (K' *ᵥ ((K θ)⁻¹ *ᵥ r)))) θ := by
  have := invQuad_hasDerivAt hK hdet r
  rwa [hsymm.inv.eq] at this

/-! ### 4. the zero-mean log marginal likelihood -/

theorem loglikMatrix_hasDerivAt {K : ℝ → Matrix (Fin n) (Fin n) ℝ} {K' : Matrix (Fin n) (Fin n) ℝ} {θ : ℝ}
    (hK : ∀ i j, HasDerivAt (fun t => K t i j) (K' i j) θ) (hpos : 0 < (K θ).det) (hsymm : (K θ).IsSymm)
    (s : ℝ) (r : Fin n → ℝ) :
    HasDerivAt (fun t => -s * (r ⬝ᵥ ((K t)⁻¹ *ᵥ r) + Real.log (K t).det))
      (-s * (-(((K θ)⁻¹ *ᵥ r) ⬝ᵥ (K' *ᵥ ((K θ)⁻¹ *ᵥ r))) + Matrix.trace ((K θ)⁻¹ * K'))) θ :=
  ((invQuad_hasDerivAt_symm hK hpos.ne' hsymm r).add (logdet_hasDerivAt hK hpos)).const_mul (-s)

/-! ### 5. the Cholesky factor -/

theorem logdet_cholesky (L : Matrix (Fin n) (Fin n) ℝ) (hL : ∀ i j, i < j → L i j = 0) (hpos : ∀ i, 0 < L i i) :
    Real.log (L * Lᵀ).det = 2 * ∑ i, Real.log (L i i) := by
  have hdet : L.det = ∏ i, L i i := Matrix.det_of_isLowerTriangular L fun i j hij => hL i j hij
  have hne : (∏ i, L i i) ≠ 0 := Finset.prod_ne_zero_iff.mpr fun i _ => (hpos i).ne'
  rw [Matrix.det_mul, Matrix.det_transpose, hdet, Real.log_mul hne hne,
    Real.log_prod fun i _ => (hpos i).ne']
  ring

theorem det_cholesky_pos (L : Matrix (Fin n) (Fin n) ℝ) (hL : ∀ i j, i < j → L i j = 0) (hpos : ∀ i, 0 < L i i) :
    0 < (L * Lᵀ).det := by
  have hdet : L.det = ∏ i, L i i := Matrix.det_of_isLowerTriangular L fun i j hij => hL i j hij
  rw [Matrix.det_mul, Matrix.det_transpose, hdet]
  have : 0 < ∏ i, L i i := Finset.prod_pos fun i _ => hpos i
  exact mul_pos this this

/-! ### 6. bridge to the list model of Model/C04.lean -/

/-- a matrix as the list of its rows -/
def ofFnM {m k : ℕ} (M : Matrix (Fin m) (Fin k) ℝ) : List (List ℝ) :=
  List.ofFn fun i => List.ofFn fun j => M i j

theorem sum_ofFn {m : ℕ} (f : Fin m → ℝ) : Arith.sum (List.ofFn f) = ∑ i, f i := by
  rw [C16.sum_real, List.sum_ofFn]

theorem dot_ofFn : ∀ {m : ℕ} (u v : Fin m → ℝ), dot (List.ofFn u) (List.ofFn v) = u ⬝ᵥ v
  | 0, u, v => by simp [dotProduct]
  | m + 1, u, v => by
    rw [List.ofFn_succ, List.ofFn_succ, dot_cons, dot_ofFn]
    simp only [dotProduct, Fin.sum_univ_succ]

theorem matVec_ofFnM {m k : ℕ} (M : Matrix (Fin m) (Fin k) ℝ) (v : Fin k → ℝ) :
    matVec (ofFnM M) (List.ofFn v) = List.ofFn (M *ᵥ v) := by
  rw [matVec, ofFnM, List.map_ofFn]
  congr 1
  funext i
  simp only [Function.comp_apply, dot_ofFn]
  rfl

theorem column_ofFnM {m k : ℕ} (M : Matrix (Fin m) (Fin k) ℝ) (d : Fin k) :
    column (ofFnM M) d = List.ofFn fun i => M i d := by
  rw [column, ofFnM, List.map_ofFn]
  congr 1
  funext i
  simp [List.getD_eq_getElem?_getD]

theorem mapIdx_ofFn {β : Type} {m : ℕ} (f : Fin m → List ℝ) (g : ℕ → List ℝ → β) :
    (List.ofFn f).mapIdx g = List.ofFn fun i : Fin m => g i (f i) := by
  apply List.ext_getElem
  · simp
  · intro i h1 h2
    simp

theorem traceMul_ofFnM (B D : Matrix (Fin n) (Fin n) ℝ) :
    traceMul (ofFnM B) (ofFnM D) = Matrix.trace (B * D) := by
  have hB : ofFnM B = List.ofFn fun i => List.ofFn fun j => B i j := rfl
  rw [traceMul, hB, mapIdx_ofFn, sum_ofFn]
  simp only [Matrix.trace, Matrix.diag_apply, Matrix.mul_apply]
  refine Finset.sum_congr rfl fun i _ => ?_
  rw [column_ofFnM D i, dot_ofFn]
  rfl

theorem loglik_ofFn (s : ℝ) (r a d : Fin n → ℝ) :
    loglik s (List.ofFn r) (List.ofFn a) (List.ofFn d) = -s * (r ⬝ᵥ a + 2 * ∑ i, Real.log (d i)) := by
  rw [loglik, dot_ofFn, List.map_ofFn, sum_ofFn, Kernels.two_real]
  rfl

theorem loglikGradEntry_ofFn (a : Fin n → ℝ) (B dK : Matrix (Fin n) (Fin n) ℝ) :
    loglikGradEntry (List.ofFn a) (ofFnM B) (ofFnM dK) = -(a ⬝ᵥ (dK *ᵥ a)) + Matrix.trace (B * dK) := by
  rw [loglikGradEntry, matVec_ofFnM, dot_ofFn, traceMul_ofFnM]

theorem loglikGrad_ofFn (s : ℝ) (a : Fin n → ℝ) (B dK : Matrix (Fin n) (Fin n) ℝ) :
    (loglikGrad s (List.ofFn a) (ofFnM B) [ofFnM dK] [1]).getD 0 0
      = -s * (-(a ⬝ᵥ (dK *ᵥ a)) + Matrix.trace (B * dK)) := by
  simp only [loglikGrad, List.zipWith_cons_cons, List.zipWith_nil_right, List.getD_cons_zero,
    loglikGradEntry_ofFn]
  exact mul_one _

theorem loglikGrad_ofFn_scale (s c : ℝ) (a : Fin n → ℝ) (B dK : Matrix (Fin n) (Fin n) ℝ) :
    (loglikGrad s (List.ofFn a) (ofFnM B) [ofFnM dK] [c]).getD 0 0
      = -s * (-(a ⬝ᵥ (dK *ᵥ a)) + Matrix.trace (B * dK)) * c := by
  simp only [loglikGrad, List.zipWith_cons_cons, List.zipWith_nil_right, List.getD_cons_zero,
    loglikGradEntry_ofFn]

/-- **the model's gradient entry is the derivative of the model's value** (zero-mean GP, every n):
    near θ the kernel matrix is `L Lᵀ` with `L` lower triangular with positive diagonal. -/
theorem loglik_list_hasDerivAt {K L : ℝ → Matrix (Fin n) (Fin n) ℝ} {K' : Matrix (Fin n) (Fin n) ℝ} {θ : ℝ}
    (hK : ∀ i j, HasDerivAt (fun t => K t i j) (K' i j) θ)
    (hchol : ∀ᶠ t in nhds θ, K t = L t * (L t)ᵀ ∧ (∀ i j, i < j → L t i j = 0) ∧ ∀ i, 0 < L t i i)
    (s : ℝ) (r : Fin n → ℝ) :
    HasDerivAt (fun t => loglik s (List.ofFn r) (List.ofFn ((K t)⁻¹ *ᵥ r)) (List.ofFn fun i => L t i i))
      ((loglikGrad s (List.ofFn ((K θ)⁻¹ *ᵥ r)) (ofFnM (K θ)⁻¹) [ofFnM K'] [1]).getD 0 0) θ := by
  obtain ⟨hθ, htri, hdiag⟩ := hchol.self_of_nhds
  have hpos : 0 < (K θ).det := by rw [hθ]; exact det_cholesky_pos _ htri hdiag
  have hsymm : (K θ).IsSymm := by
    rw [hθ, Matrix.IsSymm, Matrix.transpose_mul, Matrix.transpose_transpose]
  rw [loglikGrad_ofFn]
  refine (loglikMatrix_hasDerivAt hK hpos hsymm s r).congr_of_eventuallyEq ?_
  filter_upwards [hchol] with t ht
  rw [loglik_ofFn, ht.1, logdet_cholesky _ ht.2.1 ht.2.2]

/-! ### 7. polynomial mean: generalized least squares coefficients that depend on θ (envelope argument) -/

section GLS
variable {p : ℕ}

/-- `β = (Pᵀ K⁻¹ P)⁻¹ Pᵀ K⁻¹ y` -/
noncomputable def glsBeta (P : Matrix (Fin n) (Fin p) ℝ) (K : Matrix (Fin n) (Fin n) ℝ) (y : Fin n → ℝ) :
    Fin p → ℝ :=
  (Pᵀ * K⁻¹ * P)⁻¹ *ᵥ (Pᵀ *ᵥ (K⁻¹ *ᵥ y))

/-- `y − Pβ` -/
noncomputable def glsResidual (P : Matrix (Fin n) (Fin p) ℝ) (K : Matrix (Fin n) (Fin n) ℝ) (y : Fin n → ℝ) :
    Fin n → ℝ :=
  y - P *ᵥ glsBeta P K y

/-- the normal equations: `Pᵀ K⁻¹ (y − Pβ) = 0` -/
theorem gls_normal (P : Matrix (Fin n) (Fin p) ℝ) (K : Matrix (Fin n) (Fin n) ℝ) (y : Fin n → ℝ)
    (hG : (Pᵀ * K⁻¹ * P).det ≠ 0) :
    Pᵀ *ᵥ (K⁻¹ *ᵥ glsResidual P K y) = 0 := by
  have hu : IsUnit (Pᵀ * K⁻¹ * P).det := isUnit_iff_ne_zero.mpr hG
  have h1 : Pᵀ *ᵥ (K⁻¹ *ᵥ (P *ᵥ glsBeta P K y)) = Pᵀ *ᵥ (K⁻¹ *ᵥ y) := by
    rw [glsBeta, Matrix.mulVec_mulVec, Matrix.mulVec_mulVec, Matrix.mulVec_mulVec,
      Matrix.mul_nonsing_inv _ hu, Matrix.one_mulVec]
  rw [glsResidual, Matrix.mulVec_sub, Matrix.mulVec_sub, h1, sub_self]

/-- hence the term `2·a·(−P w)` that `include_nonzero_correction` adds to the gradient vanishes identically -/
theorem gls_correction_zero (P : Matrix (Fin n) (Fin p) ℝ) (K : Matrix (Fin n) (Fin n) ℝ) (y : Fin n → ℝ)
    (hG : (Pᵀ * K⁻¹ * P).det ≠ 0) (w : Fin p → ℝ) :
    (K⁻¹ *ᵥ glsResidual P K y) ⬝ᵥ (P *ᵥ w) = 0 := by
  rw [Matrix.dotProduct_mulVec, ← Matrix.mulVec_transpose, gls_normal P K y hG, zero_dotProduct]

theorem const_mulVec_hasDerivAt {m k : ℕ} (P : Matrix (Fin m) (Fin k) ℝ) {v : ℝ → Fin k → ℝ} {v' : Fin k → ℝ}
    {θ : ℝ} (hv : ∀ j, HasDerivAt (fun t => v t j) (v' j) θ) (i : Fin m) :
    HasDerivAt (fun t => (P *ᵥ v t) i) ((P *ᵥ v') i) θ := by
  simp only [Matrix.mulVec, dotProduct]
  exact HasDerivAt.fun_sum fun j _ => (hv j).const_mul (P i j)

theorem mulVec_hasDerivAt {m k : ℕ} {M : ℝ → Matrix (Fin m) (Fin k) ℝ} {M' : Matrix (Fin m) (Fin k) ℝ}
    {v : ℝ → Fin k → ℝ} {v' : Fin k → ℝ} {θ : ℝ}
    (hM : ∀ i j, HasDerivAt (fun t => M t i j) (M' i j) θ) (hv : ∀ j, HasDerivAt (fun t => v t j) (v' j) θ)
    (i : Fin m) :
    HasDerivAt (fun t => (M t *ᵥ v t) i) ((M' *ᵥ v θ + M θ *ᵥ v') i) θ := by
  have : HasDerivAt (fun t => ∑ j, M t i j * v t j) (∑ j, (M' i j * v θ j + M θ i j * v' j)) θ :=
    HasDerivAt.fun_sum fun j _ => (hM i j).mul (hv j)
  refine this.congr_deriv ?_
  simp only [Pi.add_apply, Matrix.mulVec, dotProduct, Finset.sum_add_distrib]

theorem dotProduct_hasDerivAt {m : ℕ} {u v : ℝ → Fin m → ℝ} {u' v' : Fin m → ℝ} {θ : ℝ}
    (hu : ∀ j, HasDerivAt (fun t => u t j) (u' j) θ) (hv : ∀ j, HasDerivAt (fun t => v t j) (v' j) θ) :
    HasDerivAt (fun t => u t ⬝ᵥ v t) (u' ⬝ᵥ v θ + u θ ⬝ᵥ v') θ := by
  have : HasDerivAt (fun t => ∑ j, u t j * v t j) (∑ j, (u' j * v θ j + u θ j * v' j)) θ :=
    HasDerivAt.fun_sum fun j _ => (hu j).mul (hv j)
  refine this.congr_deriv ?_
  simp only [dotProduct, Finset.sum_add_distrib]

theorem sandwich_apply (P : Matrix (Fin n) (Fin p) ℝ) (M : Matrix (Fin n) (Fin n) ℝ) (i j : Fin p) :
    (Pᵀ * M * P) i j = (fun a => P a i) ⬝ᵥ (M *ᵥ fun b => P b j) := by
  simp only [Matrix.mul_apply, Matrix.transpose_apply, dotProduct, Matrix.mulVec, Finset.sum_mul,
    Finset.mul_sum, mul_assoc]
  exact Finset.sum_comm

/-- the GLS coefficients are differentiable in θ -/
theorem glsBeta_differentiable {K : ℝ → Matrix (Fin n) (Fin n) ℝ} {K' : Matrix (Fin n) (Fin n) ℝ} {θ : ℝ}
    (hK : ∀ i j, HasDerivAt (fun t => K t i j) (K' i j) θ) (hdet : (K θ).det ≠ 0)
    (P : Matrix (Fin n) (Fin p) ℝ) (hG : (Pᵀ * (K θ)⁻¹ * P).det ≠ 0) (y : Fin n → ℝ) :
    ∃ β' : Fin p → ℝ, ∀ j, HasDerivAt (fun t => glsBeta P (K t) y j) (β' j) θ := by
  have hM := inv_hasDerivAt hK hdet
  have hGd : ∀ i j, HasDerivAt (fun t => (Pᵀ * (K t)⁻¹ * P) i j)
      ((Pᵀ * (-((K θ)⁻¹ * K' * (K θ)⁻¹)) * P) i j) θ := by
    intro i j
    simp only [sandwich_apply]
    exact bilin_hasDerivAt hM _ _
  obtain ⟨D, hD⟩ := inv_entry_differentiable hGd hG
  have hw : ∀ j, HasDerivAt (fun t => (Pᵀ *ᵥ ((K t)⁻¹ *ᵥ y)) j)
      ((Pᵀ *ᵥ ((-((K θ)⁻¹ * K' * (K θ)⁻¹)) *ᵥ y)) j) θ := by
    refine const_mulVec_hasDerivAt Pᵀ fun i => ?_
    have := mulVec_hasDerivAt hM (fun j => hasDerivAt_const θ (y j)) i
    refine this.congr_deriv ?_
    have h0 : (fun _ : Fin n => (0 : ℝ)) = 0 := rfl
    rw [h0, Matrix.mulVec_zero, add_zero]
  exact ⟨_, fun j => mulVec_hasDerivAt hD hw j⟩

/-- **polynomial mean, every n** — with `β(t)` the GLS coefficients and `r(t) = y − Pβ(t)`,
    `r(t)ᵀK(t)⁻¹r(t) + log det K(t)` has derivative `−aᵀ dK a + tr(K⁻¹ dK)`, `a = K⁻¹ r(θ)`:
    the θ-dependence of β does not contribute (`Pᵀ a = 0`). -/
theorem loglikGLS_hasDerivAt {K : ℝ → Matrix (Fin n) (Fin n) ℝ} {K' : Matrix (Fin n) (Fin n) ℝ} {θ : ℝ}
    (hK : ∀ i j, HasDerivAt (fun t => K t i j) (K' i j) θ) (hpos : 0 < (K θ).det) (hsymm : (K θ).IsSymm)
    (P : Matrix (Fin n) (Fin p) ℝ) (hG : (Pᵀ * (K θ)⁻¹ * P).det ≠ 0) (s : ℝ) (y : Fin n → ℝ) :
    HasDerivAt
      (fun t => -s * (glsResidual P (K t) y ⬝ᵥ ((K t)⁻¹ *ᵥ glsResidual P (K t) y) + Real.log (K t).det))
      (-s * (-(((K θ)⁻¹ *ᵥ glsResidual P (K θ) y) ⬝ᵥ (K' *ᵥ ((K θ)⁻¹ *ᵥ glsResidual P (K θ) y)))
        + Matrix.trace ((K θ)⁻¹ * K'))) θ := by
  have hdet : (K θ).det ≠ 0 := hpos.ne'
  have hM := inv_hasDerivAt hK hdet
  obtain ⟨β', hβ⟩ := glsBeta_differentiable hK hdet P hG y
  have hr : ∀ i, HasDerivAt (fun t => glsResidual P (K t) y i) ((-(P *ᵥ β')) i) θ := by
    intro i
    have := (const_mulVec_hasDerivAt P hβ i).const_sub (y i)
    exact this
  have hq := dotProduct_hasDerivAt hr (mulVec_hasDerivAt hM hr)
  refine ((hq.add (logdet_hasDerivAt hK hpos)).const_mul (-s)).congr_deriv ?_
  congr 2
  set r := glsResidual P (K θ) y with hrdef
  set A := (K θ)⁻¹ with hA
  have hAs : Aᵀ = A := hsymm.inv.eq
  have hn : (A *ᵥ r) ⬝ᵥ (P *ᵥ β') = 0 := gls_correction_zero P (K θ) y hG β'
  have e1 : (-(P *ᵥ β')) ⬝ᵥ (A *ᵥ r) = 0 := by
    rw [neg_dotProduct, dotProduct_comm, hn, neg_zero]
  have e2 : r ⬝ᵥ (A *ᵥ (-(P *ᵥ β'))) = 0 := by
    rw [Matrix.dotProduct_mulVec, ← Matrix.mulVec_transpose, hAs, dotProduct_neg, hn, neg_zero]
  have e3 : r ⬝ᵥ ((-(A * K' * A)) *ᵥ r) = -((A *ᵥ r) ⬝ᵥ (K' *ᵥ (A *ᵥ r))) := by
    have h : r ᵥ* A = A *ᵥ r := by rw [← Matrix.mulVec_transpose, hAs]
    rw [Matrix.neg_mulVec, dotProduct_neg, Matrix.mul_assoc, ← Matrix.mulVec_mulVec, ← Matrix.mulVec_mulVec,
      Matrix.dotProduct_mulVec, h]
  rw [dotProduct_add, e1, e2, e3]
  ring

/-- the model's gradient entry is the derivative of the model's value, polynomial mean included -/
theorem loglik_list_gls_hasDerivAt {K L : ℝ → Matrix (Fin n) (Fin n) ℝ} {K' : Matrix (Fin n) (Fin n) ℝ} {θ : ℝ}
    (hK : ∀ i j, HasDerivAt (fun t => K t i j) (K' i j) θ)
    (hchol : ∀ᶠ t in nhds θ, K t = L t * (L t)ᵀ ∧ (∀ i j, i < j → L t i j = 0) ∧ ∀ i, 0 < L t i i)
    (P : Matrix (Fin n) (Fin p) ℝ) (hG : (Pᵀ * (K θ)⁻¹ * P).det ≠ 0) (s : ℝ) (y : Fin n → ℝ) :
    HasDerivAt
      (fun t => loglik s (List.ofFn (glsResidual P (K t) y)) (List.ofFn ((K t)⁻¹ *ᵥ glsResidual P (K t) y))
        (List.ofFn fun i => L t i i))
      ((loglikGrad s (List.ofFn ((K θ)⁻¹ *ᵥ glsResidual P (K θ) y)) (ofFnM (K θ)⁻¹) [ofFnM K'] [1]).getD 0 0) θ := by
  obtain ⟨hθ, htri, hdiag⟩ := hchol.self_of_nhds
  have hpos : 0 < (K θ).det := by rw [hθ]; exact det_cholesky_pos _ htri hdiag
  have hsymm : (K θ).IsSymm := by
    rw [hθ, Matrix.IsSymm, Matrix.transpose_mul, Matrix.transpose_transpose]
  rw [loglikGrad_ofFn]
  refine (loglikGLS_hasDerivAt hK hpos hsymm P hG s y).congr_of_eventuallyEq ?_
  filter_upwards [hchol] with t ht
  rw [loglik_ofFn, ht.1, logdet_cholesky _ ht.2.1 ht.2.2]

/-- **log domain** (`log_domain=True`): the hyperparameter is `exp u`; the model's entry with
    `logScale = exp u` is the derivative with respect to `u` -/
theorem loglik_list_gls_log_hasDerivAt {K L : ℝ → Matrix (Fin n) (Fin n) ℝ} {K' : Matrix (Fin n) (Fin n) ℝ}
    {u : ℝ} (hK : ∀ i j, HasDerivAt (fun t => K t i j) (K' i j) (Real.exp u))
    (hchol : ∀ᶠ t in nhds (Real.exp u),
      K t = L t * (L t)ᵀ ∧ (∀ i j, i < j → L t i j = 0) ∧ ∀ i, 0 < L t i i)
    (P : Matrix (Fin n) (Fin p) ℝ) (hG : (Pᵀ * (K (Real.exp u))⁻¹ * P).det ≠ 0) (s : ℝ) (y : Fin n → ℝ) :
    HasDerivAt
      (fun v => loglik s (List.ofFn (glsResidual P (K (Real.exp v)) y))
        (List.ofFn ((K (Real.exp v))⁻¹ *ᵥ glsResidual P (K (Real.exp v)) y))
        (List.ofFn fun i => L (Real.exp v) i i))
      ((loglikGrad s (List.ofFn ((K (Real.exp u))⁻¹ *ᵥ glsResidual P (K (Real.exp u)) y))
        (ofFnM (K (Real.exp u))⁻¹) [ofFnM K'] [Real.exp u]).getD 0 0) u := by
  have h := loglik_list_gls_hasDerivAt hK hchol P hG s y
  rw [loglikGrad_ofFn] at h
  rw [loglikGrad_ofFn_scale]
  exact h.comp u (Real.hasDerivAt_exp u)

/-- the hypotheses on `K θ` and `P` follow from positive definiteness and full column rank -/
theorem gls_hyp_of_posDef {K : Matrix (Fin n) (Fin n) ℝ} (hK : K.PosDef) (P : Matrix (Fin n) (Fin p) ℝ)
    (hP : Function.Injective P.mulVec) :
    0 < K.det ∧ K.IsSymm ∧ (Pᵀ * K⁻¹ * P).det ≠ 0 := by
  refine ⟨hK.det_pos, ?_, ?_⟩
  · have := hK.1
    rwa [Matrix.IsHermitian, Matrix.conjTranspose_eq_transpose_of_trivial] at this
  · have h := hK.inv.conjTranspose_mul_mul_same hP
    rw [Matrix.conjTranspose_eq_transpose_of_trivial] at h
    exact h.det_pos.ne'

end GLS

/-! ### non-vacuity: concrete 2 × 2 families satisfying every hypothesis -/

section Example

/-- `K t = [[2 + t, 1], [1, 2]]` at θ = 0 -/
example (s : ℝ) (r : Fin 2 → ℝ) :
    HasDerivAt (fun t : ℝ => -s * (r ⬝ᵥ ((!![2 + t, 1; 1, 2] : Matrix (Fin 2) (Fin 2) ℝ)⁻¹ *ᵥ r)
        + Real.log (!![2 + t, 1; 1, 2] : Matrix (Fin 2) (Fin 2) ℝ).det))
      (-s * (-(((!![2 + 0, 1; 1, 2] : Matrix (Fin 2) (Fin 2) ℝ)⁻¹ *ᵥ r) ⬝ᵥ
          ((!![1, 0; 0, 0] : Matrix (Fin 2) (Fin 2) ℝ) *ᵥ ((!![2 + 0, 1; 1, 2] : Matrix (Fin 2) (Fin 2) ℝ)⁻¹ *ᵥ r)))
        + Matrix.trace ((!![2 + 0, 1; 1, 2] : Matrix (Fin 2) (Fin 2) ℝ)⁻¹ * !![1, 0; 0, 0]))) 0 := by
  refine loglikMatrix_hasDerivAt (K := fun t : ℝ => !![2 + t, 1; 1, 2]) (K' := !![1, 0; 0, 0]) ?_ ?_ ?_ s r
  · intro i j
    fin_cases i <;> fin_cases j
    · simpa using (hasDerivAt_id (0 : ℝ)).const_add 2
    · simpa using hasDerivAt_const (0 : ℝ) (1 : ℝ)
    · simpa using hasDerivAt_const (0 : ℝ) (1 : ℝ)
    · simpa using hasDerivAt_const (0 : ℝ) (2 : ℝ)
  · rw [Matrix.det_fin_two_of]; norm_num
  · ext i j
    fin_cases i <;> fin_cases j <;> rfl

/-- the Cholesky hypothesis of the list-model statement is satisfiable: `L t = [[1 + t, 0], [1, 1]]`,
    `K t = L t (L t)ᵀ = [[(1+t)², 1+t], [1+t, 2]]` at θ = 0 -/
example (s : ℝ) (r : Fin 2 → ℝ) :
    let L : ℝ → Matrix (Fin 2) (Fin 2) ℝ := fun t => !![1 + t, 0; 1, 1]
    let K : ℝ → Matrix (Fin 2) (Fin 2) ℝ := fun t => L t * (L t)ᵀ
    HasDerivAt (fun t => loglik s (List.ofFn r) (List.ofFn ((K t)⁻¹ *ᵥ r)) (List.ofFn fun i => L t i i))
      ((loglikGrad s (List.ofFn ((K 0)⁻¹ *ᵥ r)) (ofFnM (K 0)⁻¹) [ofFnM !![2, 1; 1, 0]] [1]).getD 0 0) 0 := by
  intro L K
  refine loglik_list_hasDerivAt (K := K) (L := L) (K' := !![2, 1; 1, 0]) ?_ ?_ s r
  · intro i j
    have hK : ∀ t, K t = !![(1 + t) * (1 + t), 1 + t; 1 + t, 2] := by
      intro t
      ext a b
      fin_cases a <;> fin_cases b <;> simp [K, L, Matrix.vecMul, dotProduct, Fin.sum_univ_two]
      norm_num
    simp only [hK]
    have h1 : HasDerivAt (fun t : ℝ => 1 + t) 1 0 := (hasDerivAt_id (0 : ℝ)).const_add 1
    fin_cases i <;> fin_cases j
    · show HasDerivAt (fun t : ℝ => (1 + t) * (1 + t)) 2 0
      exact (h1.fun_mul h1).congr_deriv (by norm_num)
    · exact h1
    · exact h1
    · exact hasDerivAt_const (0 : ℝ) (2 : ℝ)
  · have hev : ∀ᶠ t : ℝ in nhds 0, -1 < t := lt_mem_nhds (by norm_num)
    filter_upwards [hev] with t ht
    refine ⟨rfl, ?_, ?_⟩
    · intro i j hij
      fin_cases i <;> fin_cases j <;> simp_all [L]
    · intro i
      fin_cases i <;> simp [L]
      linarith

/-- the hypotheses of the polynomial-mean statement are satisfiable: constant mean (`P` = a column of ones),
    `K t = [[2 + t, 1], [1, 2]]` at θ = 0 -/
example (s : ℝ) (y : Fin 2 → ℝ) :
    let K : ℝ → Matrix (Fin 2) (Fin 2) ℝ := fun t => !![2 + t, 1; 1, 2]
    let P : Matrix (Fin 2) (Fin 1) ℝ := !![1; 1]
    HasDerivAt
      (fun t => -s * (glsResidual P (K t) y ⬝ᵥ ((K t)⁻¹ *ᵥ glsResidual P (K t) y) + Real.log (K t).det))
      (-s * (-(((K 0)⁻¹ *ᵥ glsResidual P (K 0) y) ⬝ᵥ
          ((!![1, 0; 0, 0] : Matrix (Fin 2) (Fin 2) ℝ) *ᵥ ((K 0)⁻¹ *ᵥ glsResidual P (K 0) y)))
        + Matrix.trace ((K 0)⁻¹ * !![1, 0; 0, 0]))) 0 := by
  intro K P
  have hpd : (K 0).PosDef := by
    refine Matrix.PosDef.of_dotProduct_mulVec_pos ?_ fun x hx => ?_
    · ext i j
      fin_cases i <;> fin_cases j <;> simp [K]
    · have hx' : x 0 ≠ 0 ∨ x 1 ≠ 0 := by
        by_contra h
        rw [not_or, not_not, not_not] at h
        exact hx (funext fun i => by fin_cases i <;> simp [h.1, h.2])
      have : star x ⬝ᵥ (K 0 *ᵥ x) = (x 0 + x 1) ^ 2 + x 0 ^ 2 + x 1 ^ 2 := by
        simp [K, dotProduct, Matrix.mulVec, Fin.sum_univ_two]
        ring
      rw [this]
      rcases hx' with h | h <;> positivity
  have hP : Function.Injective P.mulVec := by
    intro u v huv
    have := congrFun huv 0
    simp [P, Matrix.mulVec, dotProduct] at this
    funext i
    fin_cases i
    exact this
  obtain ⟨hpos, hsymm, hG⟩ := gls_hyp_of_posDef hpd P hP
  refine loglikGLS_hasDerivAt (K := K) (K' := !![1, 0; 0, 0]) ?_ hpos hsymm P hG s y
  intro i j
  fin_cases i <;> fin_cases j
  · simpa [K] using (hasDerivAt_id (0 : ℝ)).const_add 2
  · simpa [K] using hasDerivAt_const (0 : ℝ) (1 : ℝ)
  · simpa [K] using hasDerivAt_const (0 : ℝ) (1 : ℝ)
  · simpa [K] using hasDerivAt_const (0 : ℝ) (2 : ℝ)

end Example

end C04
