/-
  Stretch lemmas for C05: the closed form of expected improvement is the Gaussian expectation
  E[max(b − Y, 0)], Y ~ N(μ, v), with Mathlib's `gaussianReal` / `gaussianPDFReal` and the CDF of N(0,1).
-/
import Model.C05
import Proofs.ArithReal
import Mathlib.Probability.Distributions.Gaussian.Real
import Mathlib.Probability.CDF
import Mathlib.MeasureTheory.Integral.IntegralEqImproper

open MeasureTheory ProbabilityTheory Set Filter Topology
open scoped NNReal

namespace C05

/-- the standard normal CDF, as Mathlib's CDF of the Gaussian measure N(0,1) -/
noncomputable def stdNormalCDF (z : ℝ) : ℝ := cdf (gaussianReal 0 1) z

theorem stdNormalCDF_mem_Icc (z : ℝ) : 0 ≤ stdNormalCDF z ∧ stdNormalCDF z ≤ 1 :=
  ⟨cdf_nonneg _ _, cdf_le_one _ _⟩

theorem stdNormalCDF_mono : Monotone stdNormalCDF := monotone_cdf _

theorem pdf_eq_gaussianPDFReal (z : ℝ) :
    pdf (Real.sqrt (2 * Real.pi)) z = gaussianPDFReal 0 1 z := by
  simp only [pdf, gaussianPDFReal, Arith.real_exp, Arith.real_ofNat, NNReal.coe_one, mul_one, sub_zero]
  rw [div_eq_inv_mul]
  congr 2
  push_cast
  ring

/-- antiderivative of `(y - μ)·pdf(y)` -/
theorem hasDerivAt_neg_var_mul_pdf (μ : ℝ) (v : ℝ≥0) (hv : v ≠ 0) (y : ℝ) :
    HasDerivAt (fun y => -(v : ℝ) * gaussianPDFReal μ v y) ((y - μ) * gaussianPDFReal μ v y) y := by
  have hv' : (v : ℝ) ≠ 0 := by exact_mod_cast hv
  have h0 : HasDerivAt (fun y : ℝ => (y - μ) ^ 2) (2 * (y - μ)) y := by
    have := ((hasDerivAt_id' y).sub_const μ).fun_pow 2
    simpa using this
  have h1 : HasDerivAt (fun y : ℝ => -(y - μ) ^ 2 / (2 * v)) (-(2 * (y - μ)) / (2 * v)) y :=
    h0.fun_neg.div_const _
  have h2 := (h1.exp.const_mul ((√(2 * Real.pi * v))⁻¹)).const_mul (-(v:ℝ))
  simp only [gaussianPDFReal]
  refine h2.congr_deriv ?_
  field_simp

theorem tendsto_pdf_atBot (μ : ℝ) (v : ℝ≥0) (hv : v ≠ 0) :
    Tendsto (fun y => -(v : ℝ) * gaussianPDFReal μ v y) atBot (𝓝 0) := by
  have hv' : (0:ℝ) < v := by positivity
  have h1 : Tendsto (fun y : ℝ => y - μ) atBot atBot := tendsto_atBot_add_const_right _ _ tendsto_id
  have h2 : Tendsto (fun y : ℝ => (y - μ) * (y - μ)) atBot atTop := h1.atBot_mul_atBot₀ h1
  have h3 : Tendsto (fun y : ℝ => -((y - μ) * (y - μ)) / (2 * v)) atBot atBot :=
    (tendsto_neg_atTop_atBot.comp h2).atBot_div_const (by positivity)
  have h4 := Real.tendsto_exp_atBot.comp h3
  have h5 := (h4.const_mul ((√(2 * Real.pi * v))⁻¹)).const_mul (-(v:ℝ))
  simp only [mul_zero] at h5
  refine h5.congr ?_
  intro y
  simp only [gaussianPDFReal, Function.comp]
  congr 3
  ring

theorem integrable_sub_mul_pdf (μ : ℝ) (v : ℝ≥0) (hv : v ≠ 0) :
    Integrable (fun y => (y - μ) * gaussianPDFReal μ v y) := by
  have h1 : Integrable (fun y : ℝ => y) (gaussianReal μ v) :=
    memLp_one_iff_integrable.mp (memLp_id_gaussianReal (μ := μ) (v := v) 1)
  rw [gaussianReal_of_var_ne_zero _ hv,
    integrable_withDensity_iff_integrable_smul' (measurable_gaussianPDF μ v)
      (ae_of_all _ fun _ => gaussianPDF_lt_top)] at h1
  simp only [toReal_gaussianPDF, smul_eq_mul] at h1
  have h2 := h1.sub ((integrable_gaussianPDFReal μ v).const_mul μ)
  refine h2.congr (ae_of_all _ fun y => ?_)
  simp only [Pi.sub_apply]
  ring

/-- `P(Y ≤ b) = Φ((b - μ)/σ)` for `Y ~ N(μ, v)`, `σ = √v` -/
theorem gaussian_Iic_eq_stdNormalCDF (b μ : ℝ) (v : ℝ≥0) (hv : v ≠ 0) :
    (gaussianReal μ v).real (Iic b) = stdNormalCDF ((b - μ) / Real.sqrt v) := by
  have hv' : (0:ℝ) < v := by positivity
  have hs : 0 < Real.sqrt v := Real.sqrt_pos.mpr hv'
  have hmap : (gaussianReal μ v).map (fun y => (y - μ) / Real.sqrt v) = gaussianReal 0 1 := by
    have h1 := gaussianReal_map_sub_const (μ := μ) (v := v) μ
    have h2 := gaussianReal_map_div_const (μ := μ - μ) (v := v) (Real.sqrt v)
    have hcomp : (fun y : ℝ => (y - μ) / Real.sqrt v) = (fun y => y / Real.sqrt v) ∘ (fun y => y - μ) := rfl
    rw [hcomp, ← Measure.map_map (by fun_prop) (by fun_prop), h1, h2]
    congr 1
    · simp
    · rw [← NNReal.coe_inj]
      simp only [NNReal.coe_div, NNReal.coe_mk, NNReal.coe_one, Real.sq_sqrt hv'.le]
      exact div_self hv'.ne'
  unfold stdNormalCDF
  rw [cdf_eq_real, ← hmap, measureReal_def, measureReal_def,
    Measure.map_apply (by fun_prop) measurableSet_Iic]
  congr 2
  ext y
  simp only [mem_preimage, mem_Iic]
  rw [div_le_div_iff_of_pos_right hs]
  constructor <;> intro h <;> linarith


theorem integral_max_gaussian (b μ : ℝ) (v : ℝ≥0) (hv : v ≠ 0) :
    ∫ y, max (b - y) 0 ∂(gaussianReal μ v) =
      (b - μ) * (gaussianReal μ v).real (Iic b) + v * gaussianPDFReal μ v b := by
  rw [integral_gaussianReal_eq_integral_smul hv]
  have hpt : ∀ y, gaussianPDFReal μ v y • max (b - y) 0 =
      (Iic b).indicator
        (fun y => (b - μ) * gaussianPDFReal μ v y - (y - μ) * gaussianPDFReal μ v y) y := by
    intro y
    by_cases hy : y ≤ b
    · rw [indicator_of_mem (mem_Iic.mpr hy), max_eq_left (by linarith), smul_eq_mul]; ring
    · rw [indicator_of_notMem (by simpa using hy), max_eq_right (by linarith [not_le.mp hy]),
        smul_zero]
  simp_rw [hpt]
  rw [integral_indicator measurableSet_Iic, integral_sub, integral_const_mul]
  · have hP : ∫ y in Iic b, gaussianPDFReal μ v y = (gaussianReal μ v).real (Iic b) := by
      rw [measureReal_def, gaussianReal_apply_eq_integral μ hv, ENNReal.toReal_ofReal]
      exact setIntegral_nonneg measurableSet_Iic (fun y _ => gaussianPDFReal_nonneg μ v y)
    have hF : ∫ y in Iic b, (y - μ) * gaussianPDFReal μ v y
        = -(v:ℝ) * gaussianPDFReal μ v b - 0 :=
      integral_Iic_of_hasDerivAt_of_tendsto' (fun y _ => hasDerivAt_neg_var_mul_pdf μ v hv y)
        (integrable_sub_mul_pdf μ v hv).integrableOn (tendsto_pdf_atBot μ v hv)
    rw [hP, hF]; ring
  · exact ((integrable_gaussianPDFReal μ v).const_mul _).integrableOn
  · exact (integrable_sub_mul_pdf μ v hv).integrableOn

theorem var_mul_pdf_eq (b μ : ℝ) (v : ℝ≥0) (hv : v ≠ 0) :
    (v : ℝ) * gaussianPDFReal μ v b =
      Real.sqrt v * pdf (Real.sqrt (2 * Real.pi)) ((b - μ) / Real.sqrt v) := by
  have hv' : (0:ℝ) < v := by positivity
  have hs : 0 < Real.sqrt v := Real.sqrt_pos.mpr hv'
  have hss : Real.sqrt v * Real.sqrt v = v := Real.mul_self_sqrt hv'.le
  have h2pi : 0 < Real.sqrt (2 * Real.pi) := Real.sqrt_pos.mpr (by positivity)
  simp only [pdf, gaussianPDFReal, Arith.real_exp, Arith.real_ofNat]
  have hsq : Real.sqrt (2 * Real.pi * v) = Real.sqrt (2 * Real.pi) * Real.sqrt v :=
    Real.sqrt_mul (by positivity) _
  have hexp : -(b - μ) ^ 2 / (2 * (v:ℝ)) =
      -((b - μ) / Real.sqrt v * ((b - μ) / Real.sqrt v)) / ((2:ℕ):ℝ) := by
    have : (b - μ) / Real.sqrt v * ((b - μ) / Real.sqrt v) = (b - μ) ^ 2 / v := by
      rw [div_mul_div_comm, hss]; ring
    rw [this]; push_cast; field_simp
  rw [hsq, hexp]
  field_simp
  rw [Real.sq_sqrt hv'.le]

/-- E[max(b − Y, 0)] for Y ~ N(μ, v), v > 0, is the model's closed form with the true Φ and φ. -/
theorem expectedImprovement_eq_ei (b μ : ℝ) (v : ℝ≥0) (hv : v ≠ 0) :
    ∫ y, max (b - y) 0 ∂(gaussianReal μ v) =
      ei stdNormalCDF (Real.sqrt (2 * Real.pi)) b (μ, (v : ℝ)) := by
  have hv' : (0:ℝ) < v := by positivity
  have hs : 0 < Real.sqrt v := Real.sqrt_pos.mpr hv'
  have hI := integral_max_gaussian b μ v hv
  rw [gaussian_Iic_eq_stdNormalCDF b μ v hv, var_mul_pdf_eq b μ v hv] at hI
  have hnn : 0 ≤ ∫ y, max (b - y) 0 ∂(gaussianReal μ v) :=
    integral_nonneg (fun y => le_max_right _ _)
  set z := (b - μ) / Real.sqrt v with hz
  have hbz : b - μ = Real.sqrt v * z := by rw [hz]; field_simp
  have hI' : ∫ y, max (b - y) 0 ∂(gaussianReal μ v) =
      Real.sqrt v * (z * stdNormalCDF z + pdf (Real.sqrt (2 * Real.pi)) z) := by
    rw [hI, hbz]; ring
  have hB : 0 ≤ z * stdNormalCDF z + pdf (Real.sqrt (2 * Real.pi)) z := by
    rw [hI'] at hnn
    exact nonneg_of_mul_nonneg_right hnn hs
  simp only [ei, eiNorm, core, Arith.real_sqrt]
  rw [show Arith.max (0:ℝ) _ = max (0:ℝ) _ from rfl, ← hz, max_eq_right hB, hI']

theorem stdNormal_bracket_nonneg (z : ℝ) :
    0 ≤ z * stdNormalCDF z + pdf (Real.sqrt (2 * Real.pi)) z := by
  have hv : (1 : ℝ≥0) ≠ 0 := one_ne_zero
  have hI := integral_max_gaussian z 0 1 hv
  rw [gaussian_Iic_eq_stdNormalCDF z 0 1 hv, var_mul_pdf_eq z 0 1 hv] at hI
  have hnn : 0 ≤ ∫ y, max (z - y) 0 ∂(gaussianReal 0 1) :=
    integral_nonneg (fun y => le_max_right _ _)
  simp only [NNReal.coe_one, Real.sqrt_one, sub_zero, div_one, one_mul] at hI
  rw [hI] at hnn
  exact hnn

end C05
