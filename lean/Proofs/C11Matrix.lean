/-
  Matrix-level facts behind C11 (all sizes): GLS normal equations, the quadratic form of a positive
  definite matrix, log det from a Cholesky factor, det and definiteness from an LDLᵀ certificate.
  Everything over `ℝ`, matrices indexed by `Fin n`.
-/
import Mathlib.Analysis.Matrix.Order
import Mathlib.LinearAlgebra.Matrix.PosDef
import Mathlib.LinearAlgebra.Matrix.Block
import Mathlib.LinearAlgebra.Matrix.NonsingularInverse
import Mathlib.Analysis.SpecialFunctions.Log.Basic
import Mathlib.Tactic.Linarith
import Mathlib.Tactic.Ring

open Matrix

namespace C11M

variable {n m : Nat}

/-- GLS coefficients exactly as `fit_nonzero_gp_mean_function` forms them:
    `β = (PᵀA⁻¹P)⁻¹ (Pᵀ (A⁻¹ y))`. -/
noncomputable def beta (A : Matrix (Fin n) (Fin n) ℝ) (P : Matrix (Fin n) (Fin m) ℝ) (y : Fin n → ℝ) :
    Fin m → ℝ :=
  (Pᵀ * A⁻¹ * P)⁻¹ *ᵥ (Pᵀ *ᵥ (A⁻¹ *ᵥ y))

/-- `demeaned_y = y − Pβ` -/
noncomputable def resid (A : Matrix (Fin n) (Fin n) ℝ) (P : Matrix (Fin n) (Fin m) ℝ) (y : Fin n → ℝ) :
    Fin n → ℝ :=
  y - P *ᵥ beta A P y

/-- The GLS residual is `A⁻¹`-orthogonal to every column of `P` (normal equations). -/
theorem resid_orthogonal (A : Matrix (Fin n) (Fin n) ℝ) (P : Matrix (Fin n) (Fin m) ℝ) (y : Fin n → ℝ)
    (hM : IsUnit (Pᵀ * A⁻¹ * P).det) :
    Pᵀ *ᵥ (A⁻¹ *ᵥ resid A P y) = 0 := by
  unfold resid beta
  rw [mulVec_sub, mulVec_sub, sub_eq_zero]
  have h : Pᵀ *ᵥ (A⁻¹ *ᵥ (P *ᵥ ((Pᵀ * A⁻¹ * P)⁻¹ *ᵥ (Pᵀ *ᵥ (A⁻¹ *ᵥ y)))))
      = ((Pᵀ * A⁻¹ * P) * (Pᵀ * A⁻¹ * P)⁻¹) *ᵥ (Pᵀ *ᵥ (A⁻¹ *ᵥ y)) := by
    simp only [mulVec_mulVec, Matrix.mul_assoc]
  rw [h, Matrix.mul_nonsing_inv _ hM, one_mulVec]

/-- the code computes `K⁻¹(y − Pβ)` as `K⁻¹y − K⁻¹(Pβ)` -/
theorem kinv_resid (A : Matrix (Fin n) (Fin n) ℝ) (P : Matrix (Fin n) (Fin m) ℝ) (y : Fin n → ℝ) :
    A⁻¹ *ᵥ y - A⁻¹ *ᵥ (P *ᵥ beta A P y) = A⁻¹ *ᵥ resid A P y := by
  unfold resid; rw [mulVec_sub]

/-- For a positive definite kernel matrix and a full-column-rank `P` the normal matrix is positive definite
    (hence invertible: the GLS fit exists and is unique). -/
theorem normal_posDef {A : Matrix (Fin n) (Fin n) ℝ} (hA : A.PosDef) {P : Matrix (Fin n) (Fin m) ℝ}
    (hP : Function.Injective P.mulVec) : (Pᵀ * A⁻¹ * P).PosDef := by
  have := hA.inv.conjTranspose_mul_mul_same hP
  simpa [conjTranspose_eq_transpose_of_trivial] using this

theorem normal_isUnit {A : Matrix (Fin n) (Fin n) ℝ} (hA : A.PosDef) {P : Matrix (Fin n) (Fin m) ℝ}
    (hP : Function.Injective P.mulVec) : IsUnit (Pᵀ * A⁻¹ * P).det :=
  (Matrix.isUnit_iff_isUnit_det _).1 (normal_posDef hA hP).isUnit

/-- `rᵀ A⁻¹ r ≥ 0` for positive definite `A`. -/
theorem quad_nonneg {A : Matrix (Fin n) (Fin n) ℝ} (hA : A.PosDef) (r : Fin n → ℝ) :
    0 ≤ r ⬝ᵥ (A⁻¹ *ᵥ r) := by
  have := hA.inv.posSemidef.dotProduct_mulVec_nonneg r
  simpa using this

theorem quad_pos {A : Matrix (Fin n) (Fin n) ℝ} (hA : A.PosDef) {r : Fin n → ℝ} (hr : r ≠ 0) :
    0 < r ⬝ᵥ (A⁻¹ *ᵥ r) := by
  have := hA.inv.dotProduct_mulVec_pos hr
  simpa using this

/-- GLS minimises the quadratic form over all coefficient vectors. -/
theorem gls_minimises {A : Matrix (Fin n) (Fin n) ℝ} (hA : A.PosDef) (P : Matrix (Fin n) (Fin m) ℝ)
    (y : Fin n → ℝ) (hM : IsUnit (Pᵀ * A⁻¹ * P).det) (b : Fin m → ℝ) :
    resid A P y ⬝ᵥ (A⁻¹ *ᵥ resid A P y) ≤ (y - P *ᵥ b) ⬝ᵥ (A⁻¹ *ᵥ (y - P *ᵥ b)) := by
  set r := resid A P y with hr
  set d := beta A P y - b with hd
  have hsplit : y - P *ᵥ b = r + P *ᵥ d := by
    rw [hr, hd, resid, mulVec_sub]; abel
  have hsym : (A⁻¹)ᵀ = A⁻¹ := by
    have := hA.inv.isHermitian
    simpa [IsHermitian, conjTranspose_eq_transpose_of_trivial] using this
  have horth : Pᵀ *ᵥ (A⁻¹ *ᵥ r) = 0 := resid_orthogonal A P y hM
  -- cross terms vanish
  have hc1 : (P *ᵥ d) ⬝ᵥ (A⁻¹ *ᵥ r) = 0 := by
    rw [dotProduct_comm, dotProduct_mulVec, ← mulVec_transpose, horth, zero_dotProduct]
  have hc2 : r ⬝ᵥ (A⁻¹ *ᵥ (P *ᵥ d)) = 0 := by
    have : r ⬝ᵥ (A⁻¹ *ᵥ (P *ᵥ d)) = (P *ᵥ d) ⬝ᵥ (A⁻¹ *ᵥ r) := by
      rw [dotProduct_mulVec, ← mulVec_transpose, hsym, dotProduct_comm]
    rw [this, hc1]
  rw [hsplit, mulVec_add, dotProduct_add, add_dotProduct, add_dotProduct, hc1, hc2]
  have := quad_nonneg hA (P *ᵥ d)
  linarith

/-! ### log det from a Cholesky factor -/

/-- `2 Σ log Lᵢᵢ = log det A` for `A = L Lᵀ`, `L` lower triangular with positive diagonal: the way
    `compute_log_likelihood` obtains the log-determinant from `K_chol`. -/
theorem chol_logdet (A L : Matrix (Fin n) (Fin n) ℝ) (hA : A = L * Lᵀ) (hL : L.IsLowerTriangular)
    (hd : ∀ i, 0 < L i i) :
    2 * ∑ i, Real.log (L i i) = Real.log A.det := by
  have hdet : L.det = ∏ i, L i i := det_of_isLowerTriangular L hL
  rw [hA, det_mul, det_transpose, hdet, ← Real.log_prod (fun i _ => (hd i).ne')]
  have hp : 0 < ∏ i, L i i := Finset.prod_pos fun i _ => hd i
  rw [Real.log_mul hp.ne' hp.ne']; ring

theorem chol_det_pos (A L : Matrix (Fin n) (Fin n) ℝ) (hA : A = L * Lᵀ) (hL : L.IsLowerTriangular)
    (hd : ∀ i, 0 < L i i) : 0 < A.det := by
  have hdet : L.det = ∏ i, L i i := det_of_isLowerTriangular L hL
  have hp : 0 < ∏ i, L i i := Finset.prod_pos fun i _ => hd i
  rw [hA, det_mul, det_transpose, hdet]; positivity

/-! ### LDLᵀ certificate -/

theorem unitLower_det (L : Matrix (Fin n) (Fin n) ℝ) (hL : L.IsLowerTriangular) (h1 : ∀ i, L i i = 1) :
    L.det = 1 := by
  rw [det_of_isLowerTriangular L hL]; simp [h1]

/-- `A = L·diag(D)·Lᵀ` with `L` unit lower triangular gives `det A = ∏ D`. -/
theorem ldl_det (A L : Matrix (Fin n) (Fin n) ℝ) (D : Fin n → ℝ) (hA : A = L * diagonal D * Lᵀ)
    (hL : L.IsLowerTriangular) (h1 : ∀ i, L i i = 1) : A.det = ∏ i, D i := by
  rw [hA, det_mul, det_mul, det_transpose, unitLower_det L hL h1, det_diagonal]; ring

/-- … and positive `D` certifies positive definiteness. -/
theorem ldl_posDef (A L : Matrix (Fin n) (Fin n) ℝ) (D : Fin n → ℝ) (hA : A = L * diagonal D * Lᵀ)
    (hL : L.IsLowerTriangular) (h1 : ∀ i, L i i = 1) (hD : ∀ i, 0 < D i) : A.PosDef := by
  have hu : IsUnit L := (Matrix.isUnit_iff_isUnit_det _).2 (by rw [unitLower_det L hL h1]; exact isUnit_one)
  have hdiag : (diagonal D).PosDef := PosDef.diagonal hD
  have := hdiag.mul_mul_conjTranspose_same (B := L) (by
    rw [Matrix.vecMul_injective_iff_isUnit]; exact hu)
  rw [hA]
  simpa [conjTranspose_eq_transpose_of_trivial] using this

end C11M
