/- Helper lemmas for C19: unit-cube maps, squared distances, target vectors, block structure of the search map,
   batched evaluation. -/
import Model.C19
import Proofs.C09Misc
import Mathlib.Tactic.Linarith
import Mathlib.Tactic.Ring
import Mathlib.Tactic.FieldSimp
import Mathlib.Tactic.Positivity

namespace C19
open Dom C09

/-! ### unit-cube maps, one coordinate -/

theorem fromUnit1_toUnit1 (b : Rat × Rat) (x : Rat) (h : b.1 < b.2) : fromUnit1 b (toUnit1 b x) = x := by
  unfold fromUnit1 toUnit1
  have : b.2 - b.1 ≠ 0 := (sub_pos.mpr h).ne'
  field_simp
  ring

theorem toUnit1_fromUnit1 (b : Rat × Rat) (u : Rat) (h : b.1 < b.2) : toUnit1 b (fromUnit1 b u) = u := by
  unfold fromUnit1 toUnit1
  have : b.2 - b.1 ≠ 0 := (sub_pos.mpr h).ne'
  field_simp
  ring

theorem toUnit1_nonneg (b : Rat × Rat) (x : Rat) (h : b.1 < b.2) (hx : b.1 ≤ x) : 0 ≤ toUnit1 b x := by
  unfold toUnit1
  exact div_nonneg (by linarith) (by linarith)

theorem toUnit1_le_one (b : Rat × Rat) (x : Rat) (h : b.1 < b.2) (hx : x ≤ b.2) : toUnit1 b x ≤ 1 := by
  unfold toUnit1
  rw [div_le_one (by linarith)]
  linarith

theorem toUnit1_unit (x : Rat) : toUnit1 (0, 1) x = x := by
  simp [toUnit1]

/-! ### unit-cube maps, rows -/

theorem toUnit_length : ∀ (bs : List (Rat × Rat)) (x : List Rat), (toUnit bs x).length = min bs.length x.length
  | [], x => by simp [toUnit]
  | _ :: _, [] => by simp [toUnit]
  | _ :: bs, _ :: xs => by simp [toUnit, toUnit_length bs xs, Nat.succ_min_succ]

theorem fromUnit_length : ∀ (bs : List (Rat × Rat)) (x : List Rat), (fromUnit bs x).length = min bs.length x.length
  | [], x => by simp [fromUnit]
  | _ :: _, [] => by simp [fromUnit]
  | _ :: bs, _ :: xs => by simp [fromUnit, fromUnit_length bs xs, Nat.succ_min_succ]

theorem fromUnit_toUnit : ∀ (bs : List (Rat × Rat)) (x : List Rat), boundsOK bs = true → x.length = bs.length →
    fromUnit bs (toUnit bs x) = x
  | [], [], _, _ => rfl
  | [], _ :: _, _, h => by simp at h
  | _ :: _, [], _, h => by simp at h
  | b :: bs, v :: vs, hb, hl => by
    simp only [boundsOK, List.all_cons, Bool.and_eq_true, decide_eq_true_eq] at hb
    simp only [toUnit, fromUnit, fromUnit1_toUnit1 b v hb.1]
    rw [fromUnit_toUnit bs vs (by simpa [boundsOK] using hb.2) (by simpa using hl)]

theorem toUnit_fromUnit : ∀ (bs : List (Rat × Rat)) (u : List Rat), boundsOK bs = true → u.length = bs.length →
    toUnit bs (fromUnit bs u) = u
  | [], [], _, _ => rfl
  | [], _ :: _, _, h => by simp at h
  | _ :: _, [], _, h => by simp at h
  | b :: bs, v :: vs, hb, hl => by
    simp only [boundsOK, List.all_cons, Bool.and_eq_true, decide_eq_true_eq] at hb
    simp only [toUnit, fromUnit, toUnit1_fromUnit1 b v hb.1]
    rw [toUnit_fromUnit bs vs (by simpa [boundsOK] using hb.2) (by simpa using hl)]

theorem toUnit_append : ∀ (b1 b2 : List (Rat × Rat)) (x : List Rat),
    toUnit (b1 ++ b2) x = toUnit b1 (x.take b1.length) ++ toUnit b2 (x.drop b1.length)
  | [], b2, x => by simp [toUnit]
  | _ :: _, _, [] => by simp [toUnit]
  | b :: bs, b2, v :: vs => by simp [toUnit, toUnit_append bs b2 vs]

theorem toUnit_replicate_unit : ∀ (k : Nat) (b : List Rat), b.length = k → toUnit (List.replicate k (0, 1)) b = b
  | 0, [], _ => rfl
  | 0, _ :: _, h => by simp at h
  | _ + 1, [], h => by simp at h
  | k + 1, v :: vs, h => by
    simp only [List.replicate_succ, toUnit, toUnit1_unit]
    rw [toUnit_replicate_unit k vs (by simpa using h)]

theorem toUnit_mem_unit : ∀ (bs : List (Rat × Rat)) (x : List Rat), boundsOK bs = true → withinBounds bs x = true →
    ∀ u ∈ toUnit bs x, 0 ≤ u ∧ u ≤ 1
  | [], _, _, _, u, hu => by simp [toUnit] at hu
  | _ :: _, [], _, _, u, hu => by simp [toUnit] at hu
  | (lo, hi) :: bs, v :: vs, hb, hw, u, hu => by
    simp only [boundsOK, List.all_cons, Bool.and_eq_true, decide_eq_true_eq] at hb
    simp only [withinBounds, Bool.and_eq_true, decide_eq_true_eq] at hw
    simp only [toUnit, List.mem_cons] at hu
    rcases hu with rfl | hu
    · exact ⟨toUnit1_nonneg _ _ hb.1 hw.1.1, toUnit1_le_one _ _ hb.1 hw.1.2⟩
    · exact toUnit_mem_unit bs vs (by simpa [boundsOK] using hb.2) hw.2 u hu

/-! ### well-formed components have non-degenerate bounds -/

theorem lmin_lt_lmax {es : List Rat} (hn : es.Nodup) (hl : 2 ≤ es.length) : lmin es < lmax es := by
  match es, hn, hl with
  | a :: b :: rest, hn, _ =>
    have hab : a ≠ b := by
      intro h
      simp [h] at hn
    have ha : a ∈ a :: b :: rest := by simp
    have hb : b ∈ a :: b :: rest := by simp
    rcases lt_or_gt_of_ne hab with h | h
    · exact lt_of_le_of_lt (lmin_le_mem ha) (lt_of_lt_of_le h (mem_le_lmax hb))
    · exact lt_of_le_of_lt (lmin_le_mem hb) (lt_of_lt_of_le h (mem_le_lmax ha))

theorem boundsOK_append (a b : List (Rat × Rat)) : boundsOK (a ++ b) = (boundsOK a && boundsOK b) := by
  simp [boundsOK]

theorem boundsOK_of_wf {c : Component} (h : c.wf = true) : boundsOK c.bounds = true := by
  cases c with
  | double lo hi => simpa [Component.wf, Component.bounds, boundsOK] using h
  | int lo hi =>
    simp only [Component.wf, Bool.and_eq_true, decide_eq_true_eq] at h
    simp [Component.bounds, boundsOK, h.1.1]
  | cat es => simp [Component.bounds, boundsOK]
  | grid es =>
    simp only [Component.wf, Bool.and_eq_true, decide_eq_true_eq] at h
    simp [Component.bounds, boundsOK, lmin_lt_lmax h.2 h.1]

theorem boundsOK_relaxedBox : ∀ (cs : List Component), cs.all Component.wf = true → boundsOK (relaxedBox cs) = true
  | [], _ => rfl
  | c :: cs, h => by
    simp only [List.all_cons, Bool.and_eq_true] at h
    simp [relaxedBox, boundsOK_append, boundsOK_of_wf h.1, boundsOK_relaxedBox cs h.2]

/-! ### squared distances -/

theorem sqDist_nonneg : ∀ (x z : List Rat), 0 ≤ sqDist x z
  | [], _ => by simp [sqDist]
  | _ :: _, [] => by simp [sqDist]
  | x :: xs, z :: zs => by
    simp only [sqDist]
    have := sqDist_nonneg xs zs
    nlinarith [mul_self_nonneg (x - z)]

theorem sqDist_comm : ∀ (x z : List Rat), sqDist x z = sqDist z x
  | [], [] => rfl
  | [], _ :: _ => rfl
  | _ :: _, [] => rfl
  | x :: xs, z :: zs => by
    simp only [sqDist, sqDist_comm xs zs]
    ring

theorem sqDist_self : ∀ (x : List Rat), sqDist x x = 0
  | [] => rfl
  | x :: xs => by simp [sqDist, sqDist_self xs]

theorem sqDist_append : ∀ (a c b d : List Rat), a.length = c.length →
    sqDist (a ++ b) (c ++ d) = sqDist a c + sqDist b d
  | [], [], b, d, _ => by simp [sqDist]
  | [], _ :: _, _, _, h => by simp at h
  | _ :: _, [], _, _, h => by simp at h
  | x :: xs, z :: zs, b, d, h => by
    simp only [List.cons_append, sqDist, sqDist_append xs zs b d (by simpa using h)]
    ring

theorem expanded_eq_sqDist : ∀ (x z : List Rat), x.length = z.length →
    sumSq x + sumSq z - 2 * dot x z = sqDist x z
  | [], [], _ => by simp [sumSq, dot, sqDist]
  | [], _ :: _, h => by simp at h
  | _ :: _, [], h => by simp at h
  | x :: xs, z :: zs, h => by
    have ih := expanded_eq_sqDist xs zs (by simpa using h)
    simp only [sumSq, dot, sqDist]
    linarith

/-- the clamp at zero never acts in exact arithmetic: the expanded form IS the sum of squared differences -/
theorem dist2_eq_sqDist (x z : List Rat) (h : x.length = z.length) : dist2 x z = sqDist x z := by
  unfold dist2
  rw [expanded_eq_sqDist x z h]
  exact max_eq_right (sqDist_nonneg x z)

theorem dist2_nonneg (x z : List Rat) : 0 ≤ dist2 x z := le_max_left _ _

theorem dist2_self (x : List Rat) : dist2 x x = 0 := by
  rw [dist2_eq_sqDist x x rfl, sqDist_self]

theorem dist2_comm (x z : List Rat) (h : x.length = z.length) : dist2 x z = dist2 z x := by
  rw [dist2_eq_sqDist x z h, dist2_eq_sqDist z x h.symm, sqDist_comm]

/-! ### target vectors -/

theorem targetVec_length : ∀ (k i : Nat) (t : Rat), (targetVec k i t).length = k
  | 0, _, _ => rfl
  | _ + 1, 0, _ => by simp [targetVec]
  | k + 1, i + 1, t => by simp [targetVec, targetVec_length k i t]

theorem targetVec_mem : ∀ (k i : Nat) (t v : Rat), v ∈ targetVec k i t → v = 0 ∨ v = t
  | 0, _, _, _, h => by simp [targetVec] at h
  | _ + 1, 0, _, v, h => by
    simp only [targetVec, List.mem_cons, List.mem_replicate] at h
    rcases h with h | h
    · exact Or.inr h
    · exact Or.inl h.2
  | k + 1, i + 1, t, v, h => by
    simp only [targetVec, List.mem_cons] at h
    rcases h with h | h
    · exact Or.inl h
    · exact targetVec_mem k i t v h

theorem sqDist_replicate_zero_targetVec : ∀ (k j : Nat) (t : Rat), j < k →
    sqDist (List.replicate k 0) (targetVec k j t) = t * t
  | 0, _, _, h => by omega
  | k + 1, 0, t, _ => by
    simp only [List.replicate_succ, targetVec, sqDist, sqDist_self]
    ring
  | k + 1, j + 1, t, h => by
    simp only [List.replicate_succ, targetVec, sqDist, sqDist_replicate_zero_targetVec k j t (by omega)]
    ring

theorem sqDist_targetVec_ne : ∀ (k i j : Nat) (t : Rat), i < k → j < k → i ≠ j →
    sqDist (targetVec k i t) (targetVec k j t) = 2 * (t * t)
  | 0, _, _, _, h, _, _ => by omega
  | k + 1, 0, 0, _, _, _, h => by omega
  | k + 1, 0, j + 1, t, _, hj, _ => by
    simp only [targetVec, sqDist, sqDist_replicate_zero_targetVec k j t (by omega)]
    ring
  | k + 1, i + 1, 0, t, hi, _, _ => by
    simp only [targetVec, sqDist]
    rw [sqDist_comm, sqDist_replicate_zero_targetVec k i t (by omega)]
    ring
  | k + 1, i + 1, j + 1, t, hi, hj, hne => by
    simp only [targetVec, sqDist, sqDist_targetVec_ne k i j t (by omega) (by omega) (by omega)]
    ring

/-! ### block structure of the search map -/

theorem roundCatTarget_length (t : Rat) (c : Component) (b : List Rat) : (roundCatTarget t c b).length = b.length := by
  cases c <;> simp [roundCatTarget, targetVec_length]

/-- one component's block of the search image -/
def searchBlock (t : Rat) (c : Component) (b : List Rat) : List Rat := roundCatTarget t c (toUnit c.bounds b)

theorem searchBlock_length (t : Rat) (c : Component) (b : List Rat) (h : b.length = c.width) :
    (searchBlock t c b).length = c.width := by
  simp [searchBlock, roundCatTarget_length, toUnit_length, bounds_length, h]

theorem toSearch_nil (t : Rat) (x : List Rat) : toSearch [] t x = [] := by
  simp [toSearch, roundToTarget, mapBlocks, relaxedBox, toUnit]

theorem toSearch_cons (t : Rat) (c : Component) (cs : List Component) (x : List Rat)
    (hx : x.length = totalWidth (c :: cs)) :
    toSearch (c :: cs) t x = searchBlock t c (x.take c.width) ++ toSearch cs t (x.drop c.width) := by
  have h1 : (x.take c.width).length = c.width := take_width_length hx
  have hl : (toUnit c.bounds (x.take c.width)).length = c.width := by
    simp [toUnit_length, bounds_length, h1]
  simp only [toSearch, roundToTarget, relaxedBox, mapBlocks, searchBlock]
  rw [toUnit_append, bounds_length, List.take_left' hl, List.drop_left' hl]

theorem toSearch_length : ∀ (cs : List Component) (t : Rat) (x : List Rat), x.length = totalWidth cs →
    (toSearch cs t x).length = totalWidth cs
  | [], t, x, _ => by simp [toSearch_nil, totalWidth]
  | c :: cs, t, x, hx => by
    rw [toSearch_cons t c cs x hx, List.length_append, searchBlock_length t c _ (take_width_length hx),
      toSearch_length cs t _ (drop_width_length hx)]
    rfl

theorem numericSq_nonneg : ∀ (cs : List Component) (x y : List Rat), 0 ≤ numericSq cs x y
  | [], _, _ => le_refl _
  | c :: cs, x, y => by
    simp only [numericSq]
    have := numericSq_nonneg cs (x.drop c.width) (y.drop c.width)
    split
    · linarith
    · linarith [sqDist_nonneg (toUnit c.bounds (x.take c.width)) (toUnit c.bounds (y.take c.width))]

theorem catDiffer_iff_numDiffer : ∀ (cs : List Component) (x y : List Rat),
    catDiffer cs x y = true ↔ 1 ≤ numDiffer cs x y
  | [], _, _ => by simp [catDiffer, numDiffer]
  | c :: cs, x, y => by
    have ih := catDiffer_iff_numDiffer cs (x.drop c.width) (y.drop c.width)
    simp only [catDiffer, numDiffer, Bool.or_eq_true, ih]
    cases hb : (c.isCat && decide (argmaxFirst (x.take c.width) ≠ argmaxFirst (y.take c.width)))
    · simp
    · simp

/-- squared distance of one component's block -/
theorem searchBlock_sqDist (t : Rat) (c : Component) (a b : List Rat) (ha : a.length = c.width) (hb : b.length = c.width) :
    sqDist (searchBlock t c a) (searchBlock t c b) =
      (if c.isCat then 0 else sqDist (toUnit c.bounds a) (toUnit c.bounds b))
      + 2 * (t * t) * (if c.isCat && decide (argmaxFirst a ≠ argmaxFirst b) then 1 else 0 : Nat) := by
  cases c with
  | double lo hi => simp [searchBlock, roundCatTarget, Component.isCat]
  | int lo hi => simp [searchBlock, roundCatTarget, Component.isCat]
  | grid es => simp [searchBlock, roundCatTarget, Component.isCat]
  | cat es =>
    simp only [Component.width] at ha hb
    simp only [searchBlock, roundCatTarget, Component.bounds, Component.isCat, Bool.true_and, if_true,
      toUnit_replicate_unit es.length a ha, toUnit_replicate_unit es.length b hb, ha, hb, zero_add]
    by_cases he : argmaxFirst a = argmaxFirst b
    · simp [he, sqDist_self]
    · have hne : es.length ≠ 0 := by
        intro h0
        have : a = [] := List.eq_nil_of_length_eq_zero (by omega)
        have : b = [] := List.eq_nil_of_length_eq_zero (by omega)
        subst_vars
        exact he rfl
      have ha' : a ≠ [] := by
        intro h
        simp [h] at ha
        omega
      have hb' : b ≠ [] := by
        intro h
        simp [h] at hb
        omega
      have h1 := argmaxFirst_lt a ha'
      have h2 := argmaxFirst_lt b hb'
      rw [sqDist_targetVec_ne es.length _ _ t (by omega) (by omega) he]
      simp [he]

/-- exact decomposition of the squared distance between two search images -/
theorem search_sqDist : ∀ (cs : List Component) (t : Rat) (x y : List Rat),
    x.length = totalWidth cs → y.length = totalWidth cs →
    sqDist (toSearch cs t x) (toSearch cs t y) = numericSq cs x y + 2 * (t * t) * (numDiffer cs x y : Nat)
  | [], t, x, y, _, _ => by simp [toSearch_nil, sqDist, numericSq, numDiffer]
  | c :: cs, t, x, y, hx, hy => by
    have ih := search_sqDist cs t _ _ (drop_width_length hx) (drop_width_length hy)
    rw [toSearch_cons t c cs x hx, toSearch_cons t c cs y hy,
      sqDist_append _ _ _ _ (by rw [searchBlock_length t c _ (take_width_length hx),
        searchBlock_length t c _ (take_width_length hy)]),
      searchBlock_sqDist t c _ _ (take_width_length hx) (take_width_length hy), ih]
    simp only [numericSq, numDiffer]
    push_cast
    ring

/-! ### coordinates of the search image -/

theorem searchBlock_coords (t : Rat) (c : Component) (b : List Rat) (hc : boundsOK c.bounds = true)
    (hb : withinBounds c.bounds b = true) : ∀ v ∈ searchBlock t c b, (0 ≤ v ∧ v ≤ 1) ∨ v = t := by
  intro v hv
  cases c with
  | cat es =>
    simp only [searchBlock, roundCatTarget] at hv
    rcases targetVec_mem _ _ _ _ hv with h | h
    · exact Or.inl (by simp [h])
    · exact Or.inr h
  | double lo hi => exact Or.inl (toUnit_mem_unit _ _ hc hb v (by simpa [searchBlock, roundCatTarget] using hv))
  | int lo hi => exact Or.inl (toUnit_mem_unit _ _ hc hb v (by simpa [searchBlock, roundCatTarget] using hv))
  | grid es => exact Or.inl (toUnit_mem_unit _ _ hc hb v (by simpa [searchBlock, roundCatTarget] using hv))

theorem withinBounds_take (b1 b2 : List (Rat × Rat)) (x : List Rat) (h : withinBounds (b1 ++ b2) x = true) :
    withinBounds b1 (x.take b1.length) = true ∧ withinBounds b2 (x.drop b1.length) = true := by
  rw [withinBounds_append] at h
  simpa using h

/-! ### batched evaluation -/

theorem batchedAux_hom {α β} (f : List α → List β) (hnil : f [] = []) (happ : ∀ a c, f (a ++ c) = f a ++ f c)
    (b : Nat) (hb : 1 ≤ b) : ∀ (fuel : Nat) (xs : List α), xs.length ≤ fuel → batchedAux f b fuel xs = f xs
  | 0, xs, h => by
    have : xs = [] := List.eq_nil_of_length_eq_zero (by omega)
    simp [batchedAux, this, hnil]
  | fuel + 1, xs, h => by
    unfold batchedAux
    by_cases he : xs.isEmpty
    · simp only [he, if_true]
      rw [List.isEmpty_iff.mp he, hnil]
    · simp only [he]
      have hne : xs ≠ [] := by simpa using he
      have hpos : 0 < xs.length := List.length_pos_of_ne_nil hne
      rw [batchedAux_hom f hnil happ b hb fuel (xs.drop b) (by simp; omega), ← happ, List.take_append_drop]
      simp

end C19
