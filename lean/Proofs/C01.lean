/- Helper lemmas for C01: lattice-neighbour candidates of `find_best_one_hot_neighbor_by_af` stay in the
   relaxed polytope (built on the C09 lattice lemmas). -/
import Model.C01
import Proofs.C09Snap
import Proofs.C09Misc
import Properties.C09

namespace C01
open Dom C09

/-- constraint weights vanish on categorical blocks, whatever the constraint type -/
theorem catNeighbourRel_dot : ∀ (cs : List Component) (w x y : List Rat),
    catNeighbourRel cs x y = true → dot (ohWeights cs w) y = dot (ohWeights cs w) x
  | [], w, x, y, h => by simp [ohWeights, dot_nil_left]
  | c :: cs, w, x, y, h => by
    rw [catNeighbourRel_cons] at h
    simp only [ohWeights]
    rw [dot_append, dot_append, ohWeights_length, catNeighbourRel_dot cs w.tail _ _ h.2]
    congr 1
    cases c with
    | cat es => simp [Component.ohWeights, dot_replicate_zero]
    | double lo hi => have := h.1; simp only at this; rw [this]
    | int lo hi => have := h.1; simp only at this; rw [this]
    | grid es => have := h.1; simp only at this; rw [this]

theorem cons_double_of_not_intConstrained {d : Domain} (hw : d.wf = true) (hic : isIntConstrained d = false) :
    ∀ c ∈ d.cons, weightsOK false c.weights d.comps = true := by
  intro c hc
  simp only [Domain.wf, Bool.and_eq_true, List.all_eq_true] at hw
  have h1 := hw.2 c hc
  simp only [isIntConstrained, List.any_eq_false] at hic
  have h2 : c.isInt = false := by simpa using hic c hc
  rw [h2] at h1
  exact h1

end C01
