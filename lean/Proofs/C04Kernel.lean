/-
  Helper lemmas for C04, part 5: from the radial profile to the kernel entry points —
  kernel value = alpha · profSq, the pairwise / symmetric / cross paths agree over ℝ, list plumbing
  (`getD` of mapped / appended / ranged lists), the multitask split of a point `xp ++ [xt]`.
-/
import Model.C04
import Proofs.ArithReal
import Proofs.C03Lemmas
import Proofs.C04Radial
import Proofs.C04Lists

namespace C04
open Kernels

/-! ### list plumbing -/

theorem range_map_getD (f : Nat → ℝ) {n j : Nat} (h : j < n) : ((List.range n).map f).getD j 0 = f j := by
  simp [List.getD_eq_getElem?_getD, h]

theorem map_getD_lt (A : List ℝ) (f : ℝ → ℝ) {j : Nat} (h : j < A.length) :
    (A.map f).getD j 0 = f (A.getD j 0) := by
  simp [List.getD_eq_getElem?_getD, h]

theorem append_getD_lt (A B : List ℝ) {j : Nat} (h : j < A.length) : (A ++ B).getD j 0 = A.getD j 0 := by
  simp [List.getD_eq_getElem?_getD, List.getElem?_append_left h]

theorem append_getD_ge (A B : List ℝ) (j : Nat) : (A ++ B).getD (A.length + j) 0 = B.getD j 0 := by
  simp [List.getD_eq_getElem?_getD, List.getElem?_append_right]

theorem column_map {β : Type} (X : List β) (g : β → List ℝ) (j : Nat) :
    column (X.map g) j = X.map fun x => (g x).getD j 0 := by
  simp [column]

@[simp] theorem physPart_concat (xp : List ℝ) (a : ℝ) : physPart (xp ++ [a]) = xp := by
  simp [physPart]

@[simp] theorem taskPart_concat (xp : List ℝ) (a : ℝ) : taskPart (xp ++ [a]) = [a] := by
  simp [taskPart]

/-! ### values -/

theorem kernel_eq_profSq (k : Kind) (alpha : ℝ) (ls x z : List ℝ) :
    kernel k alpha ls x z = alpha * profSq k (r2 ls x z) := by
  unfold kernel
  rw [phi_eq_profSq k (r2_nonneg' ls x z)]

theorem phi_zero' (k : Kind) : phi k (0 : ℝ) = 1 := by
  cases k <;> simp [phi]

theorem kernel_self' (k : Kind) (alpha : ℝ) (ls x : List ℝ) : kernel k alpha ls x x = alpha := by
  simp [kernel, r2_self', phi_zero']

theorem phiR_sqrt' (k : Kind) {d : ℝ} (hd : 0 ≤ d) : phiR k (Real.sqrt d) = phi k d := by
  rw [phiR_eq_profile, phi_eq_profile_sqrt k hd]

/-! ### the entry-point variants agree over ℝ -/

theorem gradCovariance_eq' (k : Kind) (alpha : ℝ) (ls x z : List ℝ) :
    gradCovariance k alpha ls x z = gradKernelX k alpha ls x z := by
  simp only [gradCovariance, gradKernelX, gradRowWith, Arith.real_sqrt]
  rw [dphi_eq_dphiR_sqrt k (r2_nonneg' ls x z)]

theorem hyperGradCovariance_eq' (k : Kind) (alpha : ℝ) (ls x z : List ℝ) :
    hyperGradCovariance k alpha ls x z = gradKernelH k alpha ls x z := by
  simp only [hyperGradCovariance, gradKernelH, hparamRowWith, Arith.real_sqrt]
  rw [hphi_eq_hphiR_sqrt k (r2_nonneg' ls x z), phiR_sqrt' k (r2_nonneg' ls x z)]

theorem gradRowWith_scaled (k : Kind) (alpha : ℝ) (ls x z : List ℝ) :
    gradRowWith r2Scaled k alpha ls x z = gradKernelX k alpha ls x z := by
  simp only [gradRowWith, gradKernelX, r2Scaled_eq]

theorem gradRowWith_expanded (k : Kind) (alpha : ℝ) (ls x z : List ℝ) (h : x.length = z.length) :
    gradRowWith r2Expanded k alpha ls x z = gradKernelX k alpha ls x z := by
  simp only [gradRowWith, gradKernelX, r2Expanded_eq ls x z h]

theorem hparamRowWith_scaled (k : Kind) (alpha : ℝ) (ls x z : List ℝ) :
    hparamRowWith r2Scaled k alpha ls x z = gradKernelH k alpha ls x z := by
  simp only [hparamRowWith, gradKernelH, r2Scaled_eq]

theorem hparamRowWith_expanded (k : Kind) (alpha : ℝ) (ls x z : List ℝ) (h : x.length = z.length) :
    hparamRowWith r2Expanded k alpha ls x z = gradKernelH k alpha ls x z := by
  simp only [hparamRowWith, gradKernelH, r2Expanded_eq ls x z h]

/-! ### coincident points -/

theorem gradCoords_self (c : ℝ) (ls x : List ℝ) (j : Nat) : (gradCoords c ls x x).getD j 0 = 0 := by
  induction ls generalizing x j with
  | nil => simp
  | cons l ls ih =>
    cases x with
    | nil => simp
    | cons a as =>
      cases j with
      | zero => simp
      | succ j => simpa using ih as j

theorem hparamCoords_self (c : ℝ) (ls x : List ℝ) (j : Nat) : (hparamCoords c ls x x).getD j 0 = 0 := by
  induction ls generalizing x j with
  | nil => simp
  | cons l ls ih =>
    cases x with
    | nil => simp
    | cons a as =>
      cases j with
      | zero => simp
      | succ j => simpa using ih as j

/-! ### derivative of the kernel along a coordinate / a length scale -/

theorem kernel_x_hasDerivAt (k : Kind) (hk : differentiable k = true) (alpha : ℝ) (ls x z : List ℝ)
    (j : Nat) (t : ℝ) :
    HasDerivAt (fun u => kernel k alpha ls (x.set j u) z)
      ((gradKernelX k alpha ls (x.set j t) z).getD j 0) t := by
  simp only [kernel_eq_profSq]
  have := (profSq_x_hasDerivAt k hk ls x z j t).const_mul alpha
  refine this.congr_deriv ?_
  rw [gradKernelX, gradRowWith, scaleBy_getD]

theorem kernel_l_hasDerivAt (k : Kind) (hk : differentiable k = true) (alpha : ℝ) (ls x z : List ℝ)
    (j : Nat) (t : ℝ) (ht : t ≠ 0) :
    HasDerivAt (fun u => kernel k alpha (ls.set j u) x z)
      ((gradKernelH k alpha (ls.set j t) x z).getD (j + 1) 0) t := by
  simp only [kernel_eq_profSq]
  have := (profSq_l_hasDerivAt k hk ls x z j t ht).const_mul alpha
  refine this.congr_deriv ?_
  rw [gradKernelH, hparamRowWith, List.getD_cons_succ, scaleBy_getD]

/-- the cross-kernel vector along coordinate j: entry-wise derivative = column j of the gradient rows -/
theorem crossKernel_derivList (k : Kind) (hk : differentiable k = true) (alpha : ℝ) (ls x : List ℝ)
    (X : List (List ℝ)) (j : Nat) (t : ℝ) :
    DerivList (X.map fun xi => fun u => kernel k alpha ls (x.set j u) xi)
      (column (X.map fun xi => gradKernelX k alpha ls (x.set j t) xi) j) t := by
  rw [column_map]
  induction X with
  | nil => simp [DerivList]
  | cons xi X ih =>
    simp only [List.map_cons]
    exact List.Forall₂.cons (kernel_x_hasDerivAt k hk alpha ls x xi j t) ih

theorem evalAt_crossKernel (k : Kind) (alpha : ℝ) (ls x : List ℝ) (X : List (List ℝ)) (j : Nat) (u : ℝ) :
    evalAt (X.map fun xi => fun u => kernel k alpha ls (x.set j u) xi) u
      = X.map fun xi => kernel k alpha ls (x.set j u) xi := by
  simp [evalAt]

/-- polynomial row along coordinate j -/
theorem polyRow_derivList (indices : List (List Nat)) (x : List ℝ) (j : Nat) (hj : j < x.length) (t : ℝ) :
    DerivList (indices.map fun es => fun u => polyTerm es (x.set j u))
      (column (polyGradRows indices (x.set j t)) j) t := by
  unfold polyGradRows
  rw [column_map]
  induction indices with
  | nil => simp [DerivList]
  | cons es indices ih =>
    simp only [List.map_cons]
    refine List.Forall₂.cons ?_ ih
    have h := polyTerm_hasDerivAt es x j t
    have hl : j < (x.set j t).length := by simpa using hj
    rw [range_map_getD _ hl]
    exact h

theorem evalAt_polyRow (indices : List (List Nat)) (x : List ℝ) (j : Nat) (u : ℝ) :
    evalAt (indices.map fun es => fun u => polyTerm es (x.set j u)) u = polyRow indices (x.set j u) := by
  simp [evalAt, polyRow]

end C04

namespace C04
open Kernels

/-! ### multitask: explicit forms on split points `xp ++ [xt]` -/

theorem multitask_concat (kp kt : Kind) (alpha : ℝ) (ls : List ℝ) (lt : ℝ) (xp zp : List ℝ) (xt zt : ℝ) :
    multitask kp kt alpha ls lt (xp ++ [xt]) (zp ++ [zt])
      = alpha * (profSq kp (r2 ls xp zp) * profSq kt (r2 [lt] [xt] [zt])) := by
  simp only [multitask, physPart_concat, taskPart_concat]
  rw [phi_eq_profSq kp (r2_nonneg' _ _ _), phi_eq_profSq kt (r2_nonneg' _ _ _)]

theorem mtGradKernelX_concat (kp kt : Kind) (alpha : ℝ) (ls : List ℝ) (lt : ℝ) (xp zp : List ℝ) (xt zt : ℝ) :
    mtGradKernelX kp kt alpha ls lt (xp ++ [xt]) (zp ++ [zt])
      = scaleBy alpha
          ((gradCoords (dphi kp (r2 ls xp zp)) ls xp zp).map (· * profSq kt (r2 [lt] [xt] [zt])) ++
           (gradCoords (dphi kt (r2 [lt] [xt] [zt])) [lt] [xt] [zt]).map (· * profSq kp (r2 ls xp zp))) := by
  simp only [mtGradKernelX, mtGradRowWith, physPart_concat, taskPart_concat]
  rw [phi_eq_profSq kp (r2_nonneg' _ _ _), phi_eq_profSq kt (r2_nonneg' _ _ _)]

theorem mtGradKernelH_concat (kp kt : Kind) (alpha : ℝ) (ls : List ℝ) (lt : ℝ) (xp zp : List ℝ) (xt zt : ℝ) :
    mtGradKernelH kp kt alpha ls lt (xp ++ [xt]) (zp ++ [zt])
      = (profSq kp (r2 ls xp zp) * profSq kt (r2 [lt] [xt] [zt])) ::
        scaleBy alpha
          ((hparamCoords (hphi kp (r2 ls xp zp)) ls xp zp).map (· * profSq kt (r2 [lt] [xt] [zt])) ++
           (hparamCoords (hphi kt (r2 [lt] [xt] [zt])) [lt] [xt] [zt]).map (· * profSq kp (r2 ls xp zp))) := by
  simp only [mtGradKernelH, mtHparamRowWith, physPart_concat, taskPart_concat]
  rw [phi_eq_profSq kp (r2_nonneg' _ _ _), phi_eq_profSq kt (r2_nonneg' _ _ _)]

end C04
