/-
  C06 helper lemmas, part 1: rows and masks (`overwrite`, `keepNot`, `nonFail`, `getD` through `map`).
-/
import Model.C06
import Mathlib.Algebra.Order.Field.Rat
import Mathlib.Tactic.Linarith

namespace C06
open C14 (keepNot overwrite)

theorem overwrite_length (v : Rat) (xs : List Rat) (m : List Bool) : (overwrite v xs m).length = xs.length := by
  induction xs generalizing m with
  | nil => cases m <;> simp [overwrite]
  | cons x xs ih => cases m <;> simp [overwrite, ih]

theorem keepNot_length_eq {α β} (xs : List α) (ys : List β) (m : List Bool) (h : xs.length = ys.length) :
    (keepNot xs m).length = (keepNot ys m).length := by
  induction xs generalizing ys m with
  | nil => cases ys <;> simp_all [keepNot]
  | cons x xs ih =>
    cases ys with
    | nil => simp at h
    | cons y ys =>
      cases m with
      | nil => simp [keepNot]
      | cons b m =>
        simp only [List.length_cons, Nat.add_right_cancel_iff] at h
        cases b <;> simp [keepNot, ih ys m h]

theorem keepNot_length_le {α} (xs : List α) (m : List Bool) : (keepNot xs m).length ≤ xs.length := by
  induction xs generalizing m with
  | nil => cases m <;> simp [keepNot]
  | cons x xs ih =>
    cases m with
    | nil => simp [keepNot]
    | cons b m =>
      have := ih m
      cases b <;> simp [keepNot] <;> omega

/-- with a mask as long as the list, the rows kept are the `false` entries of the mask -/
theorem keepNot_length_count {α} (xs : List α) (m : List Bool) (h : xs.length = m.length) :
    (keepNot xs m).length = m.count false := by
  induction xs generalizing m with
  | nil => cases m <;> simp_all [keepNot]
  | cons x xs ih =>
    cases m with
    | nil => simp at h
    | cons b m =>
      simp only [List.length_cons, Nat.add_right_cancel_iff] at h
      cases b <;> simp [keepNot, ih m h]

theorem mem_keepNot {α} (xs : List α) (m : List Bool) (x : α) (h : x ∈ keepNot xs m) : x ∈ xs := by
  induction xs generalizing m with
  | nil => cases m <;> simp [keepNot] at h
  | cons y ys ih =>
    cases m with
    | nil => simp [keepNot] at h
    | cons b m =>
      cases b
      · simp only [keepNot, Bool.false_eq_true, if_false, List.mem_cons] at h
        rcases h with rfl | h
        · exact List.mem_cons_self ..
        · exact List.mem_cons_of_mem _ (ih m h)
      · simp only [keepNot, if_true] at h
        exact List.mem_cons_of_mem _ (ih m h)

theorem mem_applyMask {α} (mask : Option (List Bool)) (l : List α) (x : α) (h : x ∈ applyMask mask l) : x ∈ l := by
  cases mask with
  | none => exact h
  | some m => exact mem_keepNot l m x h

theorem applyMask_length_eq {α β} (mask : Option (List Bool)) (xs : List α) (ys : List β) (h : xs.length = ys.length) :
    (applyMask mask xs).length = (applyMask mask ys).length := by
  cases mask with
  | none => exact h
  | some m => exact keepNot_length_eq xs ys m h

/-- an entry of the overwritten scaled column is the lie or the image of a non-failed raw value -/
theorem mem_overwrite_map (f : Rat → Rat) (v : Rat) : ∀ (xs : List Rat) (m : List Bool), xs.length ≤ m.length →
    ∀ x ∈ overwrite v (xs.map f) m, x = v ∨ ∃ y ∈ C12.nonFail xs m, x = f y
  | [], m, _, x, hx => by cases m <;> simp [overwrite] at hx
  | y :: ys, [], h, _, _ => by simp at h
  | y :: ys, b :: m, h, x, hx => by
    simp only [List.length_cons, Nat.add_le_add_iff_right] at h
    simp only [List.map_cons, overwrite, List.mem_cons] at hx
    rcases hx with rfl | hx
    · cases b
      · right; exact ⟨y, by simp [C12.nonFail], by simp⟩
      · left; simp
    · rcases mem_overwrite_map f v ys m h x hx with h1 | ⟨z, hz, rfl⟩
      · exact Or.inl h1
      · right
        refine ⟨z, ?_, rfl⟩
        cases b <;> simp [C12.nonFail, hz]

theorem overwrite_getD (v : Rat) : ∀ (xs : List Rat) (m : List Bool) (i : Nat), i < xs.length →
    (overwrite v xs m).getD i 0 = if m.getD i false then v else xs.getD i 0
  | [], _, _, h => by simp at h
  | x :: xs, [], i, _ => by simp [overwrite]
  | x :: xs, b :: m, 0, _ => by simp [overwrite]
  | x :: xs, b :: m, i + 1, h => by
    simp only [List.length_cons, Nat.add_lt_add_iff_right] at h
    have := overwrite_getD v xs m i h
    simpa [overwrite] using this

/-- whether a column has a non-failed entry depends on its length and the mask only -/
theorem nonFail_nil_congr : ∀ (xs ys : List Rat) (fs : List Bool), xs.length = ys.length →
    (C12.nonFail xs fs = [] ↔ C12.nonFail ys fs = [])
  | [], [], _, _ => by simp [C12.nonFail]
  | [], _ :: _, _, h => by simp at h
  | _ :: _, [], _, h => by simp at h
  | x :: xs, y :: ys, [], _ => by simp [C12.nonFail]
  | x :: xs, y :: ys, b :: fs, h => by
    simp only [List.length_cons, Nat.add_right_cancel_iff] at h
    cases b
    · simp [C12.nonFail]
    · simpa [C12.nonFail] using nonFail_nil_congr xs ys fs h

theorem getD_map_mem {α β} (f : α → β) (l : List α) (o : Nat) (d : β) (h : o < l.length) :
    ∃ k ∈ l, (l.map f).getD o d = f k := by
  refine ⟨l[o], List.getElem_mem h, ?_⟩
  simp [List.getD_eq_getElem?_getD, h]

theorem column_length (k : Nat) (m : List (List Rat)) : (column k m).length = m.length := by simp [column]

theorem column_getD (k : Nat) (m : List (List Rat)) (i : Nat) :
    (column k m).getD i 0 = (m.getD i []).getD k 0 := by
  simp only [column, List.getD_eq_getElem?_getD, List.getElem?_map]
  cases h : m[i]? <;> simp

end C06
