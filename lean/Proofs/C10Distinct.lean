/- Helper lemmas for C10: the enumerating branch of `generate_distinct_random_points`. -/
import Proofs.C10Domain

namespace C10

/-! ### `_analyze_discrete_elements` by result -/

theorem analyze_enumerate {lens : List Nat} {k h : Nat} {p : Rat} {N : Nat}
    (ha : analyze lens k h p = .enumerate N) :
    cappedProd lens 1 = some N ∧ k + h ≤ N ∧ ¬ (((k + h : Nat) : Rat) ≤ p * (N : Rat)) := by
  unfold analyze at ha
  split at ha
  · cases ha
  · rename_i N' hN'
    split_ifs at ha with h1 h2 h3
    cases ha
    exact ⟨hN', by omega, h3⟩

theorem analyze_error {lens : List Nat} {k h : Nat} {p : Rat} {N : Nat}
    (ha : analyze lens k h p = .error N) : cappedProd lens 1 = some N ∧ N < k + h := by
  unfold analyze at ha
  split at ha
  · cases ha
  · rename_i N' hN'
    split_ifs at ha with h1 h2 h3
    · cases ha; exact ⟨hN', by omega⟩
    · cases ha; exact ⟨hN', by omega⟩

theorem analyze_shortcut {lens : List Nat} {k h : Nat} {p : Rat} {N : Nat}
    (ha : analyze lens k h p = .shortcut N) :
    cappedProd lens 1 = some N ∧ k + h ≤ N ∧ ((k + h : Nat) : Rat) ≤ p * (N : Rat) := by
  unfold analyze at ha
  split at ha
  · cases ha
  · rename_i N' hN'
    split_ifs at ha with h1 h2 h3
    cases ha
    exact ⟨hN', by omega, h3⟩

theorem analyze_tooLarge_iff {lens : List Nat} {k h : Nat} {p : Rat} :
    analyze lens k h p = .tooLarge ↔ cappedProd lens 1 = none := by
  unfold analyze
  split
  · simp [*]
  · rename_i N' hN'
    simp only [hN', reduceCtorEq, iff_false]
    split_ifs <;> simp

/-! ### the observed part of the history -/

theorem observed_nodup (dom : Domain) (hist : List Row) : (observed dom hist).Nodup :=
  nodup_dedup _

theorem mem_observed {dom : Domain} {hist : List Row} (hI : ∀ r ∈ hist, wellTypedRow dom r = true)
    {r : Row} : r ∈ observed dom hist ↔ r ∈ hist ∧ admissibleRow dom r = true := by
  simp only [observed, mem_dedup, removeOutside, List.mem_filter]
  constructor
  · rintro ⟨h1, h2⟩; exact ⟨h1, by rw [← keepRow_eq_admissibleRow (hI r h1)]; exact h2⟩
  · rintro ⟨h1, h2⟩; exact ⟨h1, by rw [keepRow_eq_admissibleRow (hI r h1)]; exact h2⟩

theorem observed_rowIn {dom : Domain} {hist : List Row} (hd : isDiscrete dom = true)
    (hI : ∀ r ∈ hist, wellTypedRow dom r = true) :
    ∀ r ∈ observed dom hist, rowIn (desOf dom) r = true := by
  intro r hr
  rw [← admissibleRow_eq_rowIn hd]; exact ((mem_observed hI).mp hr).2

theorem encode_inj_on {des : List (List Rat)} {r s : Row} (hr : rowIn des r = true)
    (hs : rowIn des s = true) (h : encodeIdx des r = encodeIdx des s) : r = s := by
  rw [encodeIdx_eq, encodeIdx_eq] at h
  rw [← decode_encode hr, ← decode_encode hs, h]

theorem exclIdx_nodup {dom : Domain} {hist : List Row} (hd : isDiscrete dom = true)
    (hI : ∀ r ∈ hist, wellTypedRow dom r = true) :
    ((observed dom hist).map (encodeIdx (desOf dom))).Nodup := by
  refine List.Nodup.map_on ?_ (observed_nodup dom hist)
  intro x hx y hy hxy
  exact encode_inj_on (observed_rowIn hd hI x hx) (observed_rowIn hd hI y hy) hxy

theorem exclIdx_lt {dom : Domain} {hist : List Row} (hd : isDiscrete dom = true)
    (hI : ∀ r ∈ hist, wellTypedRow dom r = true) :
    ∀ i ∈ (observed dom hist).map (encodeIdx (desOf dom)), i < numConfigs (desOf dom) := by
  intro i hi
  obtain ⟨r, hr, rfl⟩ := List.mem_map.mp hi
  rw [encodeIdx_eq]; exact encode_lt (observed_rowIn hd hI r hr)

theorem observed_length_le {dom : Domain} {hist : List Row} (hd : isDiscrete dom = true)
    (hI : ∀ r ∈ hist, wellTypedRow dom r = true) :
    (observed dom hist).length ≤ numConfigs (desOf dom) := by
  have hsub : (observed dom hist).map (encodeIdx (desOf dom)) ⊆ List.range (numConfigs (desOf dom)) := by
    intro i hi; exact List.mem_range.mpr (exclIdx_lt hd hI i hi)
  have := List.Nodup.length_le_of_subset (exclIdx_nodup hd hI) hsub
  simpa using this

theorem avail_length {dom : Domain} {hist : List Row} (hd : isDiscrete dom = true)
    (hI : ∀ r ∈ hist, wellTypedRow dom r = true) :
    (availIdx (desOf dom) (numConfigs (desOf dom)) (observed dom hist)).length = unobserved dom hist :=
  availIdx_length (exclIdx_nodup hd hI) (exclIdx_lt hd hI)

/-! ### the index list drawn on the enumerating branch -/

theorem enumIdx_spec (des : List (List Rat)) (N : Nat) (excl : List Row) (k : Nat) (ω : Oracle)
    (hk : k ≤ (availIdx des N excl).length) :
    (enumIdx des N excl k ω).Nodup ∧ (∀ i ∈ enumIdx des N excl k ω, i ∈ availIdx des N excl) ∧
      (enumIdx des N excl k ω).length = k := by
  unfold enumIdx enumIdxOf
  split_ifs with h
  · refine ⟨pick_nodup _ (availIdx_nodup ..) _, pick_subset _ _ _, ?_⟩
    rw [pick_length]; omega
  · have h0 : k - (availIdx des N excl).length = 0 := by omega
    simp only [h0, List.take_zero, List.map_nil, List.append_nil]
    exact ⟨availIdx_nodup .., fun i hi => hi, by omega⟩

/-- Key lemma: off the shortcut branches the sampler returns the decodings of `min k unobserved`
    pairwise different available indices. -/
theorem distinct_enum {dom : Domain} {hist : List Row} {k : Nat} {dupProb : Rat}
    (hd : isDiscrete dom = true) (hI : ∀ r ∈ hist, wellTypedRow dom r = true)
    (hb : onShortcut dom hist k dupProb = false) (ω : Oracle) :
    ∃ idxs : List Nat,
      distinct dom false hist k dupProb ω = idxs.map (decodeIdx (desOf dom)) ∧ idxs.Nodup ∧
      (∀ i ∈ idxs, i ∈ availIdx (desOf dom) (numConfigs (desOf dom)) (observed dom hist)) ∧
      idxs.length = min k (unobserved dom hist) := by
  by_cases hk0 : k = 0
  · exact ⟨[], by simp [distinct, hk0], List.nodup_nil, by simp, by simp [hk0]⟩
  have hav := avail_length hd hI
  have hle := observed_length_le hd hI
  unfold distinct
  simp only [hk0, if_false, hd, Bool.not_true, Bool.or_false, Bool.false_eq_true]
  unfold onShortcut at hb
  generalize hbr : branchOf dom hist k dupProb = br at hb ⊢
  cases br with
  | tooLarge => simp at hb
  | shortcut N => simp at hb
  | enumerate N =>
    obtain ⟨hN, hkh, _⟩ := analyze_enumerate hbr
    have hN' : N = numConfigs (desOf dom) := by simpa using cappedProd_some hN
    subst hN'
    have hk : k ≤ (availIdx (desOf dom) (numConfigs (desOf dom)) (observed dom hist)).length := by
      rw [hav]; unfold unobserved; omega
    obtain ⟨h1, h2, h3⟩ := enumIdx_spec (desOf dom) _ (observed dom hist) k ω hk
    refine ⟨_, rfl, h1, h2, ?_⟩
    rw [h3]; rw [hav] at hk; omega
  | error N =>
    obtain ⟨hN, hkh⟩ := analyze_error hbr
    have hN' : N = numConfigs (desOf dom) := by simpa using cappedProd_some hN
    subst hN'
    simp only
    split_ifs with hle0
    · refine ⟨[], rfl, List.nodup_nil, by simp, ?_⟩
      unfold unobserved; simp only [List.length_nil]; omega
    · have hk : ((numConfigs (desOf dom) : Int) - ((observed dom hist).length : Int)).toNat ≤
          (availIdx (desOf dom) (numConfigs (desOf dom)) (observed dom hist)).length := by
        rw [hav]; unfold unobserved; omega
      obtain ⟨h1, h2, h3⟩ := enumIdx_spec (desOf dom) _ (observed dom hist) _ ω hk
      refine ⟨_, rfl, h1, h2, ?_⟩
      rw [h3]; unfold unobserved; omega

end C10
