/-
  Helpers for C04 section 9 (composition of the log-likelihood-gradient theorems with the kernel theorems):
  the CONCRETE kernel matrix `K(X,X) + diag(noise)` of a radial kernel as a matrix over `Fin n`, the three
  one-parameter families obtained by moving one hyperparameter (process variance, one length scale, a
  constant added to the noise diagonal), and their entry-wise derivatives, entry by entry the model's
  `gradKernelH` (Model/C04.lean).
-/
import Model.C04
import Proofs.ArithReal
import Proofs.C04Kernel
import Proofs.C02Matrix
import Proofs.C03Psd
import Mathlib.Data.List.OfFn
import Mathlib.Data.Matrix.Basic
import Mathlib.Data.Matrix.Diagonal
import Mathlib.LinearAlgebra.Matrix.Symmetric
import Mathlib.Analysis.Calculus.Deriv.Basic
import Mathlib.Analysis.Calculus.Deriv.Add
import Mathlib.Analysis.Calculus.Deriv.Mul

namespace C04
open Kernels

/-- `build_kernel_matrix(points_sampled, noise_variance)` for a radial kernel, as a matrix over `Fin n`:
    entry `(i, j)` is `kernel k alpha l (x i) (x j)`, plus `ν i` on the diagonal. -/
noncomputable def radialNoisy (k : Kind) {n d : ℕ} (alpha : ℝ) (l : Fin d → ℝ) (x : Fin n → Fin d → ℝ) (ν : Fin n → ℝ) :
    Matrix (Fin n) (Fin n) ℝ :=
  Matrix.of fun i j => kernel k alpha (List.ofFn l) (List.ofFn (x i)) (List.ofFn (x j)) + (if i = j then ν i else 0)

@[simp] theorem radialNoisy_apply (k : Kind) {n d : ℕ} (alpha : ℝ) (l : Fin d → ℝ) (x : Fin n → Fin d → ℝ)
    (ν : Fin n → ℝ) (i j : Fin n) :
    radialNoisy k alpha l x ν i j
      = kernel k alpha (List.ofFn l) (List.ofFn (x i)) (List.ofFn (x j)) + (if i = j then ν i else 0) := rfl

/-- it is the matrix `K + diag ν` of C02 (`Spec.noisy`) built on the Gram matrix of C03 (`gramMatrix`) -/
theorem radialNoisy_eq_noisy (k : Kind) {n d : ℕ} (alpha : ℝ) (l : Fin d → ℝ) (x : Fin n → Fin d → ℝ)
    (ν : Fin n → ℝ) :
    radialNoisy k alpha l x ν
      = C02.Spec.noisy (gramMatrix (kernel k alpha (List.ofFn l)) (fun i => List.ofFn (x i))) ν := by
  ext i j
  simp [C02.Spec.noisy, Matrix.diagonal_apply]

/-- entry `h` of the model's hyperparameter-gradient row (`h = 0`: process variance, `h = j + 1`: length
    scale `j`) for every pair of points: slice `h` of `build_kernel_hparam_grad_tensor` -/
noncomputable def radialHparamGrad (k : Kind) {n d : ℕ} (alpha : ℝ) (l : Fin d → ℝ) (x : Fin n → Fin d → ℝ)
    (h : ℕ) : Matrix (Fin n) (Fin n) ℝ :=
  Matrix.of fun i j => (gradKernelH k alpha (List.ofFn l) (List.ofFn (x i)) (List.ofFn (x j))).getD h 0

@[simp] theorem radialHparamGrad_apply (k : Kind) {n d : ℕ} (alpha : ℝ) (l : Fin d → ℝ)
    (x : Fin n → Fin d → ℝ) (h : ℕ) (i j : Fin n) :
    radialHparamGrad k alpha l x h i j
      = (gradKernelH k alpha (List.ofFn l) (List.ofFn (x i)) (List.ofFn (x j))).getD h 0 := rfl

/-- moving entry `j` of the length-scale vector is `List.set` on the list the model reads -/
theorem ofFn_update {d : ℕ} (l : Fin d → ℝ) (j : Fin d) (t : ℝ) :
    List.ofFn (Function.update l j t) = (List.ofFn l).set j.val t := by
  apply List.ext_getElem
  · simp
  · intro i h1 h2
    simp only [List.getElem_ofFn, List.getElem_set]
    by_cases h : j.val = i
    · have : (⟨i, by simpa using h1⟩ : Fin d) = j := Fin.ext h.symm
      simp [h, this]
    · have : (⟨i, by simpa using h1⟩ : Fin d) ≠ j := fun e => h (by rw [← e])
      simp [h, Function.update_of_ne this]

/-- **process variance**: entry-wise derivative of `t ↦ K(alpha := t) + diag ν` (every kernel kind, every θ) -/
theorem radialNoisy_alpha_hasDerivAt (k : Kind) {n d : ℕ} (l : Fin d → ℝ) (x : Fin n → Fin d → ℝ)
    (ν : Fin n → ℝ) (θ : ℝ) (i j : Fin n) :
    HasDerivAt (fun t => radialNoisy k t l x ν i j) (radialHparamGrad k θ l x 0 i j) θ := by
  have h : HasDerivAt (fun a => kernel k a (List.ofFn l) (List.ofFn (x i)) (List.ofFn (x j)))
      ((gradKernelH k θ (List.ofFn l) (List.ofFn (x i)) (List.ofFn (x j))).getD 0 0) θ := by
    have := (hasDerivAt_id θ).mul_const (phi k (r2 (List.ofFn l) (List.ofFn (x i)) (List.ofFn (x j))))
    simpa [kernel, gradKernelH, hparamRowWith] using this
  exact h.add_const _

/-- **length scale `j`**: entry-wise derivative of `t ↦ K(l j := t) + diag ν` at every θ ≠ 0 -/
theorem radialNoisy_length_hasDerivAt (k : Kind) (hk : differentiable k = true) {n d : ℕ} (alpha : ℝ)
    (l : Fin d → ℝ) (x : Fin n → Fin d → ℝ) (ν : Fin n → ℝ) (c : Fin d) (θ : ℝ) (hθ : θ ≠ 0) (i j : Fin n) :
    HasDerivAt (fun t => radialNoisy k alpha (Function.update l c t) x ν i j)
      (radialHparamGrad k alpha (Function.update l c θ) x (c.val + 1) i j) θ := by
  simp only [radialNoisy_apply, radialHparamGrad_apply, ofFn_update]
  exact (kernel_l_hasDerivAt k hk alpha (List.ofFn l) (List.ofFn (x i)) (List.ofFn (x j)) c.val θ hθ).add_const _

/-- **nugget / auto-noise**: entry-wise derivative of `t ↦ K + diag ν + t·I` is the identity matrix -/
theorem radialNoisy_nugget_hasDerivAt (k : Kind) {n d : ℕ} (alpha : ℝ) (l : Fin d → ℝ)
    (x : Fin n → Fin d → ℝ) (ν : Fin n → ℝ) (θ : ℝ) (i j : Fin n) :
    HasDerivAt (fun t => radialNoisy k alpha l x (fun a => ν a + t) i j)
      ((1 : Matrix (Fin n) (Fin n) ℝ) i j) θ := by
  simp only [radialNoisy_apply]
  by_cases h : i = j
  · subst h
    simp only [if_true, Matrix.one_apply_eq]
    exact ((hasDerivAt_id' θ).const_add (ν i)).const_add _
  · simp only [h, if_false, Matrix.one_apply_ne h]
    exact hasDerivAt_const θ _

/-- the family with the nugget is `radialNoisy + t • 1` -/
theorem radialNoisy_nugget_eq (k : Kind) {n d : ℕ} (alpha : ℝ) (l : Fin d → ℝ) (x : Fin n → Fin d → ℝ)
    (ν : Fin n → ℝ) (t : ℝ) :
    radialNoisy k alpha l x (fun a => ν a + t) = radialNoisy k alpha l x ν + t • (1 : Matrix (Fin n) (Fin n) ℝ) := by
  ext i j
  by_cases h : i = j
  · simp [h, add_assoc]
  · simp [h, Matrix.one_apply_ne h]

/-! ### the multitask tensor kernel: a point is `physical coordinates ++ [task]` -/

/-- `MultitaskTensorCovariance.build_kernel_matrix(X, noise_variance = ν)` as a matrix over `Fin n` -/
noncomputable def multitaskNoisy (kp kt : Kind) {n d : ℕ} (alpha : ℝ) (l : Fin d → ℝ) (lt : ℝ)
    (x : Fin n → Fin d → ℝ) (τ : Fin n → ℝ) (ν : Fin n → ℝ) : Matrix (Fin n) (Fin n) ℝ :=
  Matrix.of fun i j =>
    multitask kp kt alpha (List.ofFn l) lt (List.ofFn (x i) ++ [τ i]) (List.ofFn (x j) ++ [τ j])
      + (if i = j then ν i else 0)

@[simp] theorem multitaskNoisy_apply (kp kt : Kind) {n d : ℕ} (alpha : ℝ) (l : Fin d → ℝ) (lt : ℝ)
    (x : Fin n → Fin d → ℝ) (τ : Fin n → ℝ) (ν : Fin n → ℝ) (i j : Fin n) :
    multitaskNoisy kp kt alpha l lt x τ ν i j
      = multitask kp kt alpha (List.ofFn l) lt (List.ofFn (x i) ++ [τ i]) (List.ofFn (x j) ++ [τ j])
        + (if i = j then ν i else 0) := rfl

theorem multitaskNoisy_eq_noisy (kp kt : Kind) {n d : ℕ} (alpha : ℝ) (l : Fin d → ℝ) (lt : ℝ)
    (x : Fin n → Fin d → ℝ) (τ : Fin n → ℝ) (ν : Fin n → ℝ) :
    multitaskNoisy kp kt alpha l lt x τ ν
      = C02.Spec.noisy (gramMatrix (multitask kp kt alpha (List.ofFn l) lt) (fun i => List.ofFn (x i) ++ [τ i])) ν := by
  ext i j
  simp [C02.Spec.noisy, Matrix.diagonal_apply]

/-- entry `h` of the multitask hyperparameter-gradient rows (`0`: process variance, `c + 1`: physical length
    scale `c`, `d + 1`: task length scale): slice `h` of the multitask `build_kernel_hparam_grad_tensor` -/
noncomputable def multitaskHparamGrad (kp kt : Kind) {n d : ℕ} (alpha : ℝ) (l : Fin d → ℝ) (lt : ℝ)
    (x : Fin n → Fin d → ℝ) (τ : Fin n → ℝ) (h : ℕ) : Matrix (Fin n) (Fin n) ℝ :=
  Matrix.of fun i j =>
    (mtGradKernelH kp kt alpha (List.ofFn l) lt (List.ofFn (x i) ++ [τ i]) (List.ofFn (x j) ++ [τ j])).getD h 0

@[simp] theorem multitaskHparamGrad_apply (kp kt : Kind) {n d : ℕ} (alpha : ℝ) (l : Fin d → ℝ) (lt : ℝ)
    (x : Fin n → Fin d → ℝ) (τ : Fin n → ℝ) (h : ℕ) (i j : Fin n) :
    multitaskHparamGrad kp kt alpha l lt x τ h i j
      = (mtGradKernelH kp kt alpha (List.ofFn l) lt (List.ofFn (x i) ++ [τ i])
          (List.ofFn (x j) ++ [τ j])).getD h 0 := rfl

theorem multitaskNoisy_nugget_hasDerivAt (kp kt : Kind) {n d : ℕ} (alpha : ℝ) (l : Fin d → ℝ) (lt : ℝ)
    (x : Fin n → Fin d → ℝ) (τ : Fin n → ℝ) (ν : Fin n → ℝ) (θ : ℝ) (i j : Fin n) :
    HasDerivAt (fun t => multitaskNoisy kp kt alpha l lt x τ (fun a => ν a + t) i j)
      ((1 : Matrix (Fin n) (Fin n) ℝ) i j) θ := by
  simp only [multitaskNoisy_apply]
  by_cases h : i = j
  · subst h
    simp only [if_true, Matrix.one_apply_eq]
    exact ((hasDerivAt_id' θ).const_add (ν i)).const_add _
  · simp only [h, if_false, Matrix.one_apply_ne h]
    exact hasDerivAt_const θ _

theorem multitaskNoisy_nugget_eq (kp kt : Kind) {n d : ℕ} (alpha : ℝ) (l : Fin d → ℝ) (lt : ℝ)
    (x : Fin n → Fin d → ℝ) (τ : Fin n → ℝ) (ν : Fin n → ℝ) (t : ℝ) :
    multitaskNoisy kp kt alpha l lt x τ (fun a => ν a + t)
      = multitaskNoisy kp kt alpha l lt x τ ν + t • (1 : Matrix (Fin n) (Fin n) ℝ) := by
  ext i j
  by_cases h : i = j
  · simp [h, add_assoc]
  · simp [h, Matrix.one_apply_ne h]

end C04
