/-
  C02 ∘ C03 — the joint kernel matrix of observed + query points is a Gram matrix.

  `Properties/C02.lean` proves "posterior covariance PSD / variance ≥ 0" under the hypothesis that
  the joint matrix `[[A, K*ᵀ],[K*, K**]]` is positive semidefinite; `Properties/C03.lean` proves that
  every finite Gram matrix of libsigopt's kernels is.  The link between the two is pure reindexing:
  the block matrix indexed by `Fin n ⊕ Fin q` is the Gram matrix of the concatenated point family
  `Fin.append X Q`, read through `finSumFinEquiv : Fin n ⊕ Fin q ≃ Fin (n + q)`.

  Everything here is for an arbitrary two-argument function `k : P → P → ℝ` (no symmetry assumed:
  it follows from the semidefiniteness of the joint Gram matrix).
-/
import Proofs.C02Matrix
import Proofs.C03Psd
import Mathlib.LinearAlgebra.Matrix.PosDef
import Mathlib.LinearAlgebra.Matrix.Hermitian
import Mathlib.Data.Matrix.Block
import Mathlib.Logic.Equiv.Fin.Basic
import Mathlib.Algebra.Order.Star.Real

set_option linter.unusedSectionVars false

namespace C02
open Matrix Kernels

variable {P : Type} {n q : Nat}

/-- Cross-covariance matrix `K(X, Z)`: rows = the points `X`, columns = the points `Z`.
    (`K* = crossMatrix k Q X` for query points `Q` and observed points `X`, as in the library:
    rows = points to sample, columns = sampled points.) -/
def crossMatrix {m n : Nat} (k : P → P → ℝ) (X : Fin m → P) (Z : Fin n → P) : Matrix (Fin m) (Fin n) ℝ :=
  Matrix.of fun i j => k (X i) (Z j)

@[simp] theorem crossMatrix_apply {m n : Nat} (k : P → P → ℝ) (X : Fin m → P) (Z : Fin n → P)
    (i : Fin m) (j : Fin n) : crossMatrix k X Z i j = k (X i) (Z j) := rfl

theorem crossMatrix_self (k : P → P → ℝ) (X : Fin n → P) : crossMatrix k X X = gramMatrix k X := rfl

/-- the diagonal of `K(Q,Q)` is `k(x,x)` -/
theorem gramMatrix_diag (k : P → P → ℝ) (Q : Fin q → P) (i : Fin q) : gramMatrix k Q i i = k (Q i) (Q i) := rfl

/-- The joint block matrix is the Gram matrix of the combined family `Sum.elim X Q`. -/
theorem joint_gram_eq_sumElim (k : P → P → ℝ) (X : Fin n → P) (Q : Fin q → P) :
    fromBlocks (gramMatrix k X) (crossMatrix k X Q) (crossMatrix k Q X) (gramMatrix k Q)
      = Matrix.of fun a b => k (Sum.elim X Q a) (Sum.elim X Q b) := by
  ext (i | i) (j | j) <;> rfl

/-- The joint block matrix (indexed by `Fin n ⊕ Fin q`) is the Gram matrix of the concatenated family
    `Fin.append X Q : Fin (n + q) → P`, reindexed along `finSumFinEquiv`. -/
theorem joint_gram_eq_append (k : P → P → ℝ) (X : Fin n → P) (Q : Fin q → P) :
    fromBlocks (gramMatrix k X) (crossMatrix k X Q) (crossMatrix k Q X) (gramMatrix k Q)
      = (gramMatrix k (Fin.append X Q)).submatrix finSumFinEquiv finSumFinEquiv := by
  ext (i | i) (j | j) <;>
    simp [finSumFinEquiv_apply_left, finSumFinEquiv_apply_right]

/-- … hence positive semidefinite as soon as the Gram matrix of the `n + q` points is. -/
theorem joint_gram_posSemidef {k : P → P → ℝ} {X : Fin n → P} {Q : Fin q → P}
    (h : (gramMatrix k (Fin.append X Q)).PosSemidef) :
    (fromBlocks (gramMatrix k X) (crossMatrix k X Q) (crossMatrix k Q X) (gramMatrix k Q)).PosSemidef := by
  rw [joint_gram_eq_append]
  exact h.submatrix _

/-- … in particular whenever every finite Gram matrix of `k` is positive semidefinite. -/
theorem joint_gram_posSemidef_of_forall {k : P → P → ℝ}
    (h : ∀ (m : Nat) (pts : Fin m → P), (gramMatrix k pts).PosSemidef) (X : Fin n → P) (Q : Fin q → P) :
    (fromBlocks (gramMatrix k X) (crossMatrix k X Q) (crossMatrix k Q X) (gramMatrix k Q)).PosSemidef :=
  joint_gram_posSemidef (h _ _)

/-- A kernel whose joint Gram matrix is PSD is symmetric between the two point sets:
    `K(X,Q) = K(Q,X)ᵀ`. -/
theorem crossMatrix_eq_transpose {k : P → P → ℝ} {X : Fin n → P} {Q : Fin q → P}
    (h : (gramMatrix k (Fin.append X Q)).PosSemidef) : crossMatrix k X Q = (crossMatrix k Q X)ᵀ := by
  have hH := (joint_gram_posSemidef h).isHermitian
  rw [isHermitian_fromBlocks_iff] at hH
  rw [← hH.2.2.1, conjTranspose_eq_transpose_of_trivial]

/-- The joint matrix in the shape the C02 theorems ask for, `fromBlocks K K*ᵀ K* K**` with
    `K = K(X,X)`, `K* = K(Q,X)`, `K** = K(Q,Q)`. -/
theorem joint_posSemidef_of_gram {k : P → P → ℝ} {X : Fin n → P} {Q : Fin q → P}
    (h : (gramMatrix k (Fin.append X Q)).PosSemidef) :
    (fromBlocks (gramMatrix k X) (crossMatrix k Q X)ᵀ (crossMatrix k Q X) (gramMatrix k Q)).PosSemidef := by
  rw [← crossMatrix_eq_transpose h]
  exact joint_gram_posSemidef h

/-- … and with observation noise `≥ 0` on the observed block: the matrix `A = K(X,X) + diag(noise)`
    the GP factorises. -/
theorem noisy_joint_posSemidef_of_gram {k : P → P → ℝ} {X : Fin n → P} {Q : Fin q → P}
    (h : (gramMatrix k (Fin.append X Q)).PosSemidef) {noise : Fin n → ℝ} (hn : ∀ i, 0 ≤ noise i) :
    (fromBlocks (Spec.noisy (gramMatrix k X) noise) (crossMatrix k Q X)ᵀ (crossMatrix k Q X)
      (gramMatrix k Q)).PosSemidef := by
  have h2 : (fromBlocks (diagonal noise) (0 : Matrix (Fin n) (Fin q) ℝ) (0 : Matrix (Fin q) (Fin n) ℝ)
      (0 : Matrix (Fin q) (Fin q) ℝ)).PosSemidef := by
    have : fromBlocks (diagonal noise) (0 : Matrix (Fin n) (Fin q) ℝ) (0 : Matrix (Fin q) (Fin n) ℝ)
        (0 : Matrix (Fin q) (Fin q) ℝ) = diagonal (Sum.elim noise 0) := by
      rw [← fromBlocks_diagonal]; simp
    rw [this]
    exact PosSemidef.diagonal (fun i => by cases i <;> simp [hn])
  have := (joint_posSemidef_of_gram h).add h2
  simpa [Spec.noisy, fromBlocks_add] using this

/-- The Gram matrix of the observed points alone is PSD when the joint one is (principal block). -/
theorem gram_left_posSemidef {k : P → P → ℝ} {X : Fin n → P} {Q : Fin q → P}
    (h : (gramMatrix k (Fin.append X Q)).PosSemidef) : (gramMatrix k X).PosSemidef := by
  have e : gramMatrix k X = (gramMatrix k (Fin.append X Q)).submatrix (Fin.castAdd q) (Fin.castAdd q) := by
    ext i j; simp
  rw [e]; exact h.submatrix _

/-- PSD + strictly positive diagonal shift is positive definite: with noise `> 0` on every observed
    point the matrix `A = K + diag(noise)` is positive definite (so its Cholesky factorisation
    exists), duplicated points included. -/
theorem noisy_posDef_of_noise_pos {K : Matrix (Fin n) (Fin n) ℝ} (hK : K.PosSemidef) {noise : Fin n → ℝ}
    (hn : ∀ i, 0 < noise i) : (Spec.noisy K noise).PosDef :=
  PosDef.posSemidef_add hK (PosDef.diagonal hn)

/-- a positive definite matrix has a right inverse (namely `A⁻¹`) -/
theorem posDef_mul_inv {A : Matrix (Fin n) (Fin n) ℝ} (h : A.PosDef) : A * A⁻¹ = 1 :=
  Matrix.mul_nonsing_inv A ((Matrix.isUnit_iff_isUnit_det A).mp h.isUnit)

/-- transport of points through a map commutes with concatenation -/
theorem append_map {α β : Type} (f : α → β) (a : Fin n → α) (b : Fin q → α) :
    Fin.append (fun i => f (a i)) (fun j => f (b j)) = fun i => f (Fin.append a b i) := by
  funext i
  refine Fin.addCases (fun l => ?_) (fun r => ?_) i <;> simp

end C02
