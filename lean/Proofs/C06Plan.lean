/-
  C06 helper lemmas, part 3: well-formed requests, where every GP of the plan comes from, row counts,
  encodings, and the sort oracle of the minimum-success repair.
-/
import Proofs.C06Metric
import Proofs.C13Force
import Properties.C13
import Proofs.C09Misc

namespace C06
open Dom
open C14 (keepNot overwrite)

/-! ### Well-formedness, unpacked -/

structure WF (r : Request) : Prop where
  values_len : r.values.length = r.points.length
  vars_len : r.vars.length = r.points.length
  fails_len : r.fails.length = r.points.length
  values_rect : ∀ row ∈ r.values, row.length = r.objectives.length
  vars_rect : ∀ row ∈ r.vars, row.length = r.objectives.length
  thr_len : r.thresholds.length = r.objectives.length
  hyp_len : r.hypers.length = r.objectives.length
  opt_lt : ∀ k ∈ r.optIdx, k < r.objectives.length
  con_lt : ∀ k ∈ r.conIdx, k < r.objectives.length
  con_thr : ∀ k ∈ r.conIdx, (r.thresholds.getD k none).isSome = true
  pts_len : ∀ p ∈ r.points, p.length = r.comps.length
  pend_len : ∀ p ∈ r.pending, p.length = r.comps.length
  query_len : ∀ p ∈ r.queries, p.length = r.comps.length
  tasks : tasksOK r.hasTasks r.points.length r.taskCosts = true
  ptasks : tasksOK r.hasTasks r.pending.length r.pendingTasks = true
  qtasks : tasksOK r.hasTasks r.queries.length r.queryTasks = true
  mm : mmOK r = true

theorem wf_fields (r : Request) (hw : r.wf = true) : WF r := by
  simp only [Request.wf, Bool.and_eq_true, decide_eq_true_eq, List.all_eq_true] at hw
  obtain ⟨⟨⟨⟨⟨⟨⟨⟨⟨⟨⟨⟨⟨⟨⟨⟨h1, h2⟩, h3⟩, h4⟩, h5⟩, h6⟩, h7⟩, h8⟩, h9⟩, h10⟩, h11⟩, h12⟩, h13⟩, h14⟩, h15⟩, h16⟩, h17⟩ := hw
  exact ⟨h1, h2, h3, h4, h5, h6, h7, h8, h9, h10, h11, h12, h13, h14, h15, h16, h17⟩

theorem wf_of_fields (r : Request) (h : WF r) : r.wf = true := by
  simp only [Request.wf, Bool.and_eq_true, decide_eq_true_eq, List.all_eq_true]
  exact ⟨⟨⟨⟨⟨⟨⟨⟨⟨⟨⟨⟨⟨⟨⟨⟨h.1, h.2⟩, h.3⟩, h.4⟩, h.5⟩, h.6⟩, h.7⟩, h.8⟩, h.9⟩, h.10⟩, h.11⟩, h.12⟩, h.13⟩, h.14⟩,
    h.15⟩, h.16⟩, h.17⟩

theorem tasksOK_isSome {has : Bool} {n : Nat} {ts : Option (List Rat)} (h : tasksOK has n ts = true) :
    ts.isSome = has := by
  cases ts <;> cases has <;> simp_all [tasksOK]

theorem tasksOK_length {has : Bool} {n : Nat} {ts : Option (List Rat)} (h : tasksOK has n ts = true) :
    ∀ t, ts = some t → t.length = n := by
  intro t ht; subst ht
  simp only [tasksOK, Bool.and_eq_true, decide_eq_true_eq] at h
  exact h.2

/-! ### One-hot rows -/

theorem encRows_length (cs : List Component) (pts : List (List Rat)) (ts : Option (List Rat))
    (h : ∀ t, ts = some t → t.length = pts.length) : (encRows cs pts ts).length = pts.length := by
  cases ts with
  | none => simp [encRows]
  | some t => simp [encRows, h t rfl]

theorem mem_encRows (cs : List Component) (pts : List (List Rat)) (ts : Option (List Rat)) (x : List Rat)
    (h : x ∈ encRows cs pts ts) :
    ∃ cfg ∈ pts, ∃ t : Option Rat, t.isSome = ts.isSome ∧ x = encodeWithTask cs cfg t := by
  cases ts with
  | none =>
    simp only [encRows, List.mem_map] at h
    obtain ⟨cfg, hc, rfl⟩ := h
    exact ⟨cfg, hc, none, rfl, rfl⟩
  | some tl =>
    simp only [encRows, List.mem_map] at h
    obtain ⟨⟨cfg, t⟩, hc, rfl⟩ := h
    exact ⟨cfg, (List.of_mem_zip hc).1, some t, rfl, rfl⟩

theorem sampledEnc_length (r : Request) (hw : WF r) : (sampledEnc r).length = r.points.length :=
  encRows_length _ _ _ (tasksOK_length hw.tasks)

theorem pendingEnc_length (r : Request) (hw : WF r) : (pendingEnc r).length = r.pending.length := by
  unfold pendingEnc
  apply encRows_length
  intro t ht
  cases hh : r.hasTasks
  · simp [hh] at ht
  · simp only [hh, if_true] at ht
    exact tasksOK_length hw.ptasks t ht

theorem queryEnc_length (r : Request) (hw : WF r) : (queryEnc r).length = r.queries.length := by
  unfold queryEnc
  apply encRows_length
  intro t ht
  cases hh : r.hasTasks
  · simp [hh] at ht
  · simp only [hh, if_true] at ht
    exact tasksOK_length hw.qtasks t ht

/-- `x` is the one-hot row of a configuration from `src`, with a task column exactly when the request has tasks -/
def EncodedFrom (r : Request) (src : List (List Rat)) (x : List Rat) : Prop :=
  ∃ cfg ∈ src, ∃ t : Option Rat, t.isSome = r.hasTasks ∧ x = encodeWithTask r.comps cfg t

theorem sampledEnc_encoded (r : Request) (hw : WF r) : ∀ x ∈ sampledEnc r, EncodedFrom r r.points x := by
  intro x hx
  obtain ⟨cfg, hc, t, ht, rfl⟩ := mem_encRows _ _ _ _ hx
  exact ⟨cfg, hc, t, by rw [ht, tasksOK_isSome hw.tasks], rfl⟩

theorem ite_tasks_isSome {has : Bool} {n : Nat} {ts : Option (List Rat)} (h : tasksOK has n ts = true) :
    (if has = true then ts else none).isSome = has := by
  cases hh : has
  · simp
  · simp only [if_true]; rw [tasksOK_isSome h, hh]

theorem pendingEnc_encoded (r : Request) (hw : WF r) : ∀ x ∈ pendingEnc r, EncodedFrom r r.pending x := by
  intro x hx
  obtain ⟨cfg, hc, t, ht, rfl⟩ := mem_encRows _ _ _ _ hx
  exact ⟨cfg, hc, t, by rw [ht, ite_tasks_isSome hw.ptasks], rfl⟩

theorem queryEnc_encoded (r : Request) (hw : WF r) : ∀ x ∈ queryEnc r, EncodedFrom r r.queries x := by
  intro x hx
  obtain ⟨cfg, hc, t, ht, rfl⟩ := mem_encRows _ _ _ _ hx
  exact ⟨cfg, hc, t, by rw [ht, ite_tasks_isSome hw.qtasks], rfl⟩

theorem liePoints_length (r : Request) (hw : WF r) :
    (liePoints r).length = if r.parallelism = .constantLiar then r.pending.length else 0 := by
  unfold liePoints
  cases r.parallelism <;> simp [pendingEnc_length r hw]

theorem liePoints_encoded (r : Request) (hw : WF r) : ∀ x ∈ liePoints r, EncodedFrom r r.pending x := by
  intro x hx
  unfold liePoints at hx
  cases hp : r.parallelism <;> rw [hp] at hx
  · exact pendingEnc_encoded r hw x hx
  · cases hx

/-! ### Where the GPs of the plan come from -/

/-- provenance of a GP: stored metric `k` of group `idx`, possibly row-filtered by the epsilon mask -/
def FromMetric (r : Request) (idx : List Nat) (g : GPSpec) : Prop :=
  ∃ k ∈ idx, ∃ mask : Option (List Bool), g = mkGP r (metricOf r idx k) mask ∧
    (mask = none ∨ ∃ o c e, r.mm = .epsilon o c e ∧ mask = some (epsilonMask r o c e))

theorem afGPs_origin (r : Request) (hw : WF r) : ∀ g ∈ afGPs r, FromMetric r r.optIdx g := by
  intro g hg
  have hm := hw.mm
  unfold afGPs at hg
  unfold mmOK at hm
  cases hmm : r.mm with
  | none =>
    rw [hmm] at hg hm
    simp only [decide_eq_true_eq] at hm
    simp only [List.mem_singleton] at hg
    obtain ⟨k, hk, he⟩ := getD_map_mem (metricOf r r.optIdx) r.optIdx 0 defaultMetric (by omega)
    exact ⟨k, hk, none, by rw [hg, group, he], Or.inl rfl⟩
  | oneMetric o c =>
    rw [hmm] at hg hm
    simp only [Bool.and_eq_true, decide_eq_true_eq] at hm
    simp only [List.mem_singleton] at hg
    obtain ⟨k, hk, he⟩ := getD_map_mem (metricOf r r.optIdx) r.optIdx o defaultMetric (by omega)
    exact ⟨k, hk, none, by rw [hg, group, he], Or.inl rfl⟩
  | convex w =>
    rw [hmm] at hg
    simp only [group, List.map_map, List.mem_map, Function.comp] at hg
    obtain ⟨k, hk, rfl⟩ := hg
    exact ⟨k, hk, none, rfl, Or.inl rfl⟩
  | epsilon o c e =>
    rw [hmm] at hg hm
    simp only [Bool.and_eq_true, decide_eq_true_eq] at hm
    simp only [List.mem_singleton] at hg
    obtain ⟨k, hk, he⟩ := getD_map_mem (metricOf r r.optIdx) r.optIdx o defaultMetric (by omega)
    exact ⟨k, hk, some (epsilonMask r o c e), by rw [hg, group, he], Or.inr ⟨o, c, e, hmm, rfl⟩⟩

/-- provenance of a failure model -/
def PFOrigin (r : Request) (p : PFSpec) : Prop :=
  (p.kind = .logistic ∧ isEpsilon r.mm = true ∧ ∃ k ∈ r.optIdx, p.gp = mkGP r (metricOf r r.optIdx k) none) ∨
  (p.kind = .cdf ∧ ∃ k ∈ r.conIdx, p.gp = mkGP r (metricOf r r.conIdx k) none ∧
      p.threshold = ((metricOf r r.conIdx k).threshold).getD 0)

theorem pfs_origin (r : Request) (hw : WF r) : ∀ p ∈ pfs r, PFOrigin r p := by
  intro p hp
  unfold pfs at hp
  split_ifs at hp
  swap
  · cases hp
  rcases List.mem_append.mp hp with hp | hp
  · left
    have hm := hw.mm
    unfold paretoPFs at hp
    unfold mmOK at hm
    cases hmm : r.mm with
    | none => rw [hmm] at hp; cases hp
    | oneMetric o c => rw [hmm] at hp; cases hp
    | convex w => rw [hmm] at hp; cases hp
    | epsilon o c e =>
      rw [hmm] at hp hm
      simp only [Bool.and_eq_true, decide_eq_true_eq] at hm
      obtain ⟨k0, hk0, he0⟩ := getD_map_mem (metricOf r r.optIdx) r.optIdx 0 defaultMetric (by omega)
      obtain ⟨k1, hk1, he1⟩ := getD_map_mem (metricOf r r.optIdx) r.optIdx 1 defaultMetric (by omega)
      simp only [List.mem_append, List.mem_map] at hp
      rcases hp with ⟨t, _, rfl⟩ | ⟨t, _, rfl⟩
      · exact ⟨rfl, rfl, k0, hk0, by simp only [group]; rw [he0]⟩
      · exact ⟨rfl, rfl, k1, hk1, by simp only [group]; rw [he1]⟩
  · right
    simp only [constraintPFs, group, List.map_map, List.mem_map, Function.comp] at hp
    obtain ⟨k, hk, rfl⟩ := hp
    exact ⟨rfl, k, hk, rfl, rfl⟩

theorem allGPs_origin (r : Request) (hw : WF r) :
    ∀ g ∈ allGPs r, FromMetric r r.optIdx g ∨ FromMetric r r.conIdx g := by
  intro g hg
  rcases List.mem_append.mp hg with hg | hg
  · exact Or.inl (afGPs_origin r hw g hg)
  · simp only [List.mem_map] at hg
    obtain ⟨p, hp, rfl⟩ := hg
    rcases pfs_origin r hw p hp with ⟨_, _, k, hk, he⟩ | ⟨_, k, hk, he, _⟩
    · exact Or.inl ⟨k, hk, none, he, Or.inl rfl⟩
    · exact Or.inr ⟨k, hk, none, he, Or.inl rfl⟩

/-! ### Row counts of one GP -/

theorem mkGP_lengths (r : Request) (hw : WF r) (idx : List Nat) (k : Nat) (mask : Option (List Bool)) :
    let g := mkGP r (metricOf r idx k) mask
    g.points.length = g.values.length ∧ g.values.length = g.vars.length ∧
    g.points.length = (applyMask mask (sampledEnc r)).length + g.numLies ∧
    g.numLies = (if r.parallelism = .constantLiar then r.pending.length else 0) := by
  have h1 : (sampledEnc r).length = (metricOf r idx k).values.length := by
    rw [sampledEnc_length r hw, metricOf_values_length, hw.values_len]
  have h2 : (metricOf r idx k).values.length = (metricOf r idx k).vars.length := by
    rw [metricOf_values_length, metricOf_vars_length, hw.values_len, hw.vars_len]
  refine ⟨?_, ?_, ?_, liePoints_length r hw⟩
  · simp only [mkGP, List.length_append, List.length_replicate]
    rw [applyMask_length_eq mask _ _ h1]
  · simp only [mkGP, List.length_append, List.length_replicate]
    rw [applyMask_length_eq mask _ _ h2]
  · simp only [mkGP, List.length_append]

/-! ### Hyperparameter vector -/

theorem lsToOneHot_length : ∀ (cs : List Component) (ls : List (List (Option Rat))),
    C09.lsShapeOK cs ls = true → (C09.lsToOneHot cs ls).length = totalWidth cs
  | [], [], _ => rfl
  | [], _ :: _, h => by simp [C09.lsShapeOK] at h
  | _ :: _, [], h => by simp [C09.lsShapeOK] at h
  | c :: cs, l :: ls, h => by
    simp only [C09.lsShapeOK, Bool.and_eq_true, decide_eq_true_eq] at h
    simp only [C09.lsToOneHot, C09.any_isNone_of_all_isSome l h.1.2, Bool.false_eq_true, if_false,
      List.length_append, List.length_map, totalWidth, h.1.1, lsToOneHot_length cs ls h.2]

/-! ### The sort oracle of the minimum-success repair -/

theorem legalChoice_iff (vals : List Rat) (fails : List Bool) (chosen : List Nat) :
    legalChoice vals fails chosen = true ↔
      chosen.Nodup ∧ (∀ i ∈ chosen, i < fails.length ∧ fails.getD i false = true) ∧
      chosen.length = (if C13.numSuccessful fails < C13.minSuccessful then
          min (C13.minSuccessful - C13.numSuccessful fails) (fails.length - C13.numSuccessful fails) else 0) ∧
      (∀ i ∈ chosen, ∀ j < fails.length, fails.getD j false = true → j ∉ chosen → vals.getD i 0 ≤ vals.getD j 0) := by
  simp only [legalChoice, Bool.and_eq_true, decide_eq_true_eq, List.all_eq_true, Bool.or_eq_true,
    Bool.not_eq_true', List.mem_range, List.contains_eq_mem]
  constructor
  · rintro ⟨⟨⟨h1, h2⟩, h3⟩, h4⟩
    refine ⟨h1, h2, h3, fun i hi j hj hf hn => ?_⟩
    rcases h4 i hi j hj with (h | h) | h
    · rw [h] at hf; cases hf
    · exact absurd h hn
    · exact h
  · rintro ⟨h1, h2, h3, h4⟩
    refine ⟨⟨⟨h1, h2⟩, h3⟩, fun i hi j hj => ?_⟩
    by_cases hf : fails.getD j false = true
    · by_cases hn : j ∈ chosen
      · exact Or.inl (Or.inr hn)
      · exact Or.inr (h4 i hi j hj hf hn)
    · simp only [Bool.not_eq_true] at hf
      exact Or.inl (Or.inl hf)

/-- the stable-sort choice of the C13 model is one of the legal choices -/
theorem default_choice_legal (vals : List Rat) (fails : List Bool) :
    legalChoice vals fails (C13.forcedIndices vals fails) = true := by
  rw [legalChoice_iff]
  refine ⟨C13.forced_nodup vals fails, C13.forced_mem vals fails, C13.forced_length vals fails, ?_⟩
  intro i hi j hj hf hn
  exact C13.forced_lowest vals fails i j hi hj hf hn

theorem forceWith_length (fails : List Bool) (chosen : List Nat) : (forceWith fails chosen).length = fails.length := by
  simp [forceWith]

theorem forceWith_getD (fails : List Bool) (chosen : List Nat) (i : Nat) (h : i < fails.length) :
    (forceWith fails chosen).getD i false = (fails.getD i false && !chosen.contains i) := by
  simp [forceWith, List.getD_eq_getElem?_getD, h]

theorem forceMinSuccess_eq_forceWith (om : Nat) (rows : List (List Rat)) (fails : List Bool) :
    C13.forceMinSuccess om rows fails = forceWith fails (C13.forcedIndices (C13.col om rows) fails) := rfl

theorem countP_chosen (fails : List Bool) (chosen : List Nat) (hn : chosen.Nodup)
    (hs : ∀ i ∈ chosen, i < fails.length ∧ fails.getD i false = true) :
    (C13.failuresIndex fails).countP (fun i => chosen.contains i) = chosen.length := by
  rw [List.countP_eq_length_filter]
  apply List.Perm.length_eq
  rw [List.perm_ext_iff_of_nodup ((C13.failuresIndex_nodup fails).filter _) hn]
  intro a
  simp only [List.mem_filter, C13.mem_failuresIndex, List.contains_eq_mem, decide_eq_true_eq]
  constructor
  · exact fun h => h.2
  · exact fun h => ⟨hs a h, h⟩

theorem numSuccessful_forceWith (fails : List Bool) (chosen : List Nat) (hn : chosen.Nodup)
    (hs : ∀ i ∈ chosen, i < fails.length ∧ fails.getD i false = true) :
    C13.numSuccessful (forceWith fails chosen) = C13.numSuccessful fails + chosen.length := by
  have h1 : C13.numSuccessful (forceWith fails chosen) =
      (List.range fails.length).countP (fun i => (!fails.getD i false) || (fails.getD i false && chosen.contains i)) := by
    rw [C13.numSuccessful, forceWith, List.count_eq_countP, List.countP_map]
    apply List.countP_congr
    intro i _
    simp only [Function.comp]
    cases fails.getD i false <;> cases chosen.contains i <;> simp
  rw [h1, C13.countP_or_disjoint _ _ _ (by intro x _; cases fails.getD x false <;> simp), ← C13.numSuccessful_eq,
    ← countP_chosen fails chosen hn hs, C13.failuresIndex, List.countP_filter]
  congr 1
  apply List.countP_congr
  intro i _
  simp [Bool.and_comm]

theorem epsilonChosen_legal (r : Request) (opt con : Nat) (eps : Rat) :
    legalChoice (C13.col opt (afRows r)) (epsilonLabels r con eps) (epsilonChosen r opt con eps) = true := by
  unfold epsilonChosen
  cases r.forceChosen with
  | none => exact default_choice_legal _ _
  | some c =>
    simp only
    split_ifs with h
    · exact h
    · exact default_choice_legal _ _

theorem epsilonLabels_length (r : Request) (con : Nat) (eps : Rat) :
    (epsilonLabels r con eps).length = r.values.length := by
  simp [epsilonLabels, C13.epsFailures, C13.col, afRows, rowsOf]

theorem epsilonMask_length (r : Request) (opt con : Nat) (eps : Rat) :
    (epsilonMask r opt con eps).length = r.values.length := by
  rw [epsilonMask, forceWith_length, epsilonLabels_length]

/-- whatever the sort oracle says, the repair leaves at least min(5, n) rows -/
theorem epsilonMask_min_success (r : Request) (opt con : Nat) (eps : Rat) :
    min 5 r.values.length ≤ (epsilonMask r opt con eps).count false := by
  have hl := (legalChoice_iff _ _ _).mp (epsilonChosen_legal r opt con eps)
  have hc := numSuccessful_forceWith (epsilonLabels r con eps) (epsilonChosen r opt con eps) hl.1 hl.2.1
  have hlen := epsilonLabels_length r con eps
  have hle : C13.numSuccessful (epsilonLabels r con eps) ≤ (epsilonLabels r con eps).length := List.count_le_length
  change min 5 r.values.length ≤ C13.numSuccessful (epsilonMask r opt con eps)
  rw [epsilonMask, hc, hl.2.2.1, C13.gen_minSuccessful]
  split_ifs <;> omega

end C06
