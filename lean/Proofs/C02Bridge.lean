/-
  C02 — the executable model `Model/C02.lean` (sized `Vector`s of `Rat`) read as Mathlib matrices
  over `ℚ` indexed by `Fin n`: every operation of the model *is* the corresponding `Matrix`
  operation, every Boolean certificate *is* the corresponding equation, and the model's posterior
  is `C02.Spec`'s posterior.  With these lemmas every theorem of Proofs/C02Matrix.lean and
  Properties/C02.lean about `Spec.*` is a theorem about what the driver computes.
-/
import Model.C02
import Model.C02Oracle
import Proofs.C02Matrix
import Mathlib.Algebra.Order.Field.Rat
import Mathlib.Algebra.BigOperators.Fin
import Mathlib.Tactic.FieldSimp

set_option linter.unusedSectionVars false

namespace C02
open Matrix

/-- a model vector as a function -/
def toV {n : Nat} (v : Vec n) : Fin n → ℚ := fun i => vget v i
/-- a model matrix as a Mathlib matrix -/
def toM {n m : Nat} (A : Mat n m) : Matrix (Fin n) (Fin m) ℚ := fun i j => mget A i j

theorem sumFin_eq : ∀ {n : Nat} (f : Fin n → ℚ), sumFin f = ∑ i, f i
  | 0, f => by simp [sumFin]
  | n + 1, f => by rw [sumFin, sumFin_eq, Fin.sum_univ_succ]

theorem allFin_iff : ∀ {n : Nat} (f : Fin n → Bool), allFin f = true ↔ ∀ i, f i = true
  | 0, f => by simp [allFin]
  | n + 1, f => by
    rw [allFin, Bool.and_eq_true, allFin_iff, Fin.forall_fin_succ]

@[simp] theorem vget_ofFn {n : Nat} (f : Fin n → ℚ) (i : Fin n) : vget (Vector.ofFn f) i = f i := by
  simp [vget]
@[simp] theorem mget_ofFn {n m : Nat} (f : Fin n → Fin m → ℚ) (i : Fin n) (j : Fin m) :
    mget (Mat.ofFn f) i j = f i j := by
  simp [mget, Mat.ofFn]
@[simp] theorem vget_mrow {n m : Nat} (A : Mat n m) (i : Fin n) (j : Fin m) :
    vget (mrow A i) j = mget A i j := rfl

@[simp] theorem toV_apply {n : Nat} (v : Vec n) (i : Fin n) : toV v i = vget v i := rfl
@[simp] theorem toM_apply {n m : Nat} (A : Mat n m) (i : Fin n) (j : Fin m) : toM A i j = mget A i j := rfl

theorem toV_injective {n : Nat} {u v : Vec n} (h : toV u = toV v) : u = v := by
  apply Vector.ext
  intro i hi
  have := congrFun h ⟨i, hi⟩
  simpa [toV, vget] using this

theorem toM_injective {n m : Nat} {A B : Mat n m} (h : toM A = toM B) : A = B := by
  apply Vector.ext
  intro i hi
  apply Vector.ext
  intro j hj
  have := congrFun (congrFun h ⟨i, hi⟩) ⟨j, hj⟩
  simpa [toM, mget] using this

/-! ### operations -/

theorem toV_mulVec {n m : Nat} (A : Mat n m) (v : Vec m) : toV (mulVec A v) = toM A *ᵥ toV v := by
  funext i
  simp [mulVec, dot, sumFin_eq, Matrix.mulVec, dotProduct]

theorem toM_mul {n m k : Nat} (A : Mat n m) (B : Mat m k) : toM (mul A B) = toM A * toM B := by
  ext i j
  simp [mul, sumFin_eq, Matrix.mul_apply]

theorem toM_transpose {n m : Nat} (A : Mat n m) : toM (transpose A) = (toM A)ᵀ := by
  ext i j; simp [transpose]

theorem toV_vadd {n : Nat} (u v : Vec n) : toV (vadd u v) = toV u + toV v := by
  funext i; simp [vadd]
theorem toV_vsub {n : Nat} (u v : Vec n) : toV (vsub u v) = toV u - toV v := by
  funext i; simp [vsub]
theorem toM_msub {n m : Nat} (A B : Mat n m) : toM (msub A B) = toM A - toM B := by
  ext i j; simp [msub]
theorem toM_diagMat {n : Nat} (d : Vec n) : toM (diagMat d) = diagonal (toV d) := by
  ext i j; simp [diagMat, diagonal_apply]
theorem toV_zeroVec (n : Nat) : toV (zeroVec n) = 0 := by
  funext i; simp [zeroVec]

theorem toM_addDiag {n : Nat} (K : Mat n n) (d : Vec n) :
    toM (addDiag K d) = Spec.noisy (toM K) (toV d) := by
  ext i j; simp [addDiag, Spec.noisy, diagonal_apply]

theorem toV_noiseDiag_some {n : Nat} (t : ℚ) (noise : Vec n) : toV (noiseDiag (some t) noise) = fun _ => t := by
  funext i; simp [noiseDiag]
theorem toV_noiseDiag_none {n : Nat} (noise : Vec n) : toV (noiseDiag none noise) = toV noise := rfl

theorem toM_gram {n p : Nat} (P : Mat n p) (Ainv : Mat n n) :
    toM (gram P Ainv) = Spec.gram (toM P) (toM Ainv) := by
  simp [gram, Spec.gram, toM_mul, toM_transpose]

/-! ### Boolean certificates -/

theorem beq_iff {n m : Nat} (A B : Mat n m) : A.beq B = true ↔ toM A = toM B := by
  simp only [Mat.beq, allFin_iff, beq_iff_eq]
  constructor
  · intro h; ext i j; exact h i j
  · intro h i j; exact congrFun (congrFun h i) j

theorem isOne_iff {n : Nat} (A : Mat n n) : isOne A = true ↔ toM A = 1 := by
  simp only [isOne, allFin_iff, beq_iff_eq]
  constructor
  · intro h; ext i j; simp [h i j, Matrix.one_apply]
  · intro h i j; have := congrFun (congrFun h i) j; simpa [Matrix.one_apply] using this

theorem isSymm_iff {n : Nat} (A : Mat n n) : isSymm A = true ↔ (toM A)ᵀ = toM A := by
  simp only [isSymm, allFin_iff, beq_iff_eq]
  constructor
  · intro h; ext i j; simp [h j i]
  · intro h i j; have := congrFun (congrFun h j) i; simpa using this

theorem allPos_iff {n : Nat} (d : Vec n) : allPos d = true ↔ ∀ i, 0 < toV d i := by
  simp [allPos, allFin_iff]
theorem allNonneg_iff {n : Nat} (d : Vec n) : allNonneg d = true ↔ ∀ i, 0 ≤ toV d i := by
  simp [allNonneg, allFin_iff]

/-- What the run-time check `Pre.certified` establishes, as equations between matrices. -/
structure Certified {n p : Nat} (A : Mat n n) (P : Mat n p) (zeroMean : Bool) (pre : Pre n p) : Prop where
  symm : (toM A)ᵀ = toM A
  inv : toM A * toM pre.Ainv = 1
  ldl : toM pre.L * diagonal (toV pre.D) * (toM pre.L)ᵀ = toM A
  linv : toM pre.Linv * toM pre.L = 1
  dpos : ∀ j, 0 < toV pre.D j
  ginv : zeroMean = false → Spec.gram (toM P) (toM pre.Ainv) * toM pre.Ginv = 1

theorem certified_iff {n p : Nat} (A : Mat n n) (P : Mat n p) (zeroMean : Bool) (pre : Pre n p) :
    pre.certified A P zeroMean = true ↔ Certified A P zeroMean pre := by
  simp only [Pre.certified, Bool.and_eq_true, Bool.or_eq_true, isSymm_iff, isOne_iff, beq_iff, allPos_iff,
    toM_mul, toM_transpose, toM_diagMat, toM_gram]
  constructor
  · rintro ⟨⟨⟨⟨⟨h1, h2⟩, h3⟩, h4⟩, h5⟩, h6⟩
    refine ⟨h1, h2, h3, h4, h5, fun hz => ?_⟩
    rcases h6 with h | h
    · simp [hz] at h
    · exact h
  · intro h
    refine ⟨⟨⟨⟨⟨h.symm, h.inv⟩, h.ldl⟩, h.linv⟩, h.dpos⟩, ?_⟩
    cases hz : zeroMean
    · exact Or.inr (h.ginv hz)
    · exact Or.inl rfl

/-! ### the model's posterior is the specification's posterior -/

theorem toV_polyCoef_false {n p : Nat} (Ginv : Mat p p) (P : Mat n p) (Ainv : Mat n n) (y : Vec n) :
    toV (polyCoef false Ginv P Ainv y) = Spec.glsBeta (toM Ginv) (toM P) (toM Ainv) (toV y) := by
  simp [polyCoef, kInvY, Spec.glsBeta, toV_mulVec, toM_transpose]

theorem toV_polyCoef_true {n p : Nat} (Ginv : Mat p p) (P : Mat n p) (Ainv : Mat n n) (y : Vec n) :
    toV (polyCoef true Ginv P Ainv y) = 0 := by
  simp [polyCoef, toV_zeroVec]

theorem toV_weights_false {n p : Nat} (Ainv : Mat n n) (y : Vec n) (P : Mat n p) (β : Vec p) :
    toV (weights false Ainv y P β) = Spec.weights (toM Ainv) (toV y) (toM P) (toV β) := by
  simp [weights, kInvY, Spec.weights, toV_vsub, toV_mulVec]

theorem toV_weights_true {n p : Nat} (Ainv : Mat n n) (y : Vec n) (P : Mat n p) (β : Vec p) :
    toV (weights true Ainv y P β) = toM Ainv *ᵥ toV y := by
  simp [weights, kInvY, toV_mulVec]

theorem toV_residual {n p : Nat} (y : Vec n) (P : Mat n p) (β : Vec p) :
    toV (residual y P β) = toV y - toM P *ᵥ toV β := by
  simp [residual, toV_vsub, toV_mulVec]

theorem toV_mean {n p q : Nat} (Ks : Mat q n) (Ps : Mat q p) (w : Vec n) (β : Vec p) :
    toV (mean Ks Ps w β) = Spec.mean (toM Ks) (toM Ps) (toV w) (toV β) := by
  simp [mean, Spec.mean, toV_vadd, toV_mulVec]

theorem toV_varCardinalRaw {n q : Nat} (kxx : Vec q) (Ks : Mat q n) (Ainv : Mat n n) :
    toV (varCardinalRaw kxx Ks Ainv) = Spec.var (toV kxx) (toM Ks) (toM Ainv) := by
  funext i
  simp only [varCardinalRaw, cardinal, Spec.var, toV_apply, vget_ofFn, sumFin_eq, ← toM_apply,
    toM_transpose, toM_mul]

theorem toV_varCholRaw {n q : Nat} (kxx : Vec q) (Ks : Mat q n) (Linv : Mat n n) (D : Vec n) :
    toV (varCholRaw kxx Ks Linv D) = Spec.varLDL (toV kxx) (toM Ks) (toM Linv) (toV D) := by
  funext i
  simp only [varCholRaw, Spec.varLDL, toV_apply, vget_ofFn, sumFin_eq, ← toM_apply, toM_transpose,
    toM_mul, pow_two]

theorem toM_covChol {n q : Nat} (Kss : Mat q q) (Ks : Mat q n) (Linv : Mat n n) (D : Vec n) :
    toM (covChol Kss Ks Linv D)
      = Spec.covLDL (toM Kss) (toM Ks) (toM Linv) (fun j => (toV D j)⁻¹) := by
  ext i j
  simp only [covChol, Spec.covLDL, toM_apply, mget_ofFn, sumFin_eq, Matrix.sub_apply]
  congr 1
  rw [Matrix.mul_apply]
  refine Finset.sum_congr rfl fun k _ => ?_
  rw [mul_diagonal, transpose_apply, ← toM_apply, ← toM_apply, toM_mul, toM_transpose, toV_apply]
  rw [div_eq_mul_inv]; ring

theorem toM_covDirect {n q : Nat} (Kss : Mat q q) (Ks : Mat q n) (Ainv : Mat n n) :
    toM (covDirect Kss Ks Ainv) = Spec.cov (toM Kss) (toM Ks) (toM Ainv) := by
  simp [covDirect, Spec.cov, toM_msub, toM_mul, toM_transpose]


/-! ### sums of GPs: the model's left-to-right accumulation is the weighted sum -/

theorem vget_sumMean {q : Nat} (l : List (ℚ × Vec q)) (i : Fin q) :
    vget (sumMean l) i = (l.map fun wm => wm.1 * vget wm.2 i).sum := by
  induction l with
  | nil => simp [sumMean, zeroVec]
  | cons a l ih => obtain ⟨w, m⟩ := a; simp [sumMean, vadd, ih]

theorem vget_sumVar {q : Nat} (l : List (ℚ × Vec q)) (i : Fin q) :
    vget (sumVar l) i = (l.map fun wv => wv.1 ^ 2 * vget wv.2 i).sum := by
  induction l with
  | nil => simp [sumVar, zeroVec]
  | cons a l ih => obtain ⟨w, m⟩ := a; simp [sumVar, vadd, ih, pow_two]

theorem mget_sumCov {q : Nat} (l : List (ℚ × Mat q q)) (i j : Fin q) :
    mget (sumCov l) i j = (l.map fun wc => wc.1 ^ 2 * mget wc.2 i j).sum := by
  induction l with
  | nil => simp [sumCov]
  | cons a l ih => obtain ⟨w, m⟩ := a; simp [sumCov, ih, pow_two]

theorem toV_sumMean {q : Nat} (l : List (ℚ × Vec q)) :
    toV (sumMean l) = Spec.sumMean (fun k : Fin l.length => l[k.1].1) (fun k => toV l[k.1].2) := by
  funext i
  rw [Spec.gpsum_mean_apply, toV_apply, vget_sumMean]
  exact (Fin.sum_univ_fun_getElem l fun wm => wm.1 * vget wm.2 i).symm

theorem toV_sumVar {q : Nat} (l : List (ℚ × Vec q)) :
    toV (sumVar l) = Spec.sumVar (fun k : Fin l.length => l[k.1].1) (fun k => toV l[k.1].2) := by
  funext i
  rw [Spec.gpsum_var_apply, toV_apply, vget_sumVar]
  exact (Fin.sum_univ_fun_getElem l fun wm => wm.1 ^ 2 * vget wm.2 i).symm

theorem toM_sumCov {q : Nat} (l : List (ℚ × Mat q q)) :
    toM (sumCov l) = Spec.sumCov (fun k : Fin l.length => l[k.1].1) (fun k => toM l[k.1].2) := by
  ext i j
  rw [Spec.gpsum_cov_apply, toM_apply, mget_sumCov]
  exact (Fin.sum_univ_fun_getElem l fun wm => wm.1 ^ 2 * mget wm.2 i j).symm

theorem toM_shifted {q : Nat} (C : Mat q q) (shift : ℚ) :
    toM (shifted C shift) = (1 / 2 : ℚ) • (toM C + (toM C)ᵀ) + shift • (1 : Matrix (Fin q) (Fin q) ℚ) := by
  ext i j
  simp [shifted, Matrix.one_apply]
  ring

/-! ### list folds -/

theorem foldl_add_eq_sum (l : List ℚ) (a : ℚ) : l.foldl (· + ·) a = a + l.sum := by
  induction l generalizing a with
  | nil => simp
  | cons x xs ih => simp [ih, add_assoc]

theorem foldl_mul_eq (l : List ℚ) (a : ℚ) : l.foldl (· * ·) a = a * l.prod := by
  induction l generalizing a with
  | nil => simp
  | cons x xs ih => simp [ih, mul_assoc]

theorem floorVar_ge (v : ℚ) : minVar ≤ floorVar v ∧ v ≤ floorVar v := by
  unfold floorVar; split_ifs with h
  · exact ⟨le_refl _, le_of_lt h⟩
  · exact ⟨not_lt.mp h, le_refl _⟩

theorem floorVar_of_ge {v : ℚ} (h : minVar ≤ v) : floorVar v = v := by
  unfold floorVar; rw [if_neg (not_lt.mpr h)]

theorem floorVar_eq_max (v : ℚ) : floorVar v = max minVar v := by
  unfold floorVar; split_ifs with h
  · exact (max_eq_left (le_of_lt h)).symm
  · exact (max_eq_right (not_lt.mp h)).symm

end C02
