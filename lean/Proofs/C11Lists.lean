/-
  List-level helper lemmas for C11: the hyperparameter box, packing/unpacking, the per-metric loop and
  the multistart loop of Model/C11.lean.
-/
import Model.C11
import Proofs.ListMinMax
import Proofs.C09Misc
import Mathlib.Algebra.Order.Field.Rat
import Mathlib.Algebra.Order.Floor.Ring
import Mathlib.Data.Rat.Floor
import Mathlib.Tactic.Linarith
import Mathlib.Tactic.NormNum
import Mathlib.Tactic.Positivity

namespace C11
open Dom Proofs

/-! ### generated / literal constants -/

theorem minVar_pos : 0 < minVar := by norm_num [minVar]
theorem taskLo_pos : 0 < taskLo := by norm_num [taskLo]
theorem taskLo_lt_catHi : taskLo < catHi := by norm_num [taskLo, catHi]
theorem gridLoF_pos : 0 < gridLoF := by norm_num [gridLoF]
theorem gridLoF_lt_one : gridLoF < 1 := by norm_num [gridLoF]
theorem defaultTik_pos : 0 < defaultTik := by norm_num [defaultTik]

/-! ### sample variance -/

theorem sampleVar_ge (vals : List Rat) : minVar ≤ sampleVar vals := by
  unfold sampleVar
  split
  · exact le_refl _
  · exact le_max_right _ _

theorem sampleVar_pos (vals : List Rat) : 0 < sampleVar vals := lt_of_lt_of_le minVar_pos (sampleVar_ge vals)

/-! ### box rows -/

theorem boxWF_append (a b : List (Rat × Rat)) : boxWF (a ++ b) = (boxWF a && boxWF b) := by
  simp [boxWF, List.all_append]

theorem boxWF_iff (b : List (Rat × Rat)) : boxWF b = true ↔ ∀ r ∈ b, 0 < r.1 ∧ r.1 < r.2 := by
  simp [boxWF, List.all_eq_true]

theorem int_gap {lo hi : Rat} (hlo : isIntQ lo = true) (hhi : isIntQ hi = true) (h : lo < hi) : 1 ≤ hi - lo := by
  have hlo' : ((lo.floor : Int) : Rat) = lo := of_decide_eq_true hlo
  have hhi' : ((hi.floor : Int) : Rat) = hi := of_decide_eq_true hhi
  rw [← hlo', ← hhi'] at h ⊢
  have : lo.floor < hi.floor := by exact_mod_cast h
  have h2 : lo.floor + 1 ≤ hi.floor := this
  have : ((lo.floor + 1 : Int) : Rat) ≤ (hi.floor : Rat) := by exact_mod_cast h2
  push_cast at this
  linarith

/-- facts about a strictly increasing list with at least two entries -/
theorem sorted_head_le_last : ∀ (a : Rat) (t : List Rat), strictSorted (a :: t) = true →
    a ≤ (a :: t).getLastD 0
  | a, [], _ => by simp
  | a, b :: t, h => by
    simp only [strictSorted, Bool.and_eq_true, decide_eq_true_eq] at h
    have := sorted_head_le_last b t h.2
    have e : (a :: b :: t).getLastD 0 = (b :: t).getLastD 0 := by simp [List.getLastD]
    rw [e]; linarith [h.1]

theorem diffs_bounds : ∀ (a : Rat) (t : List Rat), strictSorted (a :: t) = true →
    ∀ d ∈ diffs (a :: t), 0 < d ∧ d ≤ (a :: t).getLastD 0 - a
  | a, [], _ => by simp [diffs]
  | a, b :: t, h => by
    simp only [strictSorted, Bool.and_eq_true, decide_eq_true_eq] at h
    have hl := sorted_head_le_last b t h.2
    have e : (a :: b :: t).getLastD 0 = (b :: t).getLastD 0 := by simp [List.getLastD]
    intro d hd
    simp only [diffs, List.mem_cons] at hd
    rw [e]
    rcases hd with rfl | hd
    · exact ⟨by linarith [h.1], by linarith⟩
    · have := diffs_bounds b t h.2 d hd
      exact ⟨this.1, by linarith [this.2, h.1]⟩

theorem lmin_diffs (a b : Rat) (t : List Rat) (h : strictSorted (a :: b :: t) = true) :
    0 < lmin (diffs (a :: b :: t)) ∧ lmin (diffs (a :: b :: t)) ≤ (a :: b :: t).getLastD 0 - a := by
  have hb := diffs_bounds a (b :: t) h
  have hmem : lmin (diffs (a :: b :: t)) ∈ diffs (a :: b :: t) := by
    simp only [diffs, lmin]
    rcases foldl_min_mem (diffs (b :: t)) (b - a) with e | e
    · rw [e]; exact List.mem_cons_self ..
    · exact List.mem_cons_of_mem _ e
  exact hb _ hmem

theorem compRows_wf (dll : Rat) (hd0 : 0 < dll) (hd1 : dll < 1) (c : Component) (hw : c.wf = true)
    (hs : compSorted c = true) :
    boxWF (compRows dll c) = true := by
  rw [boxWF_iff]
  cases c with
  | cat es =>
    intro r hr
    simp only [compRows] at hr
    obtain ⟨_, rfl⟩ := List.mem_replicate.mp hr
    exact ⟨hd0, by norm_num [catHi]; linarith⟩
  | double lo hi =>
    simp only [Component.wf, decide_eq_true_eq] at hw
    intro r hr
    simp only [compRows, List.mem_singleton] at hr
    subst hr
    simp only [lsLoF, lsHiF]
    constructor <;> nlinarith
  | int lo hi =>
    simp only [Component.wf, Bool.and_eq_true, decide_eq_true_eq] at hw
    have hg := int_gap hw.1.2 hw.2 hw.1.1
    intro r hr
    simp only [compRows, List.mem_singleton] at hr
    subst hr
    simp only [lsLoF, lsHiF]
    constructor
    · exact lt_of_lt_of_le hd0 (le_max_left _ _)
    · apply max_lt <;> nlinarith
  | grid es =>
    simp only [Component.wf, Bool.and_eq_true, decide_eq_true_eq] at hw
    simp only [compSorted] at hs
    match es, hw, hs with
    | a :: b :: t, _, hs =>
      have hm := lmin_diffs a b t hs
      have hw' : 0 < (a :: b :: t).getLastD 0 - a := lt_of_lt_of_le hm.1 hm.2
      intro r hr
      simp only [compRows, List.mem_singleton, List.headD_cons] at hr
      subst hr
      simp only [lsLoF, lsHiF]
      have g1 := gridLoF_pos
      have g2 := gridLoF_lt_one
      constructor
      · exact lt_of_lt_of_le (by nlinarith) (le_max_right _ _)
      · apply max_lt
        · nlinarith [hm.1, hm.2]
        · nlinarith
    | [], hw, _ => simp at hw
    | [_], hw, _ => simp at hw

theorem lsRows_wf (dll : Rat) (hd0 : 0 < dll) (hd1 : dll < 1) : ∀ (cs : List Component),
    cs.all Component.wf = true → gridsSorted cs = true → boxWF (lsRows dll cs) = true
  | [], _, _ => by simp [lsRows, boxWF]
  | c :: cs, hw, hs => by
    simp only [List.all_cons, Bool.and_eq_true] at hw
    simp only [gridsSorted, List.all_cons, Bool.and_eq_true] at hs
    rw [lsRows, boxWF_append, Bool.and_eq_true]
    exact ⟨compRows_wf dll hd0 hd1 c hw.1 hs.1, lsRows_wf dll hd0 hd1 cs hw.2 (by simpa [gridsSorted] using hs.2)⟩

theorem compRows_length (dll : Rat) (c : Component) : (compRows dll c).length = c.width := by
  cases c <;> simp [compRows, Component.width]

theorem lsRows_length (dll : Rat) : ∀ cs : List Component, (lsRows dll cs).length = totalWidth cs
  | [] => rfl
  | c :: cs => by simp [lsRows, totalWidth, compRows_length, lsRows_length dll cs]

/-! ### blocks with trailing coordinates -/

theorem blocks_append_extra : ∀ (cs : List Component) (v e : List Rat), v.length = totalWidth cs →
    blocks cs (v ++ e) = blocks cs v
  | [], v, e, _ => by simp [blocks]
  | c :: cs, v, e, h => by
    simp only [totalWidth] at h
    have h1 : c.width ≤ v.length := by omega
    simp only [blocks]
    rw [List.take_append_of_le_length h1, List.drop_append_of_le_length h1,
      blocks_append_extra cs (v.drop c.width) e (by simp; omega)]

theorem blocks_lengths : ∀ (cs : List Component) (v : List Rat), totalWidth cs ≤ v.length →
    (blocks cs v).map List.length = cs.map Component.width
  | [], _, _ => by simp [blocks]
  | c :: cs, v, h => by
    simp only [totalWidth] at h
    simp only [blocks, List.map_cons]
    rw [blocks_lengths cs (v.drop c.width) (by simp; omega)]
    simp; omega

theorem lsToOneHot_length : ∀ (cs : List Component) (ls : List (List Rat)),
    ls.map List.length = cs.map Component.width →
    (C09.lsToOneHot cs (ls.map fun l => l.map some)).length = totalWidth cs
  | [], [], _ => by simp [C09.lsToOneHot, totalWidth]
  | [], _ :: _, h => by simp at h
  | _ :: _, [], h => by simp at h
  | c :: cs, l :: ls, h => by
    simp only [List.map_cons, List.cons.injEq] at h
    have ih := lsToOneHot_length cs ls h.2
    have hnone : (List.map some l).any Option.isNone = false := by simp
    simp only [List.map_cons, C09.lsToOneHot, hnone, Bool.false_eq_true, if_false, List.length_append,
      List.length_map, totalWidth, ih, h.1]

theorem lsShapeOK_of_lengths : ∀ (cs : List Component) (ls : List (List Rat)),
    ls.map List.length = cs.map Component.width →
    C09.lsShapeOK cs (ls.map fun l => l.map some) = true
  | [], [], _ => by simp [C09.lsShapeOK]
  | [], _ :: _, h => by simp at h
  | _ :: _, [], h => by simp at h
  | c :: cs, l :: ls, h => by
    simp only [List.map_cons, List.cons.injEq] at h
    simp [C09.lsShapeOK, h.1, lsShapeOK_of_lengths cs ls h.2]

/-! ### the per-metric loop -/

theorem viewUpdate_length {H} (orig : List H) (fit : Job → H → H) : ∀ (js : List Job) (hs : List H),
    (viewUpdate orig fit hs js).length = hs.length
  | [], hs => rfl
  | j :: js, hs => by
    simp only [viewUpdate]
    split
    · exact viewUpdate_length orig fit js hs
    · split
      · exact viewUpdate_length orig fit js hs
      · rw [viewUpdate_length orig fit js _]; simp

theorem viewUpdate_untouched {H} (orig : List H) (fit : Job → H → H) (i : Nat) : ∀ (js : List Job) (hs : List H),
    (∀ j ∈ js, j.index = i → shouldSkip j.values = true) →
    (viewUpdate orig fit hs js)[i]? = hs[i]?
  | [], _, _ => rfl
  | j :: js, hs, h => by
    have ht : ∀ j' ∈ js, j'.index = i → shouldSkip j'.values = true :=
      fun j' hj' => h j' (List.mem_cons_of_mem _ hj')
    simp only [viewUpdate]
    split
    · exact viewUpdate_untouched orig fit i js hs ht
    · rename_i hns
      split
      · exact viewUpdate_untouched orig fit i js hs ht
      · rw [viewUpdate_untouched orig fit i js _ ht]
        have hne : j.index ≠ i := fun e => hns (h j (List.mem_cons_self ..) e)
        exact List.getElem?_set_ne hne

theorem successes_length_le {α} : ∀ (v : List α) (f : List Bool), (successes v f).length ≤ v.length
  | [], _ => by simp [successes]
  | _ :: _, [] => by simp [successes]
  | v :: vs, f :: fs => by
    simp only [successes]
    split
    · have := successes_length_le vs fs; simp; omega
    · have := successes_length_le vs fs; simp; omega

/-- `successes v f` is the sub-list of `v` at the rows whose failure flag is `false` -/
theorem successes_eq_filter {α} : ∀ (v : List α) (f : List Bool), v.length = f.length →
    successes v f = ((v.zip f).filter fun p => !p.2).map Prod.fst
  | [], [], _ => rfl
  | [], _ :: _, h => by simp at h
  | _ :: _, [], h => by simp at h
  | v :: vs, f :: fs, h => by
    have ih := successes_eq_filter vs fs (by simpa using h)
    cases f <;> simp [successes, ih]

/-! ### multistart invariant -/

/-- the best point so far is nothing, the first start, or a good end point of one of `rs` -/
def msInv (acc : List Rat → Bool) (first : List Rat) (rs : List Run) (s : MS) : Prop :=
  s.best = none ∨ s.best = some first ∨ ∃ r ∈ rs, goodEnd acc r = true ∧ s.best = some r.stop

theorem msInv_mono {acc first rs rs'} {s : MS} (h : msInv acc first rs s) (hsub : ∀ r ∈ rs, r ∈ rs') :
    msInv acc first rs' s := by
  rcases h with h | h | ⟨r, hr, hg, hb⟩
  · exact Or.inl h
  · exact Or.inr (Or.inl h)
  · exact Or.inr (Or.inr ⟨r, hsub r hr, hg, hb⟩)

theorem runOutcome_ok {acc : List Rat → Bool} {r : Run} (h : (runOutcome acc r).1 = true) :
    goodEnd acc r = true := by
  unfold runOutcome at h
  unfold goodEnd
  by_cases ha : acc r.stop = true
  · simp only [ha, if_true] at h
    by_cases hr : r.raised = true
    · simp [hr] at h
    · simp only [hr, Bool.false_eq_true, if_false] at h
      simp [ha, h, hr]
  · simp [ha] at h

theorem msStep_inv (acc : List Rat → Bool) (numMulti numSel : Nat) (first : List Rat) (done : List Run)
    (s : MS) (r : Run) (hs : msInv acc first done s) (hfirst : s.best = none → r.start = first) :
    msInv acc first (r :: done) (msStep acc numMulti numSel s r).1 ∧ (msStep acc numMulti numSel s r).1.best ≠ none := by
  have hmono : msInv acc first (r :: done) s := msInv_mono hs fun x hx => List.mem_cons_of_mem _ hx
  unfold msStep
  generalize hro : runOutcome acc r = ro
  obtain ⟨ok, fv⟩ := ro
  simp only []
  by_cases hc : (s.best.isNone || (ok && fv.gt s.bestVal)) = true
  · rw [if_pos hc]
    by_cases hc2 : (s.best.isNone && !ok) = true
    · rw [if_pos hc2]
      simp only [Bool.and_eq_true, Option.isNone_iff_eq_none] at hc2
      refine ⟨Or.inr (Or.inl ?_), by simp⟩
      simp [hfirst hc2.1]
    · rw [if_neg hc2]
      refine ⟨?_, by simp⟩
      -- here `ok` holds
      have hok : ok = true := by
        simp only [Bool.or_eq_true, Bool.and_eq_true] at hc
        simp only [Bool.and_eq_true, not_and, Bool.not_eq_true', Bool.not_eq_false] at hc2
        rcases hc with h | h
        · have := hc2 h; simpa using this
        · exact h.1
      have hg : goodEnd acc r = true := runOutcome_ok (by rw [hro]; exact hok)
      exact Or.inr (Or.inr ⟨r, List.mem_cons_self .., hg, rfl⟩)
  · rw [if_neg hc]
    simp only [Bool.or_eq_true, not_or, Option.isNone_iff_eq_none] at hc
    refine ⟨?_, hc.1⟩
    rcases hmono with h | h | h
    · exact absurd h hc.1
    · exact Or.inr (Or.inl h)
    · exact Or.inr (Or.inr h)

theorem msStep_best_ne_none (acc : List Rat → Bool) (numMulti numSel : Nat) (s : MS) (r : Run) :
    (msStep acc numMulti numSel s r).1.best ≠ none := by
  unfold msStep
  generalize runOutcome acc r = ro
  obtain ⟨ok, fv⟩ := ro
  simp only []
  by_cases hc : (s.best.isNone || (ok && fv.gt s.bestVal)) = true
  · rw [if_pos hc]
    split <;> simp
  · rw [if_neg hc]
    simp only [Bool.or_eq_true, not_or, Option.isNone_iff_eq_none] at hc
    exact hc.1

theorem msLoop_inv (acc : List Rat → Bool) (numMulti numSel : Nat) (first : List Rat) :
    ∀ (rs done : List Run) (s : MS), msInv acc first done s →
      (s.best = none → ∃ r t, rs = r :: t ∧ r.start = first) →
      ∀ p, msLoop acc numMulti numSel s rs = some p →
        p = first ∨ ∃ r ∈ done ++ rs, goodEnd acc r = true ∧ p = r.stop
  | [], _, _, _, _, p, h => by simp [msLoop] at h
  | r :: rs, done, s, hs, hf, p, h => by
    have hfirst : s.best = none → r.start = first := by
      intro hn
      obtain ⟨r', t, e, hr'⟩ := hf hn
      simp only [List.cons.injEq] at e
      rw [e.1]; exact hr'
    obtain ⟨hinv, hne⟩ := msStep_inv acc numMulti numSel first done s r hs hfirst
    simp only [msLoop] at h
    generalize hst : msStep acc numMulti numSel s r = st at h hinv hne
    obtain ⟨s', brk⟩ := st
    simp only [] at h hinv hne
    by_cases hb : brk = true
    · rw [if_pos hb] at h
      rcases hinv with e | e | ⟨r', hr', hg, e⟩
      · exact absurd e hne
      · rw [e] at h; left; exact (Option.some.inj h).symm
      · rw [e] at h; right
        refine ⟨r', ?_, hg, (Option.some.inj h).symm⟩
        rcases List.mem_cons.mp hr' with rfl | hm
        · simp
        · simp [hm]
    · rw [if_neg hb] at h
      have := msLoop_inv acc numMulti numSel first rs (r :: done) s' hinv (fun hn => absurd hn hne) p h
      rcases this with e | ⟨r', hr', hg, e⟩
      · exact Or.inl e
      · right
        refine ⟨r', ?_, hg, e⟩
        simp only [List.mem_append, List.mem_cons] at hr' ⊢
        tauto

theorem minSuccesses_zero (k : Nat) : minSuccesses k = 0 := by
  simp [minSuccesses, fl]
  decide +kernel

/-- a point of a well-formed box is strictly positive in every coordinate and has the box's length -/
theorem inBox_pos : ∀ (b : List (Rat × Rat)) (x : List Rat), boxWF b = true → inBoxB b x = true →
    x.length = b.length ∧ ∀ v ∈ x, 0 < v
  | [], [], _, _ => by simp
  | [], _ :: _, _, h => by simp [inBoxB, withinBounds] at h
  | _ :: _, [], _, h => by simp [inBoxB, withinBounds] at h
  | (lo, hi) :: b, v :: x, hw, h => by
    simp only [boxWF, List.all_cons, Bool.and_eq_true, decide_eq_true_eq] at hw
    simp only [inBoxB, withinBounds, Bool.and_eq_true, decide_eq_true_eq] at h
    have ih := inBox_pos b x (by simpa [boxWF] using hw.2) (by simpa [inBoxB] using h.2)
    refine ⟨by simp [ih.1], ?_⟩
    intro w hw'
    rcases List.mem_cons.mp hw' with rfl | hw'
    · linarith [hw.1.1, h.1.1]
    · exact ih.2 w hw'

theorem getLast?_append_singleton {α} (l : List α) (a : α) : (l ++ [a]).getLast? = some a := by
  simp

theorem msStep_n (acc : List Rat → Bool) (numMulti numSel : Nat) (s : MS) (r : Run) :
    (msStep acc numMulti numSel s r).1.n = s.n + 1 := by
  unfold msStep
  generalize runOutcome acc r = ro
  obtain ⟨ok, fv⟩ := ro
  simp only []
  split
  · split <;> rfl
  · rfl

theorem msStep_brk (acc : List Rat → Bool) (numMulti numSel : Nat) (s : MS) (r : Run)
    (hb : s.best ≠ none) (hn : numMulti ≠ 0) (hle : numMulti ≤ s.n + 1) :
    (msStep acc numMulti numSel s r).2 = true := by
  unfold msStep
  generalize runOutcome acc r = ro
  obtain ⟨ok, fv⟩ := ro
  have hnone : s.best.isNone = false := by
    cases hs : s.best with
    | none => exact absurd hs hb
    | some _ => rfl
  simp only [hnone, Bool.false_or, Bool.false_and, Bool.false_eq_true, if_false, hn, minSuccesses_zero,
    Nat.zero_le, decide_true, Bool.and_true]
  split <;> simp [hle]

theorem msLoop_returns (acc : List Rat → Bool) (numMulti numSel : Nat) (hn : numMulti ≠ 0) :
    ∀ (rs : List Run) (s : MS), s.best ≠ none → rs ≠ [] → numMulti ≤ s.n + rs.length →
      (msLoop acc numMulti numSel s rs).isSome = true
  | [], _, _, h, _ => absurd rfl h
  | r :: rs, s, hb, _, hle => by
    simp only [msLoop]
    have hne := msStep_best_ne_none acc numMulti numSel s r
    generalize hst : msStep acc numMulti numSel s r = st at hne
    obtain ⟨s', brk⟩ := st
    simp only [] at hne ⊢
    by_cases hbk : brk = true
    · rw [if_pos hbk]
      cases hs' : s'.best with
      | none => exact absurd hs' hne
      | some _ => rfl
    · rw [if_neg hbk]
      have hn' : s'.n = s.n + 1 := by
        have := msStep_n acc numMulti numSel s r; rw [hst] at this; exact this
      have hnotle : ¬ numMulti ≤ s.n + 1 := by
        intro hle'
        have := msStep_brk acc numMulti numSel s r hb hn hle'
        rw [hst] at this; exact hbk this
      have hrs : rs ≠ [] := by
        intro e; subst e; simp at hle; omega
      exact msLoop_returns acc numMulti numSel hn rs s' hne hrs (by simp at hle; omega)


theorem boxOrStart_of_inBox : ∀ (b : List (Rat × Rat)) (s x : List Rat), s.length = b.length →
    inBoxB b x = true → boxOrStart b s x = true
  | [], [], [], _, _ => rfl
  | [], [], _ :: _, _, h => by simp [inBoxB, withinBounds] at h
  | [], _ :: _, _, hs, _ => by simp at hs
  | _ :: _, [], _, hs, _ => by simp at hs
  | _ :: _, _ :: _, [], _, h => by simp [inBoxB, withinBounds] at h
  | (lo, hi) :: b, s :: ss, x :: xs, hs, h => by
    simp only [inBoxB, withinBounds, Bool.and_eq_true, decide_eq_true_eq] at h
    have ih := boxOrStart_of_inBox b ss xs (by simpa using hs) (by simpa [inBoxB] using h.2)
    simp [boxOrStart, h.1.1, h.1.2, ih]

theorem boxOrStart_self : ∀ (b : List (Rat × Rat)) (s : List Rat), s.length = b.length →
    boxOrStart b s s = true
  | [], [], _ => rfl
  | [], _ :: _, hs => by simp at hs
  | _ :: _, [], hs => by simp at hs
  | (lo, hi) :: b, s :: ss, hs => by
    have ih := boxOrStart_self b ss (by simpa using hs)
    simp [boxOrStart, ih]

end C11
