/-
  C11 helper lemmas over `ℝ`: the Arith-polymorphic pieces of Model/C11.lean at the real instance
  (`adot`, sums of logs, exp/log round trips on lists).
-/
import Model.C11
import Proofs.ArithReal
import Mathlib.Data.Matrix.Mul
import Mathlib.Algebra.BigOperators.Fin
import Mathlib.Tactic.Ring

open Matrix

namespace C11

theorem adot_ofFn : ∀ {n : Nat} (u v : Fin n → ℝ), adot (List.ofFn u) (List.ofFn v) = u ⬝ᵥ v
  | 0, _, _ => by simp [adot, dotProduct]
  | n + 1, u, v => by
    rw [List.ofFn_succ, List.ofFn_succ]
    simp only [adot, dotProduct, Fin.sum_univ_succ]
    rw [adot_ofFn (fun i => u i.succ) (fun i => v i.succ)]
    rfl

theorem sum_log_ofFn : ∀ {n : Nat} (d : Fin n → ℝ),
    Arith.sum ((List.ofFn d).map Arith.log) = ∑ i, Real.log (d i)
  | 0, _ => by simp [Arith.sum]
  | n + 1, d => by
    rw [List.ofFn_succ]
    simp only [List.map_cons, Arith.sum, Fin.sum_univ_succ]
    rw [sum_log_ofFn (fun i => d i.succ)]
    rfl

theorem llSpec_real (s q d : ℝ) : llSpec s q d = -(s * (q + Real.log d)) := rfl

theorem map_log_exp (x : List ℝ) : (x.map Arith.exp).map Arith.log = x := by
  rw [List.map_map]
  conv_rhs => rw [← List.map_id x]
  apply List.map_congr_left
  intro a _
  show Real.log (Real.exp a) = a
  exact Real.log_exp a

theorem map_exp_log (h : List ℝ) (hp : ∀ a ∈ h, 0 < a) : (h.map Arith.log).map Arith.exp = h := by
  rw [List.map_map]
  conv_rhs => rw [← List.map_id h]
  apply List.map_congr_left
  intro a ha
  show Real.exp (Real.log a) = a
  exact Real.exp_log (hp a ha)

theorem take_append_getLast? {α} (l : List α) (k : Nat) (h : l.length = k + 1) (t : α)
    (ht : l.getLast? = some t) : l.take k ++ [t] = l := by
  have hne : l ≠ [] := by intro e; simp [e] at h
  have h1 := List.dropLast_append_getLast? t ht
  rw [List.dropLast_eq_take, h] at h1
  simpa using h1


end C11
