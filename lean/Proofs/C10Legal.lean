/- Helper lemmas for C10: the decidable refinement test `legalEnum` is sound and complete. -/
import Proofs.C10Distinct
import Proofs.C10Sample

namespace C10

theorem map_decode_encode {des : List (List Rat)} {out : List Row}
    (h : ∀ r ∈ out, rowIn des r = true) :
    (out.map (encodeIdx des)).map (decodeIdx des) = out := by
  rw [List.map_map]
  conv_rhs => rw [← List.map_id out]
  apply List.map_congr_left
  intro r hr
  simp only [Function.comp, encodeIdx_eq, id]
  exact decode_encode (h r hr)

theorem map_encode_decode {des : List (List Rat)} (hnd : ∀ es ∈ des, es.Nodup) {idxs : List Nat}
    (h : ∀ i ∈ idxs, i < numConfigs des) :
    (idxs.map (decodeIdx des)).map (encodeIdx des) = idxs := by
  rw [List.map_map]
  conv_rhs => rw [← List.map_id idxs]
  apply List.map_congr_left
  intro i hi
  simp only [Function.comp, encodeIdx_eq, id]
  exact encode_decode hnd (h i hi)

theorem legalEnum_complete {des : List (List Rat)} (hnd : ∀ es ∈ des, es.Nodup)
    (hne : ∀ es ∈ des, es ≠ []) (excl : List Row) {k : Nat} (ω : Oracle)
    (hk : k ≤ (availIdx des (numConfigs des) excl).length) :
    legalEnum des (numConfigs des) excl k (enumBranch des (numConfigs des) excl k ω) = true := by
  obtain ⟨h1, h2, h3⟩ := enumIdx_spec des (numConfigs des) excl k ω hk
  have hlt : ∀ i ∈ enumIdx des (numConfigs des) excl k ω, i < numConfigs des :=
    fun i hi => (mem_availIdx.mp (h2 i hi)).1
  simp only [legalEnum, enumBranch, map_encode_decode hnd hlt, Bool.and_eq_true, List.all_eq_true,
    decide_eq_true_eq, List.length_map, List.contains_iff_mem]
  refine ⟨⟨⟨?_, h1⟩, h2⟩, by rw [h3]; omega⟩
  intro r hr
  obtain ⟨i, _, rfl⟩ := List.mem_map.mp hr
  exact decode_rowIn hne i

theorem legalEnum_sound {des : List (List Rat)} {N : Nat} {excl : List Row} {k : Nat}
    {out : List Row} (hk : k ≤ (availIdx des N excl).length)
    (h : legalEnum des N excl k out = true) :
    ∃ ω : Oracle, (enumBranch des N excl k ω).Perm out := by
  simp only [legalEnum, Bool.and_eq_true, List.all_eq_true, decide_eq_true_eq,
    List.contains_iff_mem] at h
  obtain ⟨⟨⟨hrow, hnd⟩, hsub⟩, hlen⟩ := h
  have hout := map_decode_encode hrow
  have hlen' : (out.map (encodeIdx des)).length = k := by rw [List.length_map, hlen]; omega
  by_cases hgt : (availIdx des N excl).length > k
  · obtain ⟨c, hc⟩ := pick_surj hnd hsub
    refine ⟨⟨c, [], [], []⟩, ?_⟩
    rw [hlen'] at hc
    simp only [enumBranch, enumIdx, enumIdxOf, hgt, if_true, hc, hout]
    exact List.Perm.refl _
  · refine ⟨⟨[], [], [], []⟩, ?_⟩
    have h0 : k - (availIdx des N excl).length = 0 := by omega
    simp only [enumBranch, enumIdx, enumIdxOf, hgt, if_false, h0, List.take_zero, List.map_nil, List.append_nil]
    have hperm : (out.map (encodeIdx des)).Perm (availIdx des N excl) :=
      (List.subperm_of_subset hnd hsub).perm_of_length_le (by rw [hlen']; omega)
    have := hperm.symm.map (decodeIdx des)
    rwa [hout] at this

theorem openAtHiRow_discrete {dom : Domain} (hd : isDiscrete dom = true) (row : Row) :
    openAtHiRow dom row = true := by
  induction dom generalizing row with
  | nil => cases row <;> simp [openAtHiRow]
  | cons c cs ih =>
    simp only [isDiscrete, List.all_cons, Bool.and_eq_true] at hd
    cases row with
    | nil => simp [openAtHiRow]
    | cons v vs =>
      simp only [openAtHiRow, Bool.and_eq_true]
      refine ⟨?_, ih (by simpa [isDiscrete] using hd.2) vs⟩
      cases c <;> simp_all [openAtHi1, Comp.isDiscrete]

theorem exists_draws {dom : Domain} (hwf : WF dom) (hd : isDiscrete dom = true) {out : List Row}
    (h : ∀ r ∈ out, admissibleRow dom r = true) :
    ∃ draws : List (List Draw), draws.map (sampleRow dom) = out := by
  induction out with
  | nil => exact ⟨[], rfl⟩
  | cons r rs ih =>
    obtain ⟨ds, _, hds⟩ := sampleRow_support hwf (h r (List.mem_cons_self ..)) (openAtHiRow_discrete hd r)
    obtain ⟨draws, hdraws⟩ := ih fun r' hr' => h r' (List.mem_cons_of_mem _ hr')
    exact ⟨ds :: draws, by simp [hds, hdraws]⟩

theorem plainSample_of_map {dom : Domain} {draws : List (List Draw)} {out : List Row}
    (h : draws.map (sampleRow dom) = out) : plainSample dom out.length draws = out := by
  subst h
  apply List.ext_getElem
  · simp [plainSample]
  · intro i h1 h2
    have hi : i < draws.length := by simpa using h2
    simp only [plainSample, List.getElem_map, List.getElem_range]
    rw [List.getD_eq_getElem?_getD, List.getElem?_eq_getElem hi]
    rfl

end C10
