/- Helper lemmas for C08: Cauchy–Schwarz over `Rat` lists, Chebyshev-centre and dual certificates. -/
import Proofs.C08Basic
import Mathlib.Tactic.Positivity

namespace C08

/-- one induction step of Cauchy–Schwarz, without square roots -/
theorem cs_step (x y D N M : Rat) (hN : 0 ≤ N) (hM : 0 ≤ M) (h : D * D ≤ N * M) :
    (x * y + D) * (x * y + D) ≤ (x * x + N) * (y * y + M) := by
  have key : 2 * x * y * D ≤ x * x * M + y * y * N := by
    rcases eq_or_lt_of_le hN with hN0 | hNpos
    · -- N = 0 ⇒ D = 0
      have hD : D * D ≤ 0 := by rw [← hN0] at h; simpa using h
      have hD0 : D = 0 := by
        have := mul_self_nonneg D
        have : D * D = 0 := le_antisymm hD this
        exact mul_self_eq_zero.mp this
      rw [hD0, ← hN0]; nlinarith [mul_self_nonneg x]
    · -- N * (x²M + y²N − 2xyD) = (yN − xD)² + x²(NM − D²) ≥ 0
      have h1 : 0 ≤ N * (x * x * M + y * y * N - 2 * x * y * D) := by
        have e : N * (x * x * M + y * y * N - 2 * x * y * D)
            = (y * N - x * D) * (y * N - x * D) + x * x * (N * M - D * D) := by ring
        rw [e]
        have := mul_self_nonneg (y * N - x * D)
        have := mul_nonneg (mul_self_nonneg x) (sub_nonneg.mpr h)
        linarith
      have := nonneg_of_mul_nonneg_right h1 hNpos
      linarith
  nlinarith

/-- Cauchy–Schwarz: `(a·d)² ≤ ‖a‖² ‖d‖²` (truncating `dot`, full norms). -/
theorem cauchy_schwarz : ∀ (a d : Vec), dot a d * dot a d ≤ nsq a * nsq d
  | [], d => by simp [nsq]
  | a :: as, [] => by simp [nsq]
  | a :: as, d :: ds => by
    have ih := cauchy_schwarz as ds
    have h1 := nsq_nonneg as
    have h2 := nsq_nonneg ds
    unfold nsq at ih h1 h2 ⊢
    simp only [dot_cons]
    exact cs_step a d _ _ _ h1 h2 ih

theorem vsub_dot (a y c : Vec) (h : y.length = c.length) : dot a (vsub y c) = dot a y - dot a c := by
  unfold vsub
  rw [dot_zipWith _ 1 (-1) (by intro x y; ring) a y c h]; ring

/-- from `x² ≤ s²` and `0 ≤ s` conclude `x ≤ s` -/
theorem le_of_mul_self_le (x s : Rat) (hs : 0 ≤ s) (h : x * x ≤ s * s) : x ≤ s := by
  by_contra hc
  rw [not_le] at hc
  have := mul_self_lt_mul_self hs hc
  linarith

theorem chebyRowOK_iff (c : Vec) (r : Rat) (row : Row) :
    chebyRowOK c r row = true ↔
      0 ≤ row.b - dot row.a c ∧ r * r * nsq row.a ≤ (row.b - dot row.a c) * (row.b - dot row.a c) := by
  simp [chebyRowOK]

/-- one row: every point within distance r of c satisfies the row -/
theorem chebyRow_ball (c y : Vec) (r : Rat) (row : Row) (hl : y.length = c.length)
    (hok : chebyRowOK c r row = true) (hy : distSq y c ≤ r * r) : dot row.a y ≤ row.b := by
  rw [chebyRowOK_iff] at hok
  obtain ⟨hs, hr⟩ := hok
  have hd := vsub_dot row.a y c hl
  have hcs := cauchy_schwarz row.a (vsub y c)
  unfold distSq at hy
  have h1 : nsq row.a * nsq (vsub y c) ≤ nsq row.a * (r * r) :=
    mul_le_mul_of_nonneg_left hy (nsq_nonneg _)
  have h2 : dot row.a (vsub y c) * dot row.a (vsub y c) ≤ (row.b - dot row.a c) * (row.b - dot row.a c) := by
    calc _ ≤ nsq row.a * nsq (vsub y c) := hcs
      _ ≤ nsq row.a * (r * r) := h1
      _ = r * r * nsq row.a := by ring
      _ ≤ _ := hr
  have := le_of_mul_self_le _ _ hs h2
  linarith

/-! ### weak duality -/

theorem zeros_length (n : Nat) : (zeros n).length = n := by
  induction n with
  | zero => rfl
  | succ n ih => simp [zeros, ih]

theorem combo_length : ∀ (rows : List Row) (ys : Vec) (n : Nat), allLen rows n = true →
    (combo rows ys n).length = n
  | [], _, n, _ => by simp [combo, zeros_length]
  | _ :: _, [], n, _ => by simp [combo, zeros_length]
  | r :: rows, y :: ys, n, h => by
    simp only [allLen, List.all_cons, Bool.and_eq_true, decide_eq_true_eq] at h
    have ih := combo_length rows ys n (by simpa [allLen] using h.2)
    simp [combo, ih, h.1]

theorem dot_map_mul (y : Rat) (a x : Vec) : dot (a.map (y * ·)) x = y * dot a x := by
  induction a generalizing x with
  | nil => simp
  | cons a as ih => cases x with
    | nil => simp
    | cons x xs => simp [ih]; ring

theorem dot_zipWith_add (u w x : Vec) (h : u.length = w.length) :
    dot (List.zipWith (· + ·) u w) x = dot u x + dot w x := by
  rw [dot_comm, dot_zipWith _ 1 1 (by intro a b; ring) x u w h, dot_comm x u, dot_comm x w]; ring

theorem dot_all_zero (z x : Vec) (h : z.all (fun t => decide (t = 0)) = true) : dot z x = 0 := by
  induction z generalizing x with
  | nil => simp
  | cons z zs ih => cases x with
    | nil => simp
    | cons x xs =>
      simp only [List.all_cons, Bool.and_eq_true, decide_eq_true_eq] at h
      simp [h.1, ih xs h.2]

/-- The weighted sum of the row inequalities `l_i r ≤ b_i − a_i·x`. -/
theorem dual_sum : ∀ (rows : List Row) (ls ys : Vec) (n : Nat) (x : Vec) (r : Rat),
    allLen rows n = true → dualRowsOK rows ls ys = true → 0 ≤ r →
    (∀ row ∈ rows, chebyRowOK x r row = true) →
    r * dot ys ls ≤ dot ys (bvec rows) - dot (combo rows ys n) x
  | [], [], [], n, x, r, _, _, _, _ => by simp [bvec, combo]
  | [], _ :: _, _, _, _, _, _, h, _, _ => by simp [dualRowsOK] at h
  | [], [], _ :: _, _, _, _, _, h, _, _ => by simp [dualRowsOK] at h
  | _ :: _, [], _, _, _, _, _, h, _, _ => by simp [dualRowsOK] at h
  | _ :: _, _ :: _, [], _, _, _, _, h, _, _ => by simp [dualRowsOK] at h
  | row :: rows, l :: ls, y :: ys, n, x, r, hlen, hd, hr, hc => by
    simp only [dualRowsOK, Bool.and_eq_true, decide_eq_true_eq] at hd
    obtain ⟨⟨⟨hy, hl⟩, hl2⟩, hrest⟩ := hd
    have hlen' : allLen rows n = true ∧ row.a.length = n := by
      simp only [allLen, List.all_cons, Bool.and_eq_true, decide_eq_true_eq] at hlen
      exact ⟨by simpa [allLen] using hlen.2, hlen.1⟩
    have ih := dual_sum rows ls ys n x r hlen'.1 hrest hr (fun row' h' => hc row' (List.mem_cons_of_mem _ h'))
    have h0 := (chebyRowOK_iff x r row).mp (hc row (List.mem_cons_self ..))
    -- l r ≤ s
    have hlr : l * r ≤ row.b - dot row.a x := by
      apply le_of_mul_self_le _ _ h0.1
      have e : l * r * (l * r) = r * r * (l * l) := by ring
      rw [e]
      exact le_trans (mul_le_mul_of_nonneg_left hl2 (mul_self_nonneg r)) h0.2
    have hcl := combo_length rows ys n hlen'.1
    simp only [combo, bvec, List.map_cons, dot_cons]
    rw [dot_zipWith_add _ _ _ (by simp [hcl, hlen'.2]), dot_map_mul]
    have := mul_le_mul_of_nonneg_left hlr hy
    simp only [bvec] at ih
    nlinarith

theorem nsq_pos_of_nnz (a : Vec) (h : 0 < nnz a) : 0 < nsq a := by
  induction a with
  | nil => simp [nnz] at h
  | cons x xs ih =>
    unfold nsq
    simp only [dot_cons]
    by_cases hx : x = 0
    · subst hx
      simp only [nnz, if_true, Nat.zero_add] at h
      have := ih h
      unfold nsq at this
      linarith
    · have h1 : 0 < x * x := mul_self_pos.mpr hx
      have h2 := nsq_nonneg xs
      unfold nsq at h2
      linarith

end C08
