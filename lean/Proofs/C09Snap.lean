/- Integer-feasible neighbours, the snap loop and the batch decode (C09). -/
import Proofs.C09Layout

namespace C09
open Dom

/-- flags sit only on int components -/
def flagsOnInt : List Component → List Bool → Bool
  | [], _ => true
  | c :: cs, fs => (!(fs.headD false) || c.isInt) && flagsOnInt cs fs.tail

theorem flagsOnInt_constrained : ∀ (cs : List Component) (W : List (List Rat)),
    (∀ w ∈ W, weightsOK true w cs = true) → flagsOnInt cs (constrainedFlagsOf W cs) = true
  | [], _, _ => rfl
  | c :: cs, W, h => by
    simp only [constrainedFlagsOf, flagsOnInt, List.headD_cons, List.tail_cons, Bool.and_eq_true,
      Bool.or_eq_true, Bool.not_eq_true']
    constructor
    · by_cases hf : (W.any fun w => decide (w.headD 0 ≠ 0)) = true
      · right
        obtain ⟨w, hw, h0⟩ := List.any_eq_true.mp hf
        have hok := h w hw
        cases w with
        | nil => simp [weightsOK] at hok
        | cons w0 wt =>
          simp only [weightsOK, Bool.and_eq_true, Bool.or_eq_true, decide_eq_true_eq] at hok
          have h0' : w0 ≠ 0 := by simpa using h0
          rcases hok.1 with h1 | h1
          · exact absurd h1 h0'
          · simpa using h1
      · left; simpa using hf
    · apply flagsOnInt_constrained cs
      intro w' hw'
      obtain ⟨w, hw, rfl⟩ := List.mem_map.mp hw'
      have hok := h w hw
      cases w with
      | nil => simp [weightsOK] at hok
      | cons w0 wt =>
        simp only [weightsOK, Bool.and_eq_true] at hok
        exact hok.2

theorem flagsOnInt_intFlags : ∀ (cs : List Component), flagsOnInt cs (intFlags cs) = true
  | [] => rfl
  | c :: cs => by
    simp only [intFlags, flagsOnInt, List.headD_cons, List.tail_cons, Bool.and_eq_true]
    exact ⟨by cases c <;> simp [Component.isInt], flagsOnInt_intFlags cs⟩

/-! ### `applyChoice` produces neighbours -/

theorem applyChoice_cons_true {c : Component} {cs : List Component} {fs ch : List Bool} {x : List Rat}
    (hf : fs.headD false = true) :
    applyChoice (c :: cs) fs ch x
      = (x.take c.width).map (fun v => if ch.headD false then ((cl v : Int) : Rat) else ((fl v : Int) : Rat))
        ++ applyChoice cs fs.tail ch.tail (x.drop c.width) := by
  rw [applyChoice, if_pos hf]

theorem applyChoice_cons_false {c : Component} {cs : List Component} {fs ch : List Bool} {x : List Rat}
    (hf : fs.headD false = false) :
    applyChoice (c :: cs) fs ch x = x.take c.width ++ applyChoice cs fs.tail ch (x.drop c.width) := by
  rw [applyChoice, if_neg (by rw [hf]; exact Bool.false_ne_true)]

theorem neighbourRel_cons_true {c : Component} {cs : List Component} {fs : List Bool} {x y : List Rat}
    (hf : fs.headD false = true) :
    neighbourRel (c :: cs) fs x y = true ↔
      (y.take c.width = (x.take c.width).map (fun v => ((fl v : Int) : Rat))
        ∨ y.take c.width = (x.take c.width).map (fun v => ((cl v : Int) : Rat)))
      ∧ neighbourRel cs fs.tail (x.drop c.width) (y.drop c.width) = true := by
  rw [neighbourRel, if_pos hf, Bool.and_eq_true, Bool.or_eq_true, decide_eq_true_eq, decide_eq_true_eq]

theorem neighbourRel_cons_false {c : Component} {cs : List Component} {fs : List Bool} {x y : List Rat}
    (hf : fs.headD false = false) :
    neighbourRel (c :: cs) fs x y = true ↔
      y.take c.width = x.take c.width
      ∧ neighbourRel cs fs.tail (x.drop c.width) (y.drop c.width) = true := by
  rw [neighbourRel, if_neg (by rw [hf]; exact Bool.false_ne_true), Bool.and_eq_true, decide_eq_true_eq]

theorem neighbourRel_nil {fs : List Bool} {x y : List Rat} : neighbourRel [] fs x y = true ↔ x = y := by
  rw [neighbourRel, decide_eq_true_eq]

theorem flagsOnInt_cons {c : Component} {cs : List Component} {fs : List Bool}
    (h : flagsOnInt (c :: cs) fs = true) :
    (fs.headD false = true → c.isInt = true) ∧ flagsOnInt cs fs.tail = true := by
  simp only [flagsOnInt, Bool.and_eq_true, Bool.or_eq_true, Bool.not_eq_true'] at h
  refine ⟨fun hf => ?_, h.2⟩
  rcases h.1 with e | e
  · rw [hf] at e; cases e
  · exact e

theorem applyChoice_rel : ∀ (cs : List Component) (fs ch : List Bool) (x : List Rat),
    x.length = totalWidth cs → neighbourRel cs fs x (applyChoice cs fs ch x) = true
  | [], fs, ch, x, _ => by rw [neighbourRel_nil]; rfl
  | c :: cs, fs, ch, x, hx => by
    have h1 := take_width_length hx
    have h2 := drop_width_length hx
    cases hf : fs.headD false with
    | true =>
      rw [neighbourRel_cons_true hf, applyChoice_cons_true hf]
      have hl : ((x.take c.width).map fun v =>
          if ch.headD false = true then ((cl v : Int) : Rat) else ((fl v : Int) : Rat)).length = c.width := by
        rw [List.length_map]; exact h1
      rw [List.take_left' hl, List.drop_left' hl]
      refine ⟨?_, applyChoice_rel cs _ _ _ h2⟩
      cases ch.headD false with
      | true => right; rfl
      | false => left; rfl
    | false =>
      rw [neighbourRel_cons_false hf, applyChoice_cons_false hf, List.take_left' h1, List.drop_left' h1]
      exact ⟨rfl, applyChoice_rel cs _ _ _ h2⟩

/-- the block of a neighbour has the width of the component -/
theorem neighbour_block_length {c : Component} {cs : List Component} {fs : List Bool} {x y : List Rat}
    (hx : x.length = totalWidth (c :: cs)) (h : neighbourRel (c :: cs) fs x y = true) :
    (y.take c.width).length = c.width := by
  have h1 := take_width_length hx
  cases hf : fs.headD false with
  | true =>
    rw [neighbourRel_cons_true hf] at h
    rcases h.1 with e | e <;> rw [e, List.length_map] <;> exact h1
  | false =>
    rw [neighbourRel_cons_false hf] at h
    rw [h.1]; exact h1

theorem neighbourRel_tail {c : Component} {cs : List Component} {fs : List Bool} {x y : List Rat}
    (h : neighbourRel (c :: cs) fs x y = true) :
    neighbourRel cs fs.tail (x.drop c.width) (y.drop c.width) = true := by
  cases hf : fs.headD false with
  | true => rw [neighbourRel_cons_true hf] at h; exact h.2
  | false => rw [neighbourRel_cons_false hf] at h; exact h.2

theorem neighbourRel_length : ∀ (cs : List Component) (fs : List Bool) (x y : List Rat),
    x.length = totalWidth cs → neighbourRel cs fs x y = true → y.length = totalWidth cs
  | [], fs, x, y, hx, h => by
    rw [neighbourRel_nil] at h
    rw [← h]; exact hx
  | c :: cs, fs, x, y, hx, h => by
    have h2 := drop_width_length hx
    have ih := neighbourRel_length cs _ _ _ h2 (neighbourRel_tail h)
    have hy := neighbour_block_length hx h
    simp only [List.length_take, List.length_drop] at hy ih
    simp only [totalWidth]
    omega

/-- a neighbour of a relaxed-box point lies in the relaxed box (int bounds are integral) -/
theorem neighbourRel_inRelaxedBox : ∀ (cs : List Component) (fs : List Bool) (x y : List Rat),
    cs.all Component.wf = true → flagsOnInt cs fs = true → inRelaxedBox cs x = true →
    neighbourRel cs fs x y = true → inRelaxedBox cs y = true
  | [], fs, x, y, _, _, hx, h => by
    rw [neighbourRel_nil] at h
    rw [← h]; exact hx
  | c :: cs, fs, x, y, hw, hfl, hx, h => by
    simp only [List.all_cons, Bool.and_eq_true] at hw
    have hfl' := flagsOnInt_cons hfl
    simp only [inRelaxedBox, Bool.and_eq_true] at hx ⊢
    refine ⟨?_, neighbourRel_inRelaxedBox cs _ _ _ hw.2 hfl'.2 hx.2 (neighbourRel_tail h)⟩
    cases hf : fs.headD false with
    | true =>
      rw [neighbourRel_cons_true hf] at h
      have hint := hfl'.1 hf
      cases c with
      | int lo hi =>
        have hb := hx.1
        rcases hxb : x.take (Component.int lo hi).width with _ | ⟨v, _ | ⟨v', t⟩⟩ <;>
          rw [hxb] at hb <;> simp [Component.blockOK] at hb
        have hw1 := hw.1
        simp only [Component.wf, Bool.and_eq_true] at hw1
        obtain ⟨a, rfl⟩ := (isIntQ_iff lo).mp hw1.1.2
        obtain ⟨b', rfl⟩ := (isIntQ_iff hi).mp hw1.2
        rw [hxb] at h
        rcases h.1 with e | e
        · rw [e]
          have := fl_bounds hb.1 hb.2
          simp [Component.blockOK, this.1, this.2]
        · rw [e]
          have := cl_bounds hb.1 hb.2
          simp [Component.blockOK, this.1, this.2]
      | double lo hi => simp [Component.isInt] at hint
      | grid es => simp [Component.isInt] at hint
      | cat es => simp [Component.isInt] at hint
    | false =>
      rw [neighbourRel_cons_false hf] at h
      rw [h.1]; exact hx.1

/-- every coordinate of a flagged block of a neighbour is an integer -/
theorem neighbourRel_snapped : ∀ (cs : List Component) (fs : List Bool) (x y : List Rat),
    neighbourRel cs fs x y = true → intSnapped cs fs y = true
  | [], fs, x, y, _ => rfl
  | c :: cs, fs, x, y, h => by
    simp only [intSnapped, Bool.and_eq_true, Bool.or_eq_true, Bool.not_eq_true']
    refine ⟨?_, neighbourRel_snapped cs _ _ _ (neighbourRel_tail h)⟩
    cases hf : fs.headD false with
    | true =>
      right
      rw [neighbourRel_cons_true hf] at h
      rcases h.1 with e | e <;> rw [e, List.all_map, List.all_eq_true] <;> intro v _ <;>
        exact isIntQ_intCast _
    | false => left; rfl

/-- a double constraint has the same value on a neighbour (its weights vanish on int components) -/
theorem neighbourRel_dot_double : ∀ (cs : List Component) (fs : List Bool) (w x y : List Rat),
    weightsOK false w cs = true → flagsOnInt cs fs = true → neighbourRel cs fs x y = true →
    dot (ohWeights cs w) y = dot (ohWeights cs w) x
  | [], fs, w, x, y, _, _, _ => by simp [ohWeights, dot_nil_left]
  | c :: cs, fs, [], x, y, h, _, _ => by simp [weightsOK] at h
  | c :: cs, fs, w :: ws, x, y, hw, hfl, h => by
    simp only [weightsOK, Bool.and_eq_true, Bool.or_eq_true, decide_eq_true_eq] at hw
    have hfl' := flagsOnInt_cons hfl
    simp only [ohWeights, List.headD_cons, List.tail_cons]
    rw [dot_append, dot_append, ohWeights_length,
      neighbourRel_dot_double cs _ ws _ _ hw.2 hfl'.2 (neighbourRel_tail h)]
    congr 1
    cases hf : fs.headD false with
    | true =>
      have hint := hfl'.1 hf
      have hw0 : w = 0 := by
        rcases hw.1 with e | e
        · exact e
        · cases c <;> simp [Component.isInt, Component.isDouble] at hint e
      subst hw0
      cases c with
      | int lo hi => simp [Component.ohWeights, dot_zero_singleton]
      | double lo hi => simp [Component.isInt] at hint
      | grid es => simp [Component.isInt] at hint
      | cat es => simp [Component.isInt] at hint
    | false =>
      rw [neighbourRel_cons_false hf] at h
      rw [h.1]

/-! ### feasible neighbours -/

theorem mem_feasibleNeighbours {d : Domain} {x y : List Rat} {nb : List (List Bool)}
    (hx : x.length = totalWidth d.comps) (h : y ∈ feasibleNeighbours d x nb) :
    isFeasibleNeighbourOf d x y = true := by
  simp only [feasibleNeighbours, intNeighbours, List.mem_filter, List.mem_map] at h
  obtain ⟨⟨ch, _, rfl⟩, hf⟩ := h
  simp only [isFeasibleNeighbourOf, Bool.and_eq_true]
  exact ⟨hf, applyChoice_rel _ _ _ _ hx⟩

theorem intWeights_ok {d : Domain} (hw : d.wf = true) :
    ∀ w ∈ intWeights d, weightsOK true w d.comps = true := by
  intro w hm
  simp only [intWeights, List.mem_map, List.mem_filter] at hm
  obtain ⟨c, ⟨hc, hi⟩, rfl⟩ := hm
  simp only [Domain.wf, Bool.and_eq_true, List.all_eq_true] at hw
  have := hw.2 c hc
  rw [hi] at this
  exact this

/-- A feasible neighbour of a point of the relaxed polytope is again in the relaxed polytope, its flagged
    coordinates are integers. -/
theorem feasibleNeighbour_inRelaxed {d : Domain} {x y : List Rat} (hw : d.wf = true)
    (hx : inRelaxed d x = true) (h : isFeasibleNeighbourOf d x y = true) :
    inRelaxed d y = true ∧ intSnapped d.comps (constrainedFlags d) y = true := by
  simp only [isFeasibleNeighbourOf, Bool.and_eq_true] at h
  simp only [inRelaxed, Bool.and_eq_true, List.all_eq_true, decide_eq_true_eq] at hx
  have hwf := hw
  simp only [Domain.wf, Bool.and_eq_true] at hwf
  have hfl : flagsOnInt d.comps (constrainedFlags d) = true :=
    flagsOnInt_constrained _ _ (intWeights_ok hw)
  refine ⟨?_, neighbourRel_snapped _ _ _ _ h.2⟩
  simp only [inRelaxed, Bool.and_eq_true, List.all_eq_true, decide_eq_true_eq]
  refine ⟨neighbourRel_inRelaxedBox _ _ _ _ hwf.1 hfl hx.1 h.2, ?_⟩
  intro c hc
  by_cases hi : c.isInt = true
  · have := h.1
    simp only [intFeasible, List.all_eq_true, Bool.or_eq_true, Bool.not_eq_true', decide_eq_true_eq] at this
    rcases this c hc with e | e
    · rw [hi] at e; cases e
    · exact e
  · have hok := (List.all_eq_true.mp hwf.2) c hc
    have hi' : c.isInt = false := by simpa using hi
    rw [hi'] at hok
    rw [neighbourRel_dot_double _ _ _ _ _ hok hfl h.2]
    exact hx.2 c hc

/-! ### the snap loop -/

section snap
variable (d : Domain) (shuf : Nat → List (List Rat) → List (List Rat)) (nb : Nat → List (List Bool))

theorem snapLoop_sound (P : List Rat → Prop) (n : Nat)
    (hs : ∀ i l, ∀ y ∈ shuf i l, y ∈ l) :
    ∀ (xs : List (List Rat)) (i : Nat) (pad : List (List Rat)),
      (∀ x ∈ xs, ∀ k, ∀ y ∈ feasibleNeighbours d x (nb k), P y) → (∀ p ∈ pad, P p) →
      (∀ y, some y ∈ (snapLoop d shuf nb n i xs pad).1 → P y) ∧
      (∀ p ∈ (snapLoop d shuf nb n i xs pad).2, P p) ∧
      (snapLoop d shuf nb n i xs pad).1.length = xs.length
  | [], i, pad, _, hp => by simp [snapLoop]; exact hp
  | x :: xs, i, pad, hx, hp => by
    unfold snapLoop
    have hmem : ∀ y ∈ shuf i (feasibleNeighbours d x (nb i)), P y :=
      fun y hy => hx x List.mem_cons_self i y (hs _ _ y hy)
    have hx' : ∀ x' ∈ xs, ∀ k, ∀ y ∈ feasibleNeighbours d x' (nb k), P y :=
      fun x' h' => hx x' (List.mem_cons_of_mem _ h')
    cases hsh : shuf i (feasibleNeighbours d x (nb i)) with
    | nil =>
      obtain ⟨a, b, c⟩ := snapLoop_sound P n hs xs (i + 1) pad hx' hp
      simp only
      refine ⟨?_, b, by simp [c]⟩
      intro y hy
      rcases List.mem_cons.mp hy with e | e
      · cases e
      · exact a y e
    | cons y0 rest =>
      rw [hsh] at hmem
      simp only
      have hpad' : ∀ p ∈ (if pad.length < n then pad ++ rest.take (n - pad.length) else pad), P p := by
        intro p hpm
        split_ifs at hpm
        · rcases List.mem_append.mp hpm with e | e
          · exact hp p e
          · exact hmem p (List.mem_cons_of_mem _ (List.mem_of_mem_take e))
        · exact hp p hpm
      obtain ⟨a, b, c⟩ := snapLoop_sound P n hs xs (i + 1) _ hx' hpad'
      refine ⟨?_, b, by simp [c]⟩
      intro y hy
      rcases List.mem_cons.mp hy with e | e
      · cases e; exact hmem y0 List.mem_cons_self
      · exact a y e

theorem fillPad_sound (P : List Rat → Prop) : ∀ (r : List (Option (List Rat))) (pad : List (List Rat)),
    (∀ y, some y ∈ r → P y) → (∀ p ∈ pad, P p) →
    (∀ y ∈ fillPad r pad, P y) ∧ (fillPad r pad).length ≤ r.length
  | [], pad, _, _ => by simp [fillPad]
  | some y :: r, pad, hr, hp => by
    obtain ⟨a, b⟩ := fillPad_sound P r pad (fun y h => hr y (List.mem_cons_of_mem _ h)) hp
    simp only [fillPad, List.mem_cons, List.length_cons]
    refine ⟨?_, by omega⟩
    rintro z (rfl | hz)
    · exact hr _ List.mem_cons_self
    · exact a z hz
  | none :: r, p :: pad, hr, hp => by
    obtain ⟨a, b⟩ := fillPad_sound P r pad (fun y h => hr y (List.mem_cons_of_mem _ h))
      (fun q hq => hp q (List.mem_cons_of_mem _ hq))
    simp only [fillPad, List.mem_cons, List.length_cons]
    refine ⟨?_, by omega⟩
    rintro z (rfl | hz)
    · exact hp _ List.mem_cons_self
    · exact a z hz
  | none :: r, [], hr, hp => by
    obtain ⟨a, b⟩ := fillPad_sound P r [] (fun y h => hr y (List.mem_cons_of_mem _ h)) hp
    simp only [fillPad, List.length_cons]
    exact ⟨a, by omega⟩

/-- every row returned by the snap is a feasible integer neighbour of some input row; never more rows out
    than in -/
theorem snap_sound (hs : ∀ i l, ∀ y ∈ shuf i l, y ∈ l) (xs : List (List Rat)) :
    (∀ y ∈ snapIntFeasible d shuf nb xs, ∃ x ∈ xs, ∃ k, y ∈ feasibleNeighbours d x (nb k)) ∧
    (snapIntFeasible d shuf nb xs).length ≤ xs.length := by
  have h := snapLoop_sound d shuf nb (fun y => ∃ x ∈ xs, ∃ k, y ∈ feasibleNeighbours d x (nb k))
    xs.length hs xs 0 [] (fun x hx k y hy => ⟨x, hx, k, hy⟩) (by simp)
  obtain ⟨a, b, c⟩ := h
  have := fillPad_sound _ _ _ a b
  unfold snapIntFeasible
  simp only
  exact ⟨this.1, by omega⟩

/-- rows in order: when the shuffle of a non-empty list is non-empty and every row has a feasible
    neighbour, nothing is dropped and row i is replaced by one of its own feasible neighbours -/
theorem snapLoop_complete (n : Nat) (hs : ∀ i l, ∀ y ∈ shuf i l, y ∈ l) :
    ∀ (xs : List (List Rat)) (i : Nat) (pad : List (List Rat)),
      (∀ x ∈ xs, ∀ k, shuf k (feasibleNeighbours d x (nb k)) ≠ []) →
      ∃ ys : List (List Rat), (snapLoop d shuf nb n i xs pad).1 = ys.map some ∧
        List.Forall₂ (fun x y => ∃ k, y ∈ feasibleNeighbours d x (nb k)) xs ys
  | [], i, pad, _ => ⟨[], by simp [snapLoop], List.Forall₂.nil⟩
  | x :: xs, i, pad, hne => by
    unfold snapLoop
    cases hsh : shuf i (feasibleNeighbours d x (nb i)) with
    | nil => exact absurd hsh (hne x List.mem_cons_self i)
    | cons y0 rest =>
      simp only
      obtain ⟨ys, e, f⟩ := snapLoop_complete n hs xs (i + 1)
        (if pad.length < n then pad ++ rest.take (n - pad.length) else pad)
        (fun x' h' => hne x' (List.mem_cons_of_mem _ h'))
      refine ⟨y0 :: ys, by simp [e], List.Forall₂.cons ⟨i, ?_⟩ f⟩
      apply hs i
      rw [hsh]; exact List.mem_cons_self

theorem fillPad_map_some : ∀ (ys pad : List (List Rat)), fillPad (ys.map some) pad = ys
  | [], pad => by simp [fillPad]
  | y :: ys, pad => by simp [fillPad, fillPad_map_some ys pad]

theorem snap_complete (hs : ∀ i l, ∀ y ∈ shuf i l, y ∈ l) (xs : List (List Rat))
    (hne : ∀ x ∈ xs, ∀ k, shuf k (feasibleNeighbours d x (nb k)) ≠ []) :
    List.Forall₂ (fun x y => ∃ k, y ∈ feasibleNeighbours d x (nb k)) xs (snapIntFeasible d shuf nb xs) := by
  obtain ⟨ys, e, f⟩ := snapLoop_complete d shuf nb xs.length hs xs 0 [] hne
  unfold snapIntFeasible
  simp only
  rw [e, fillPad_map_some]
  exact f

end snap

/-! ### batch decode -/

theorem mem_decodeRows (cs : List Component) (ω : Nat → List Nat) :
    ∀ (xs : List (List Rat)) (k : Nat) (y : List Rat), y ∈ decodeRows cs ω k xs →
      ∃ x ∈ xs, ∃ j, y = decode cs x (ω j)
  | [], k, y, h => by simp [decodeRows] at h
  | x :: xs, k, y, h => by
    simp only [decodeRows, List.mem_cons] at h
    rcases h with rfl | h
    · exact ⟨x, List.mem_cons_self, k, rfl⟩
    · obtain ⟨x', hx', j, e⟩ := mem_decodeRows cs ω xs (k + 1) y h
      exact ⟨x', List.mem_cons_of_mem _ hx', j, e⟩

theorem decodeRows_length (cs : List Component) (ω : Nat → List Nat) :
    ∀ (xs : List (List Rat)) (k : Nat), (decodeRows cs ω k xs).length = xs.length
  | [], k => rfl
  | x :: xs, k => by simp [decodeRows, decodeRows_length cs ω xs (k + 1)]

theorem flags_none_of_not_constrained {d : Domain} (h : isIntConstrained d = false) :
    ∀ (x : List Rat), intSnapped d.comps (constrainedFlags d) x = true := by
  have hW : intWeights d = [] := by
    simp only [intWeights, List.map_eq_nil_iff, List.filter_eq_nil_iff]
    intro c hc
    simp only [isIntConstrained, List.any_eq_false] at h
    exact h c hc
  unfold constrainedFlags
  rw [hW]
  generalize d.comps = cs
  intro x
  induction cs generalizing x with
  | nil => rfl
  | cons c cs ih =>
    simp only [constrainedFlagsOf, intSnapped, List.any_nil, List.headD_cons, List.tail_cons,
      Bool.not_false, Bool.true_or, Bool.true_and, List.map_nil]
    exact ih _

end C09
