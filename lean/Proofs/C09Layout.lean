/- Structural lemmas for C09: blocks of the one-hot layout, encode/decode per component, dot products. -/
import Proofs.C09Scalar
import Proofs.ListMinMax

namespace C09
open Dom

/-! ### list helpers -/

theorem dot_nil_left (x : List Rat) : dot [] x = 0 := by cases x <;> rfl
theorem dot_nil_right (w : List Rat) : dot w [] = 0 := by cases w <;> rfl

theorem dot_append (a b x : List Rat) :
    dot (a ++ b) x = dot a (x.take a.length) + dot b (x.drop a.length) := by
  induction a generalizing x with
  | nil => simp [dot_nil_left]
  | cons w ws ih =>
    cases x with
    | nil => simp [dot_nil_right]
    | cons v vs =>
      simp only [List.cons_append, dot, List.length_cons, List.take_succ_cons, List.drop_succ_cons]
      rw [ih]; ring

theorem dot_replicate_zero (k : Nat) (b : List Rat) : dot (List.replicate k 0) b = 0 := by
  induction k generalizing b with
  | zero => simp [dot_nil_left]
  | succ k ih =>
    cases b with
    | nil => exact dot_nil_right _
    | cons v vs => simp [List.replicate_succ, dot, ih]

theorem dot_zero_singleton (b : List Rat) : dot [0] b = 0 := by
  cases b with
  | nil => rfl
  | cons v vs => simp [dot]

theorem contains_iff {es : List Rat} {v : Rat} : es.contains v = true ↔ v ∈ es := List.contains_iff_mem

theorem getD_headD_mem {es : List Rat} (h : es ≠ []) (i : Nat) : es.getD i (es.headD 0) ∈ es := by
  rw [List.getD_eq_getElem?_getD]
  cases hi : es[i]? with
  | none =>
    cases es with
    | nil => exact absurd rfl h
    | cons e es => simp
  | some a => simpa using List.mem_of_getElem? hi

/-! ### component facts -/

theorem encode_length (c : Component) (v : Rat) : (c.encode v).length = c.width := by
  cases c <;> simp [Component.encode, Component.width]

theorem ohWeights_length (c : Component) (w : Rat) : (c.ohWeights w).length = c.width := by
  cases c <;> simp [Component.ohWeights, Component.width]

theorem bounds_length (c : Component) : c.bounds.length = c.width := by
  cases c <;> simp [Component.bounds, Component.width]

theorem blockOK_length {c : Component} {b : List Rat} (h : c.blockOK b = true) : b.length = c.width := by
  cases c with
  | cat es =>
    simp only [Component.blockOK, Bool.and_eq_true, decide_eq_true_eq] at h
    exact h.1
  | double lo hi => rcases b with _ | ⟨v, _ | ⟨v', t⟩⟩ <;> simp [Component.blockOK, Component.width] at h ⊢
  | int lo hi => rcases b with _ | ⟨v, _ | ⟨v', t⟩⟩ <;> simp [Component.blockOK, Component.width] at h ⊢
  | grid es => rcases b with _ | ⟨v, _ | ⟨v', t⟩⟩ <;> simp [Component.blockOK, Component.width] at h ⊢

theorem inRelaxedBox_length : ∀ {cs : List Component} {x : List Rat},
    inRelaxedBox cs x = true → x.length = totalWidth cs
  | [], x, h => by
    simp only [inRelaxedBox, List.isEmpty_iff] at h
    simp [h, totalWidth]
  | c :: cs, x, h => by
    simp only [inRelaxedBox, Bool.and_eq_true] at h
    have h1 := blockOK_length h.1
    have h2 := inRelaxedBox_length h.2
    simp only [List.length_take, List.length_drop] at h1 h2
    simp only [totalWidth]
    omega

theorem take_width_length {c : Component} {cs : List Component} {x : List Rat}
    (h : x.length = totalWidth (c :: cs)) : (x.take c.width).length = c.width := by
  simp only [totalWidth] at h
  simp only [List.length_take]; omega

theorem drop_width_length {c : Component} {cs : List Component} {x : List Rat}
    (h : x.length = totalWidth (c :: cs)) : (x.drop c.width).length = totalWidth cs := by
  simp only [totalWidth] at h
  simp only [List.length_drop]; omega

/-! ### the relaxed box of `form_one_hot_domain` is the block-wise box -/

theorem withinBounds_append (b1 b2 : List (Rat × Rat)) (x : List Rat) :
    withinBounds (b1 ++ b2) x
      = (withinBounds b1 (x.take b1.length) && withinBounds b2 (x.drop b1.length)) := by
  induction b1 generalizing x with
  | nil => simp [withinBounds]
  | cons p ps ih =>
    obtain ⟨lo, hi⟩ := p
    cases x with
    | nil => cases b2 <;> simp [withinBounds]
    | cons v vs =>
      simp only [List.cons_append, withinBounds, List.length_cons, List.take_succ_cons, List.drop_succ_cons, ih]
      simp only [Bool.and_assoc]

theorem withinBounds_replicate (k : Nat) (b : List Rat) :
    withinBounds (List.replicate k (0, 1)) b
      = (decide (b.length = k) && b.all fun v => decide (0 ≤ v) && decide (v ≤ 1)) := by
  induction k generalizing b with
  | zero => cases b <;> simp [withinBounds]
  | succ k ih =>
    cases b with
    | nil => simp [List.replicate_succ, withinBounds]
    | cons v vs =>
      simp only [List.replicate_succ, withinBounds, ih, List.length_cons, List.all_cons]
      by_cases h : vs.length = k <;> simp [h, Bool.and_comm]

theorem blockOK_eq_withinBounds (c : Component) (b : List Rat) :
    c.blockOK b = withinBounds c.bounds b := by
  cases c with
  | cat es => simp only [Component.blockOK, Component.bounds, withinBounds_replicate]
  | double lo hi => rcases b with _ | ⟨v, _ | ⟨v', t⟩⟩ <;> simp [Component.blockOK, Component.bounds, withinBounds]
  | int lo hi => rcases b with _ | ⟨v, _ | ⟨v', t⟩⟩ <;> simp [Component.blockOK, Component.bounds, withinBounds]
  | grid es => rcases b with _ | ⟨v, _ | ⟨v', t⟩⟩ <;> simp [Component.blockOK, Component.bounds, withinBounds]

theorem inRelaxedBox_eq_withinBounds (cs : List Component) (x : List Rat) :
    inRelaxedBox cs x = withinBounds (relaxedBox cs) x := by
  induction cs generalizing x with
  | nil => cases x <;> simp [inRelaxedBox, relaxedBox, withinBounds]
  | cons c cs ih =>
    simp only [inRelaxedBox, relaxedBox, withinBounds_append, bounds_length, ih, blockOK_eq_withinBounds]

theorem relaxedBox_length (cs : List Component) : (relaxedBox cs).length = totalWidth cs := by
  induction cs with
  | nil => rfl
  | cons c cs ih => simp [relaxedBox, totalWidth, bounds_length, ih]

/-! ### per-component decode facts -/

theorem indicator_getD {es : List Rat} {v : Rat} {i : Nat} (d : Rat)
    (h : (es.map fun e => if v = e then (1 : Rat) else 0).getD i 0 ≠ 0) : es.getD i d = v := by
  induction es generalizing i with
  | nil => simp at h
  | cons e es ih =>
    cases i with
    | zero =>
      simp only [List.map_cons, List.getD_cons_zero] at h ⊢
      by_cases hv : v = e
      · exact hv.symm
      · simp [hv] at h
    | succ i =>
      simp only [List.map_cons, List.getD_cons_succ] at h ⊢
      exact ih h

theorem decodeComp_encode {c : Component} {v : Rat} {i : Nat} (hm : c.mem v = true)
    (hi : c.isCat = true → (c.encode v).getD i 0 ≠ 0) : decodeComp c (c.encode v) i = v := by
  cases c with
  | double lo hi => simp [decodeComp, Component.encode]
  | int lo hi =>
    simp only [Component.mem, Bool.and_eq_true] at hm
    obtain ⟨n, rfl⟩ := (isIntQ_iff v).mp hm.1.1
    simp [decodeComp, Component.encode, roundHalfEven_intCast]
  | grid es =>
    simp only [Component.mem] at hm
    simp [decodeComp, Component.encode, nearestFirst_self (contains_iff.mp hm)]
  | cat es =>
    simp only [decodeComp]
    exact indicator_getD _ (hi rfl)

theorem one_mem_indicator {es : List Rat} {v : Rat} (h : v ∈ es) :
    (1 : Rat) ∈ es.map fun e => if v = e then (1 : Rat) else 0 :=
  List.mem_map.mpr ⟨v, h, by simp⟩

theorem decodeComp_mem {c : Component} {b : List Rat} (i : Nat) (hw : c.wf = true)
    (hb : c.blockOK b = true) : c.mem (decodeComp c b i) = true := by
  cases c with
  | double lo hi =>
    rcases b with _ | ⟨v, _ | ⟨v', t⟩⟩ <;> simp [Component.blockOK] at hb
    simp [decodeComp, Component.mem, hb]
  | int lo hi =>
    rcases b with _ | ⟨v, _ | ⟨v', t⟩⟩ <;> simp [Component.blockOK] at hb
    simp only [Component.wf, Bool.and_eq_true] at hw
    obtain ⟨a, rfl⟩ := (isIntQ_iff lo).mp hw.1.2
    obtain ⟨b', rfl⟩ := (isIntQ_iff hi).mp hw.2
    have := roundHalfEven_bounds hb.1 hb.2
    simp [decodeComp, Component.mem, isIntQ_intCast, this.1, this.2]
  | grid es =>
    simp only [Component.wf, Bool.and_eq_true, decide_eq_true_eq] at hw
    have hne : es ≠ [] := by intro h; rw [h] at hw; simp at hw
    simp only [decodeComp, Component.mem]
    exact contains_iff.mpr (nearestFirst_mem _ hne)
  | cat es =>
    simp only [Component.wf, Bool.and_eq_true, decide_eq_true_eq] at hw
    have hne : es ≠ [] := by intro h; rw [h] at hw; simp at hw
    simp only [decodeComp, Component.mem]
    exact contains_iff.mpr (getD_headD_mem hne i)

theorem specComp_double_iff (lo hi : Rat) (b : List Rat) (y : Rat) :
    specComp (.double lo hi) b y = true ↔ y = b.headD 0 := by
  simp only [specComp, decide_eq_true_eq]

theorem specComp_int_iff (lo hi : Rat) (b : List Rat) (y : Rat) :
    specComp (.int lo hi) b y = true ↔ isIntQ y = true ∧ rabs (b.headD 0 - y) ≤ 1 / 2 := by
  simp only [specComp, Bool.and_eq_true, decide_eq_true_eq]

theorem specComp_grid_iff (es : List Rat) (b : List Rat) (y : Rat) :
    specComp (.grid es) b y = true ↔ y ∈ es ∧ ∀ e ∈ es, rabs (b.headD 0 - y) ≤ rabs (b.headD 0 - e) := by
  simp only [specComp, Bool.and_eq_true, List.all_eq_true, decide_eq_true_eq, contains_iff]

theorem specComp_cat_iff (es : List Rat) (b : List Rat) (y : Rat) :
    specComp (.cat es) b y = true ↔ y ∈ es := by
  simp only [specComp, contains_iff]

theorem drawOnSupport_cons (c : Component) (cs : List Component) (x : List Rat) (ω : List Nat) :
    drawOnSupport (c :: cs) x ω = true ↔
      (c.isCat = true → (x.take c.width).getD (ω.headD 0) 0 ≠ 0)
        ∧ drawOnSupport cs (x.drop c.width) ω.tail = true := by
  cases c <;> simp [drawOnSupport, Component.isCat]

theorem specComp_decodeComp {c : Component} (b : List Rat) (i : Nat) (hw : c.wf = true) :
    specComp c b (decodeComp c b i) = true := by
  cases c with
  | double lo hi => rw [specComp_double_iff]; rfl
  | int lo hi =>
    rw [specComp_int_iff]
    exact ⟨isIntQ_intCast _, roundHalfEven_nearest _⟩
  | grid es =>
    simp only [Component.wf, Bool.and_eq_true, decide_eq_true_eq] at hw
    have hne : es ≠ [] := by intro h; rw [h] at hw; simp at hw
    rw [specComp_grid_iff]
    exact ⟨nearestFirst_mem _ hne, fun e he => nearestFirst_le _ he⟩
  | cat es =>
    simp only [Component.wf, Bool.and_eq_true, decide_eq_true_eq] at hw
    have hne : es ≠ [] := by intro h; rw [h] at hw; simp at hw
    rw [specComp_cat_iff]
    exact getD_headD_mem hne i

theorem specComp_mem {c : Component} {b : List Rat} {y : Rat} (hw : c.wf = true)
    (hb : c.blockOK b = true) (hs : specComp c b y = true) : c.mem y = true := by
  cases c with
  | double lo hi =>
    rcases b with _ | ⟨v, _ | ⟨v', t⟩⟩ <;> simp [Component.blockOK] at hb
    rw [specComp_double_iff] at hs
    simp only [List.headD_cons] at hs
    subst hs
    simp [Component.mem, hb]
  | int lo hi =>
    rcases b with _ | ⟨v, _ | ⟨v', t⟩⟩ <;> simp [Component.blockOK] at hb
    simp only [Component.wf, Bool.and_eq_true] at hw
    obtain ⟨a, rfl⟩ := (isIntQ_iff lo).mp hw.1.2
    obtain ⟨b', rfl⟩ := (isIntQ_iff hi).mp hw.2
    rw [specComp_int_iff] at hs
    simp only [List.headD_cons] at hs
    obtain ⟨n, rfl⟩ := (isIntQ_iff y).mp hs.1
    have := nearest_int_bounds hb.1 hb.2 hs.2
    simp [Component.mem, isIntQ_intCast, this.1, this.2]
  | grid es =>
    rw [specComp_grid_iff] at hs
    simp only [Component.mem]; exact contains_iff.mpr hs.1
  | cat es =>
    rw [specComp_cat_iff] at hs
    simp only [Component.mem]; exact contains_iff.mpr hs

/-! ### whole-point encode / decode -/

theorem decode_length (cs : List Component) (x : List Rat) (ω : List Nat) :
    (decode cs x ω).length = cs.length := by
  induction cs generalizing x ω with
  | nil => rfl
  | cons c cs ih => simp [decode, ih]

theorem encode_total_length : ∀ (cs : List Component) (cfg : List Rat), cfg.length = cs.length →
    (encode cs cfg).length = totalWidth cs
  | [], [], _ => rfl
  | [], _ :: _, h => by simp at h
  | _ :: _, [], h => by simp at h
  | c :: cs, v :: vs, h => by
    simp only [encode, List.length_append, encode_length, totalWidth]
    rw [encode_total_length cs vs (by simpa using h)]

theorem inBox_length : ∀ {cs : List Component} {cfg : List Rat}, inBox cs cfg = true → cfg.length = cs.length
  | [], [], _ => rfl
  | [], _ :: _, h => by simp [inBox] at h
  | _ :: _, [], h => by simp [inBox] at h
  | c :: cs, v :: vs, h => by
    simp only [inBox, Bool.and_eq_true] at h
    simp [inBox_length h.2]

theorem decode_encode_aux : ∀ (cs : List Component) (cfg : List Rat) (ω : List Nat),
    inBox cs cfg = true → drawOnSupport cs (encode cs cfg) ω = true → decode cs (encode cs cfg) ω = cfg
  | [], [], _, _, _ => rfl
  | [], _ :: _, _, h, _ => by simp [inBox] at h
  | _ :: _, [], _, h, _ => by simp [inBox] at h
  | c :: cs, v :: vs, ω, h, hd => by
    simp only [inBox, Bool.and_eq_true] at h
    rw [drawOnSupport_cons] at hd
    simp only [encode] at hd
    rw [List.take_left' (encode_length c v), List.drop_left' (encode_length c v)] at hd
    simp only [encode, decode]
    rw [List.take_left' (encode_length c v), List.drop_left' (encode_length c v)]
    rw [decode_encode_aux cs vs ω.tail h.2 hd.2]
    congr 1
    exact decodeComp_encode h.1 hd.1

theorem argmax_on_support : ∀ (cs : List Component) (cfg : List Rat), inBox cs cfg = true →
    drawOnSupport cs (encode cs cfg) (argmaxOracle cs (encode cs cfg)) = true
  | [], [], _ => rfl
  | [], _ :: _, h => by simp [inBox] at h
  | _ :: _, [], h => by simp [inBox] at h
  | c :: cs, v :: vs, h => by
    simp only [inBox, Bool.and_eq_true] at h
    rw [drawOnSupport_cons]
    simp only [encode, argmaxOracle, List.headD_cons, List.tail_cons]
    rw [List.take_left' (encode_length c v), List.drop_left' (encode_length c v)]
    refine ⟨?_, argmax_on_support cs vs h.2⟩
    intro hc
    cases c with
    | cat es =>
      simp only [Component.mem] at h
      have h1 := one_mem_indicator (contains_iff.mp h.1)
      have := argmaxFirst_max _ _ h1
      simp only [Component.encode]
      intro h0
      rw [h0] at this
      norm_num at this
    | double lo hi => simp [Component.isCat] at hc
    | int lo hi => simp [Component.isCat] at hc
    | grid es => simp [Component.isCat] at hc

theorem decode_inBox : ∀ (cs : List Component) (x : List Rat) (ω : List Nat),
    cs.all Component.wf = true → inRelaxedBox cs x = true → inBox cs (decode cs x ω) = true
  | [], x, ω, _, _ => rfl
  | c :: cs, x, ω, hw, hx => by
    simp only [List.all_cons, Bool.and_eq_true] at hw
    simp only [inRelaxedBox, Bool.and_eq_true] at hx
    simp only [decode, inBox, Bool.and_eq_true]
    exact ⟨decodeComp_mem _ hw.1 hx.1, decode_inBox cs _ _ hw.2 hx.2⟩

theorem decode_spec : ∀ (cs : List Component) (x : List Rat) (ω : List Nat),
    cs.all Component.wf = true → decodeSpec cs x (decode cs x ω) = true
  | [], x, ω, _ => rfl
  | c :: cs, x, ω, hw => by
    simp only [List.all_cons, Bool.and_eq_true] at hw
    simp only [decode, decodeSpec, Bool.and_eq_true]
    exact ⟨specComp_decodeComp _ _ hw.1, decode_spec cs _ _ hw.2⟩

theorem spec_inBox : ∀ (cs : List Component) (x y : List Rat),
    cs.all Component.wf = true → inRelaxedBox cs x = true → decodeSpec cs x y = true → inBox cs y = true
  | [], x, [], _, _, _ => rfl
  | [], x, _ :: _, _, _, h => by simp [decodeSpec] at h
  | c :: cs, x, [], _, _, h => by simp [decodeSpec] at h
  | c :: cs, x, y :: ys, hw, hx, hs => by
    simp only [List.all_cons, Bool.and_eq_true] at hw
    simp only [inRelaxedBox, Bool.and_eq_true] at hx
    simp only [decodeSpec, Bool.and_eq_true] at hs
    simp only [inBox, Bool.and_eq_true]
    exact ⟨specComp_mem hw.1 hx.1 hs.1, spec_inBox cs _ _ hw.2 hx.2 hs.2⟩

/-! ### constraints: decoding does not change the value of a constraint -/

theorem decodeComp_dot_double {c : Component} {b : List Rat} (w : Rat) (i : Nat)
    (hw : w = 0 ∨ c.isDouble = true) (hb : c.blockOK b = true) :
    w * decodeComp c b i = dot (c.ohWeights w) b := by
  cases c with
  | double lo hi =>
    rcases b with _ | ⟨v, _ | ⟨v', t⟩⟩ <;> simp [Component.blockOK] at hb
    simp [decodeComp, Component.ohWeights, dot]
  | int lo hi =>
    rcases hw with rfl | h
    · simp [Component.ohWeights, dot_zero_singleton]
    · simp [Component.isDouble] at h
  | grid es =>
    rcases hw with rfl | h
    · simp [Component.ohWeights, dot_zero_singleton]
    · simp [Component.isDouble] at h
  | cat es =>
    rcases hw with rfl | h
    · simp [Component.ohWeights, dot_replicate_zero]
    · simp [Component.isDouble] at h

theorem decodeComp_dot_int {c : Component} {b : List Rat} (w : Rat) (i : Nat)
    (hw : w = 0 ∨ c.isInt = true) (hb : c.blockOK b = true) (hs : w ≠ 0 → b.all isIntQ = true) :
    w * decodeComp c b i = dot (c.ohWeights w) b := by
  cases c with
  | int lo hi =>
    rcases b with _ | ⟨v, _ | ⟨v', t⟩⟩ <;> simp [Component.blockOK] at hb
    by_cases h0 : w = 0
    · subst h0; simp [Component.ohWeights, dot_zero_singleton]
    · have := hs h0
      simp only [List.all_cons, List.all_nil, Bool.and_true] at this
      obtain ⟨n, rfl⟩ := (isIntQ_iff v).mp this
      simp [decodeComp, Component.ohWeights, dot, roundHalfEven_intCast]
  | double lo hi =>
    rcases hw with rfl | h
    · simp [Component.ohWeights, dot_zero_singleton]
    · simp [Component.isInt] at h
  | grid es =>
    rcases hw with rfl | h
    · simp [Component.ohWeights, dot_zero_singleton]
    · simp [Component.isInt] at h
  | cat es =>
    rcases hw with rfl | h
    · simp [Component.ohWeights, dot_replicate_zero]
    · simp [Component.isInt] at h

theorem decode_dot_double : ∀ (cs : List Component) (w x : List Rat) (ω : List Nat),
    weightsOK false w cs = true → inRelaxedBox cs x = true →
    dot w (decode cs x ω) = dot (ohWeights cs w) x
  | [], w, x, ω, _, _ => by simp [decode, ohWeights, dot_nil_left, dot_nil_right]
  | c :: cs, [], x, ω, h, _ => by simp [weightsOK] at h
  | c :: cs, w :: ws, x, ω, h, hx => by
    simp only [weightsOK, Bool.and_eq_true, Bool.or_eq_true, decide_eq_true_eq] at h
    simp only [inRelaxedBox, Bool.and_eq_true] at hx
    simp only [decode, ohWeights, dot, List.headD_cons, List.tail_cons]
    rw [dot_append, ohWeights_length, decode_dot_double cs ws _ _ h.2 hx.2]
    rw [decodeComp_dot_double w _ (by simpa using h.1) hx.1]

theorem decode_dot_int : ∀ (cs : List Component) (W : List (List Rat)) (w x : List Rat) (ω : List Nat),
    weightsOK true w cs = true → inRelaxedBox cs x = true → w ∈ W →
    intSnapped cs (constrainedFlagsOf W cs) x = true →
    dot w (decode cs x ω) = dot (ohWeights cs w) x
  | [], W, w, x, ω, _, _, _, _ => by simp [decode, ohWeights, dot_nil_left, dot_nil_right]
  | c :: cs, W, [], x, ω, h, _, _, _ => by simp [weightsOK] at h
  | c :: cs, W, w :: ws, x, ω, h, hx, hW, hs => by
    simp only [weightsOK, Bool.and_eq_true, Bool.or_eq_true, decide_eq_true_eq] at h
    simp only [inRelaxedBox, Bool.and_eq_true] at hx
    simp only [constrainedFlagsOf, intSnapped, List.headD_cons, List.tail_cons, Bool.and_eq_true,
      Bool.or_eq_true, Bool.not_eq_true'] at hs
    simp only [decode, ohWeights, dot, List.headD_cons, List.tail_cons]
    rw [dot_append, ohWeights_length,
      decode_dot_int cs (W.map List.tail) ws _ _ h.2 hx.2 (List.mem_map.mpr ⟨_, hW, rfl⟩) hs.2]
    rw [decodeComp_dot_int w _ (by simpa using h.1) hx.1]
    intro hw0
    rcases hs.1 with hf | hf
    · exfalso
      have : (W.any fun w => decide (w.headD 0 ≠ 0)) = true :=
        List.any_eq_true.mpr ⟨_, hW, by simpa using hw0⟩
      rw [this] at hf; cases hf
    · exact hf

end C09
