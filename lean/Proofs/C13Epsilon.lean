/-
  Helper lemmas for C13 (epsilon part): rows given as functions, `argmin`, convex combinations,
  boolean-mask selection along `range`, negated rows.
-/
import Model.C13
import Proofs.C13Pareto
import Mathlib.Algebra.Order.Field.Rat
import Mathlib.Tactic.Linarith
import Mathlib.Data.List.OfFn
import Mathlib.Data.Fin.Tuple.Basic
import Mathlib.Data.List.Nodup
import Mathlib.Data.List.Perm.Basic
import Mathlib.Data.List.Range

namespace C13

section
variable {α : Type} [LinearOrder α]

theorem geAll_ofFn : ∀ {m : Nat} (a b : Fin m → α), geAll (List.ofFn a) (List.ofFn b) = true ↔ ∀ i, b i ≤ a i
  | 0, a, b => by simp [geAll]
  | m + 1, a, b => by
    simp only [List.ofFn_succ, geAll, Bool.and_eq_true, decide_eq_true_eq, Fin.forall_fin_succ]
    rw [geAll_ofFn]

theorem gtAny_ofFn : ∀ {m : Nat} (a b : Fin m → α), gtAny (List.ofFn a) (List.ofFn b) = true ↔ ∃ i, b i < a i
  | 0, a, b => by simp [gtAny]
  | m + 1, a, b => by
    simp only [List.ofFn_succ, gtAny, Bool.or_eq_true, decide_eq_true_eq, Fin.exists_fin_succ]
    rw [gtAny_ofFn]

end

/-! ### argmin -/

theorem argmin_lt : ∀ (xs : List Rat), xs ≠ [] → argmin xs < xs.length
  | [], h => absurd rfl h
  | [_], _ => by simp [argmin]
  | x :: y :: ys, _ => by
    have := argmin_lt (y :: ys) (by simp)
    simp only [argmin]
    split_ifs <;> simp at this ⊢ <;> omega

theorem argmin_le : ∀ (xs : List Rat) (v : Rat), v ∈ xs → xs.getD (argmin xs) 0 ≤ v
  | [], v, h => by simp at h
  | [x], v, h => by simp at h; simp [argmin, h]
  | x :: y :: ys, v, h => by
    have ih := argmin_le (y :: ys)
    simp only [argmin]
    split_ifs with hlt
    · rw [List.getD_cons_succ]
      rcases List.mem_cons.mp h with rfl | h
      · exact le_of_lt hlt
      · exact ih v h
    · rw [List.getD_cons_zero]
      rcases List.mem_cons.mp h with rfl | h
      · exact le_refl _
      · exact le_trans (not_lt.mp hlt) (ih v h)

/-- `argmin` is the *first* minimiser: everything before it is strictly larger. -/
theorem argmin_first : ∀ (xs : List Rat) (i : Nat), i < argmin xs → xs.getD (argmin xs) 0 < xs.getD i 0
  | [], i, h => by simp [argmin] at h
  | [x], i, h => by simp [argmin] at h
  | x :: y :: ys, i, h => by
    have ih := argmin_first (y :: ys)
    simp only [argmin] at h ⊢
    split_ifs at h ⊢ with hlt
    · rw [List.getD_cons_succ]
      cases i with
      | zero => simpa using hlt
      | succ i => rw [List.getD_cons_succ]; exact ih i (by omega)
    · omega


theorem col_getD (k a : Nat) (rows : List (List Rat)) : (col k rows).getD a 0 = at' (rows.getD a []) k := by
  unfold col
  by_cases h : a < rows.length
  · simp [List.getD_eq_getElem?_getD, h]
  · simp [List.getD_eq_getElem?_getD, not_lt.mp h, at']

theorem getD_mem {β : Type} (l : List β) (d : β) (a : Nat) (h : a < l.length) : l.getD a d ∈ l := by
  simp [List.getD_eq_getElem?_getD, h]

theorem convex_in_range (lo hi a b e : Rat) (h0 : 0 ≤ e) (h1 : e ≤ 1)
    (ha : lo ≤ a) (ha' : a ≤ hi) (hb : lo ≤ b) (hb' : b ≤ hi) :
    lo ≤ (1 - e) * a + e * b ∧ (1 - e) * a + e * b ≤ hi := by
  have h1' : 0 ≤ 1 - e := by linarith
  constructor
  · nlinarith [mul_nonneg h1' (sub_nonneg.2 ha), mul_nonneg h0 (sub_nonneg.2 hb)]
  · nlinarith [mul_nonneg h1' (sub_nonneg.2 ha'), mul_nonneg h0 (sub_nonneg.2 hb')]

/-! select on range -/
theorem select_range'_getD {β : Type} (d : β) : ∀ (m : List Bool) (l : List β) (s : Nat),
    (select m (List.range' s (l.length - s))).map (fun i => l.getD i d) = select m (l.drop s)
  | [], l, s => by simp [select]
  | b :: ms, l, s => by
    by_cases hs : s < l.length
    · have h1 : l.length - s = (l.length - (s + 1)) + 1 := by omega
      rw [h1, List.range'_succ, List.drop_eq_getElem_cons hs]
      have ih := select_range'_getD d ms l (s + 1)
      cases b
      · simpa [select] using ih
      · simp only [select, List.map_cons, ih]
        simp [List.getD_eq_getElem?_getD, hs]
    · have h1 : l.length - s = 0 := by omega
      rw [h1, List.drop_eq_nil_of_le (by omega)]
      cases b <;> simp [select]

theorem select_range_getD {β : Type} (d : β) (m : List Bool) (l : List β) :
    (select m (List.range l.length)).map (fun i => l.getD i d) = select m l := by
  have := select_range'_getD d m l 0
  simpa [List.range_eq_range'] using this

theorem select_map_self {β : Type} (p : β → Bool) : ∀ (xs : List β), select (xs.map p) xs = xs.filter p
  | [] => by simp [select]
  | x :: xs => by cases h : p x <;> simp [select, h, select_map_self p xs]

theorem geAll_neg : ∀ (a b : List Rat), geAll (a.map fun x => -x) (b.map fun x => -x) = geAll b a
  | [], b => by cases b <;> simp [geAll]
  | _ :: _, [] => by simp [geAll]
  | x :: xs, y :: ys => by simp [geAll, geAll_neg xs ys]

theorem gtAny_neg : ∀ (a b : List Rat), gtAny (a.map fun x => -x) (b.map fun x => -x) = gtAny b a
  | [], b => by cases b <;> simp [gtAny]
  | _ :: _, [] => by simp [gtAny]
  | x :: xs, y :: ys => by simp [gtAny, gtAny_neg xs ys]


/-! ### the sorted frontier and the with-bounds routine -/

theorem dominates_neg (a b : List Rat) : dominates (negRow a) (negRow b) = dominatesMin a b := by
  simp [dominates, dominatesMin, negRow, geAll_neg, gtAny_neg]

/-- The sorted frontier consists of exactly the rows that no row dominates under minimisation
    (all copies), sorted along the first metric. -/
theorem sortedFrontierMin_eq (m : Nat) (rows : List (List Rat)) (hrect : ∀ r ∈ rows, r.length = m) :
    sortedFrontierMin rows =
      (rows.filter fun r => rows.all fun c => !dominatesMin c r).mergeSort
        (fun a b => decide (at' a 0 ≤ at' b 0)) := by
  unfold sortedFrontierMin frontier
  simp only
  have hrect' : ∀ r ∈ rows.map negRow, r.length = m := by
    intro r hr
    obtain ⟨r0, h0, rfl⟩ := List.mem_map.mp hr
    simpa [negRow] using hrect r0 h0
  rw [paretoMask_eq m _ hrect', select_range_getD, List.map_map, select_map_self]
  congr 1
  apply List.filter_congr
  intro r _
  simp only [Function.comp, nonDominated, List.all_map]
  congr 1; funext c
  simp only [Function.comp, ← dominates_neg]


theorem mem_sortedFrontierMin (m : Nat) (rows : List (List Rat)) (hrect : ∀ r ∈ rows, r.length = m)
    (r : List Rat) : r ∈ sortedFrontierMin rows ↔ r ∈ rows ∧ ∀ c ∈ rows, dominatesMin c r = false := by
  rw [sortedFrontierMin_eq m rows hrect]
  simp [List.mem_mergeSort, List.mem_filter]

theorem headD_mem {β : Type} (l : List β) (d : β) (h : l ≠ []) : l.headD d ∈ l := by
  cases l with
  | nil => exact absurd rfl h
  | cons x xs => simp

theorem getLastD_mem {β : Type} (l : List β) (d : β) (h : l ≠ []) : l.getLastD d ∈ l := by
  cases l with
  | nil => exact absurd rfl h
  | cons x xs => rw [List.getLastD_cons]; exact List.getLastD_mem_cons


theorem ite_at_exists (S : List (List Rat)) (cm : Nat) (c : Prop) [Decidable c] (a : List Rat) (X : Rat)
    (ha : c → a ∈ S) (hX : ∃ r ∈ S, X = at' r cm) : ∃ r ∈ S, (if c then at' a cm else X) = at' r cm := by
  split_ifs with h
  · exact ⟨a, ha h, rfl⟩
  · exact hX

/-- Every bound the with-bounds routine can end up with is an entry of the constrained column of
    some row of the sorted frontier. -/
theorem epsBounded_exists (eps : Rat) (cm : Nat) (sp : List (List Rat)) (t0 t1 : Thr) (h : sp ≠ []) :
    ∃ r1 ∈ sp, ∃ r2 ∈ sp, epsBounded eps cm sp t0 t1 = (1 - eps) * at' r1 cm + eps * at' r2 cm := by
  have hf := headD_mem sp [] h
  have hl := getLastD_mem sp [] h
  have hsub : ∀ (p : List Rat → Bool), (sp.filter p).isEmpty = false →
      (sp.filter p).headD [] ∈ sp ∧ (sp.filter p).getLastD [] ∈ sp := by
    intro p hp
    have hne : sp.filter p ≠ [] := by simpa using hp
    exact ⟨List.mem_of_mem_filter (headD_mem _ [] hne), List.mem_of_mem_filter (getLastD_mem _ [] hne)⟩
  have base : ∀ k : Nat, ∃ r ∈ sp, at' (if cm = k then sp.headD [] else sp.getLastD []) cm = at' r cm :=
    fun k => ⟨_, by split_ifs <;> assumption, rfl⟩
  have combine : ∀ A B : Rat, (∃ r ∈ sp, A = at' r cm) → (∃ r ∈ sp, B = at' r cm) →
      ∃ r1 ∈ sp, ∃ r2 ∈ sp, (1 - eps) * A + eps * B = (1 - eps) * at' r1 cm + eps * at' r2 cm := by
    rintro A B ⟨r1, h1, e1⟩ ⟨r2, h2, e2⟩
    exact ⟨r1, h1, r2, h2, by rw [← e1, ← e2]⟩
  unfold epsBounded
  simp only
  apply combine
  · apply ite_at_exists
    · intro hc
      simp only [Bool.and_eq_true, Bool.not_eq_true'] at hc
      exact (hsub _ hc.1.2).2
    · apply ite_at_exists
      · intro hc
        simp only [Bool.and_eq_true, Bool.not_eq_true'] at hc
        exact (hsub _ hc.1.2).1
      · exact base 0
  · apply ite_at_exists
    · intro hc
      simp only [Bool.and_eq_true, Bool.not_eq_true'] at hc
      exact (hsub _ hc.1.2).2
    · apply ite_at_exists
      · intro hc
        simp only [Bool.and_eq_true, Bool.not_eq_true'] at hc
        exact (hsub _ hc.1.2).1
      · exact base 1

end C13
