/-
  C17 ∘ C02 — helpers for the composition "the factor used to sample a GP posterior reproduces the
  posterior covariance" (Properties/C17.lean, section "Composition with C02/C03").

  * `multitask_post_cov_posSemidef_of_noise_pos`: the multitask analogue of
    `C02.radial_post_cov_posSemidef_of_noise_pos` (noise `> 0` makes `A` positive definite);
  * `svd_qr_one_by_one`: every positive semi-definite `1 × 1` matrix satisfies the SVD and QR contracts of
    `fallback_factor_of_svd` with `U = V = Q = 1` (used for non-vacuity only).
-/
import Properties.C02
import Mathlib.Analysis.Real.Sqrt
import Mathlib.LinearAlgebra.Matrix.PosDef

open Matrix

namespace C17
open Kernels (gramMatrix)
open C02 (crossMatrix)

/-- Posterior covariance of a GP with the multitask tensor kernel, every noise variance `> 0`:
    positive semidefinite with `A * Ainv = 1` as the only hypothesis besides the parameter ranges. -/
theorem multitask_post_cov_posSemidef_of_noise_pos {n q d : Nat} (kp kt : Kernels.Kind) {alpha : ℝ}
    (ha : 0 ≤ alpha) (l : Fin d → ℝ) (lt : ℝ) (x : Fin n → Fin d → ℝ) (t : Fin n → ℝ)
    (xs : Fin q → Fin d → ℝ) (ts : Fin q → ℝ) {noise : Fin n → ℝ} (hn : ∀ i, 0 < noise i)
    {Ainv : Matrix (Fin n) (Fin n) ℝ}
    (hA : C02.Spec.noisy (gramMatrix (Kernels.multitask kp kt alpha (List.ofFn l) lt)
      (fun i => List.ofFn (x i) ++ [t i])) noise * Ainv = 1) :
    (C02.Spec.cov
      (gramMatrix (Kernels.multitask kp kt alpha (List.ofFn l) lt) (fun j => List.ofFn (xs j) ++ [ts j]))
      (crossMatrix (Kernels.multitask kp kt alpha (List.ofFn l) lt) (fun j => List.ofFn (xs j) ++ [ts j])
        (fun i => List.ofFn (x i) ++ [t i]))
      Ainv).PosSemidef :=
  C02.multitask_post_cov_posSemidef kp kt ha l lt x t xs ts (fun i => (hn i).le) hA
    (C02.noisy_posDef_of_noise_pos
      (C02.gram_left_posSemidef (C02.multitask_append_gram_posSemidef kp kt ha l lt x t xs ts)) hn)

/-- A positive semi-definite `1 × 1` matrix `S = (s)` has the SVD `1 · diag(s) · 1ᵀ`, `s ≥ 0`, and
    `(1 · diag(√s))ᵀ = 1 · diag(√s)` is a QR factorisation. -/
theorem svd_qr_one_by_one (S : Matrix (Fin 1) (Fin 1) ℝ) (hS : S.PosSemidef) :
    S = (1 : Matrix (Fin 1) (Fin 1) ℝ) * diagonal (fun _ => S 0 0) * (1 : Matrix (Fin 1) (Fin 1) ℝ)ᵀ ∧
    (∀ i : Fin 1, 0 ≤ (fun _ => S 0 0 : Fin 1 → ℝ) i) ∧
    ((1 : Matrix (Fin 1) (Fin 1) ℝ) * diagonal (fun i => Real.sqrt ((fun _ => S 0 0 : Fin 1 → ℝ) i)))ᵀ
      = (1 : Matrix (Fin 1) (Fin 1) ℝ) * diagonal (fun _ => Real.sqrt (S 0 0)) := by
  refine ⟨?_, fun _ => hS.diag_nonneg, ?_⟩
  · ext i j
    fin_cases i; fin_cases j
    simp
  · simp only [Matrix.one_mul, diagonal_transpose]

end C17
